package main

import (
	"fmt"
	"go/token"
	"os"

	"golang.org/x/tools/go/ssa"
)

// If-conversion: a symbolic branch whose sides are short, side-effect-free blocks re-joining at a
// common successor is executed on both sides and merged with if-then-else terms instead of forking.
// Stores into scalar cells inside the sides become conditional updates (journalled; undone if the
// merge has to be abandoned, in which case the engine falls back to forking).

type ifcCtx struct {
	cond    *Term
	journal []ifcUndo
}

type ifcUndo struct {
	c   *Cell
	old Value
}

const maxSideInstrs = 48

var pureCallees = map[string]bool{
	"math.Float64bits": true, "math.Float64frombits": true, "math.Float32bits": true, "math.Float32frombits": true,
	"math.IsNaN": true, "math.IsInf": true, "math.Signbit": true, "math.Abs": true, "math.Floor": true, "math.Ceil": true,
	"math.Trunc": true, "math.Sqrt": true, "math.NaN": true, "math.Inf": true, "math.Copysign": true,
}

func (sh *Shared) sideOK(b *ssa.BasicBlock) bool {
	if v, ok := sh.sideCache.Load(b); ok {
		return v.(bool)
	}
	ok := len(b.Instrs) <= maxSideInstrs
	if ok {
		for _, ins := range b.Instrs[:len(b.Instrs)-1] {
			switch i := ins.(type) {
			case *ssa.BinOp:
				if i.Op == token.QUO || i.Op == token.REM {
					if _, isInt := basicIntType(i.X.Type()); isInt {
						ok = false
					}
				}
			case *ssa.UnOp:
				if i.Op == token.ARROW {
					ok = false
				}
			case *ssa.Alloc, *ssa.ChangeInterface, *ssa.ChangeType, *ssa.Convert, *ssa.Extract, *ssa.Field, *ssa.FieldAddr,
				*ssa.MakeInterface, *ssa.MakeClosure, *ssa.Phi, *ssa.Store, *ssa.DebugRef, *ssa.IndexAddr, *ssa.Index, *ssa.Slice:
			case *ssa.TypeAssert:
				if !i.CommaOk {
					ok = false
				}
			case *ssa.Call:
				ok = false
				if i.Call.IsInvoke() {
					break
				}
				switch f := i.Call.Value.(type) {
				case *ssa.Builtin:
					switch f.Name() {
					case "len", "cap", "min", "max":
						ok = true
					}
				case *ssa.Function:
					if pureCallees[f.String()] {
						ok = true
					}
				}
			default:
				ok = false
			}
			if !ok {
				break
			}
		}
		switch b.Instrs[len(b.Instrs)-1].(type) {
		case *ssa.Jump, *ssa.If:
		default:
			ok = false
		}
	}
	sh.sideCache.Store(b, ok)
	return ok
}

func basicIntType(t interface{ String() string }) (int, bool) {
	// integer division can panic; float division cannot
	s := t.String()
	switch s {
	case "float64", "float32":
		return 0, false
	}
	return 0, true
}

// tryIfConvert returns the join block when the branch was merged (phis of the join are already set).
// Regions: chains/trees of single-predecessor pure blocks (covers a&&b&&c, a||b, if/else diamonds and
// if-without-else triangles) that all re-join at one block J.
func (e *Exec) tryIfConvert(fr *frame, b *ssa.BasicBlock, c *Term) (*ssa.BasicBlock, bool) {
	if e.local != nil || e.ifc != nil || e.noIfConv {
		return nil, false
	}
	T, F := b.Succs[0], b.Succs[1]
	if T == F {
		return nil, false
	}
	var cands []*ssa.BasicBlock
	add := func(x *ssa.BasicBlock) {
		for _, y := range cands {
			if y == x {
				return
			}
		}
		if x != b {
			cands = append(cands, x)
		}
	}
	add(F)
	add(T)
	for _, x := range []*ssa.BasicBlock{T, F} {
		if len(x.Succs) == 1 {
			add(x.Succs[0])
		}
		if len(x.Succs) == 2 {
			add(x.Succs[0])
			add(x.Succs[1])
		}
	}
	for _, J := range cands {
		if e.regionShape(b, J) {
			if e.convertRegion(fr, b, c, J) {
				return J, true
			}
			return nil, false
		}
	}
	return nil, false
}

// regionShape: static check that every path from b's successors reaches J through at most a few
// single-predecessor pure blocks
func (e *Exec) regionShape(b, J *ssa.BasicBlock) bool {
	key := [2]*ssa.BasicBlock{b, J}
	if v, ok := e.sh.regionCache.Load(key); ok {
		return v.(bool)
	}
	count := 0
	var walk func(x *ssa.BasicBlock, depth int) bool
	walk = func(x *ssa.BasicBlock, depth int) bool {
		if x == J {
			return true
		}
		count++
		if depth > 5 || count > 8 || x == b || len(x.Preds) != 1 || !e.sh.sideOK(x) {
			return false
		}
		for _, s := range x.Succs {
			if !walk(s, depth+1) {
				return false
			}
		}
		return len(x.Succs) > 0
	}
	ok := walk(b.Succs[0], 0) && walk(b.Succs[1], 0) && count > 0
	e.sh.regionCache.Store(key, ok)
	return ok
}

type ifcEdge struct {
	pred *ssa.BasicBlock
	cond *Term
}

func (e *Exec) convertRegion(fr *frame, b *ssa.BasicBlock, c *Term, J *ssa.BasicBlock) bool {
	ctx := &ifcCtx{}
	e.ifc = ctx
	saveSteps := e.steps
	ok := func() (ok bool) {
		defer func() {
			if r := recover(); r != nil {
				switch r.(type) {
				case localFail, *goPanic, pathEnd:
					ok = false
				default:
					e.ifc = nil
					panic(r)
				}
			}
		}()
		var edges []ifcEdge
		var run func(x *ssa.BasicBlock, from *ssa.BasicBlock, cond *Term)
		run = func(x *ssa.BasicBlock, from *ssa.BasicBlock, cond *Term) {
			if x == J {
				edges = append(edges, ifcEdge{from, cond})
				return
			}
			ctx.cond = cond
			for _, ins := range x.Instrs[:len(x.Instrs)-1] {
				if phi, isPhi := ins.(*ssa.Phi); isPhi {
					fr.regs[phi] = e.get(fr, phi.Edges[0])
					continue
				}
				e.steps++
				fr.cur = ins
				e.execInstr(fr, ins)
			}
			switch t := x.Instrs[len(x.Instrs)-1].(type) {
			case *ssa.Jump:
				run(x.Succs[0], x, cond)
			case *ssa.If:
				c2 := e.get(fr, t.Cond).(*Term)
				if c2.konst {
					if c2.c == 1 {
						run(x.Succs[0], x, cond)
					} else {
						run(x.Succs[1], x, cond)
					}
					return
				}
				run(x.Succs[0], x, e.and(cond, c2))
				run(x.Succs[1], x, e.and(cond, e.not(c2)))
			default:
				panic(localFail{"unexpected terminator"})
			}
		}
		run(b.Succs[0], b, c)
		run(b.Succs[1], b, e.not(c))
		if len(edges) < 2 {
			return false
		}
		var phis []*ssa.Phi
		var vals []Value
		for _, ins := range J.Instrs {
			phi, isPhi := ins.(*ssa.Phi)
			if !isPhi {
				break
			}
			var acc Value
			for k := len(edges) - 1; k >= 0; k-- {
				idx := -1
				for pi, p := range J.Preds {
					if p == edges[k].pred {
						idx = pi
						break
					}
				}
				if idx < 0 {
					return false
				}
				v := e.get(fr, phi.Edges[idx])
				if acc == nil {
					acc = v
				} else {
					m, ok := e.mergeAny(edges[k].cond, v, acc)
					if !ok {
						return false
					}
					acc = m
				}
			}
			phis = append(phis, phi)
			vals = append(vals, acc)
		}
		for k, phi := range phis {
			fr.regs[phi] = vals[k]
		}
		return true
	}()
	e.ifc = nil
	if !ok {
		for k := len(ctx.journal) - 1; k >= 0; k-- {
			ctx.journal[k].c.v = ctx.journal[k].old
		}
		e.steps = saveSteps
		return false
	}
	e.stats.ifConversions++
	if debugIfc {
		fmt.Fprintf(os.Stderr, "[ifc] %s block %d -> join %d cond %s\n", fr.fn, b.Index, J.Index, c.s)
	}
	return true
}

// mergeAny: identical values merge trivially; otherwise scalars/structs/tuples via ite
func (e *Exec) mergeAny(c *Term, a, b Value) (Value, bool) {
	switch x := a.(type) {
	case *Cell:
		if y, ok := b.(*Cell); ok && x == y {
			return a, true
		}
		return nil, false
	case *FuncV:
		if y, ok := b.(*FuncV); ok && x == y {
			return a, true
		}
		return nil, false
	case *MapV:
		if y, ok := b.(*MapV); ok && x == y {
			return a, true
		}
		return nil, false
	case SliceV:
		if y, ok := b.(SliceV); ok && x == y {
			return a, true
		}
		return nil, false
	case IfaceV:
		y, ok := b.(IfaceV)
		if !ok {
			return nil, false
		}
		if x.t == nil && y.t == nil {
			return a, true
		}
		if x.t == nil || y.t == nil || x.t != y.t {
			return nil, false
		}
		m, ok := e.mergeAny(c, x.v, y.v)
		if !ok {
			return nil, false
		}
		return IfaceV{t: x.t, v: m}, true
	case StrV:
		y, ok := b.(StrV)
		if !ok || x.length() != y.length() {
			return nil, false
		}
		if x.sym == nil && y.sym == nil && x.s == y.s {
			return a, true
		}
		ts := make([]*Term, x.length())
		for k := range ts {
			ts[k] = e.ite(c, x.at(k), y.at(k))
		}
		return strFromTerms(ts), true
	}
	return e.mergeIte(c, a, b)
}

// conditional leaf store used while if-converting
func (e *Exec) ifcStore(c *Cell, v Value) {
	old := c.v
	m, ok := e.mergeAny(e.ifc.cond, v, old)
	if !ok {
		panic(localFail{"conditional store of unmergeable value"})
	}
	e.ifc.journal = append(e.ifc.journal, ifcUndo{c, old})
	c.v = m
}

var debugIfc = os.Getenv("SYMGO_DEBUG_IFC") != ""
