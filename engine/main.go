package main

import (
	"encoding/json"
	"flag"
	"fmt"
	"go/types"
	"os"
	"os/exec"
	"path/filepath"
	"sort"
	"strings"
	"sync"
	"time"

	"golang.org/x/tools/go/packages"
	"golang.org/x/tools/go/ssa"
	"golang.org/x/tools/go/ssa/ssautil"
)

// ---------------------------------------------------------------------
// configuration

type TierCfg struct {
	Bounds map[string]int `json:"bounds"`
	Unwind int            `json:"unwind"`
	Skip   bool           `json:"skip"`
}

type Harness struct {
	ID             string             `json:"id"`
	Property       string             `json:"property"`
	Pkg            string             `json:"pkg"`  // "", "parser", "ftoa", "unistring", "ftoa/internal/fast"
	Func           string             `json:"func"` // harness entry function
	Desc           string             `json:"desc"`
	Kernels        []string           `json:"kernels"`
	Tiers          map[string]TierCfg `json:"tiers"`
	Stubs          map[string]string  `json:"stubs"`
	MulAbstraction bool               `json:"mul_abstraction"`
	FPAbstraction  bool               `json:"fp_abstraction"`
	Summarise      []string           `json:"summarise"`
	precise        bool
	MaxEnum        int                `json:"max_enum"`
	AllowUnreached []string           `json:"allow_unreached"`
	Outside        []string           `json:"outside_bounds"`
	Assumptions    []string           `json:"assumptions"`
	NoReplay       bool               `json:"no_replay"`
	NoValidate     bool               `json:"no_validate"`

	// resolved
	Bounds  map[string]int `json:"-"`
	Unwind  int            `json:"-"`
	fn      *ssa.Function
	stubFns map[string]*ssa.Function
}

type KnownFinding struct {
	ID       string `json:"id"`
	Property string `json:"property"`
	Harness  string `json:"harness"`
	AssertID string `json:"assert_id"`
	Status   string `json:"status"` // "open" | "fixed"
	Text     string `json:"text"`
	Commit   string `json:"commit,omitempty"`
}

var repoDir = "/repo"
const modPath = "github.com/dop251/goja"

var verifDir = "/verif"

func pkgPath(p string) string {
	if p == "" {
		return modPath
	}
	return modPath + "/" + p
}

// ---------------------------------------------------------------------

type task struct {
	h      *Harness
	prefix []uint64
}

type workQueue struct {
	mu      sync.Mutex
	cond    *sync.Cond
	tasks   []task
	pending int // queued + running
	stop    bool
}

func (q *workQueue) push(t task) {
	q.mu.Lock()
	q.tasks = append(q.tasks, t)
	q.pending++
	q.mu.Unlock()
	q.cond.Signal()
}

func (q *workQueue) pop() (task, bool) {
	q.mu.Lock()
	defer q.mu.Unlock()
	for len(q.tasks) == 0 && q.pending > 0 && !q.stop {
		q.cond.Wait()
	}
	if len(q.tasks) == 0 || q.stop {
		return task{}, false
	}
	// LIFO keeps the frontier small (depth first)
	t := q.tasks[len(q.tasks)-1]
	q.tasks = q.tasks[:len(q.tasks)-1]
	return t, true
}

func (q *workQueue) done() {
	q.mu.Lock()
	q.pending--
	if q.pending == 0 {
		q.cond.Broadcast()
	}
	q.mu.Unlock()
}

// per-harness merged result
type HResult struct {
	ID          string               `json:"harness"`
	Func        string               `json:"func"`
	Desc        string               `json:"desc,omitempty"`
	Paths       int                  `json:"paths"`
	Done        int                  `json:"paths_completed"`
	Infeasible  int                  `json:"paths_infeasible"`
	Panicked    int                  `json:"paths_ending_in_escaping_panic"`
	Stopped     int                  `json:"paths_stopped_at_failed_assertion"`
	Aborted     int                  `json:"paths_aborted"`
	Steps       int64                `json:"ssa_instructions"`
	Queries     int                  `json:"solver_queries"`
	SolverTime  float64              `json:"solver_time_s"`
	Sites       map[string]*siteStat `json:"obligation_sites"`
	Bounds      map[string]int       `json:"bounds"`
	Unwind      int                  `json:"unwind"`
	Inconcl     []string             `json:"inconclusive,omitempty"`
	Unreached   []string             `json:"unreached_sites,omitempty"`
	StaticSites []string             `json:"static_sites"`
	Validated   int                  `json:"native_validation_runs_agreeing"`
	funcs       map[string]bool
	notes       map[string]bool
	cexs        []*Cex
	valSamples  []*Cex // inputs of completed paths, replayed natively to validate the translation
	valSeen     int
	mu          sync.Mutex
}

func main() {
	prop := flag.String("prop", "", "property id (e.g. C05)")
	tier := flag.String("tier", "quick", "quick|thorough")
	only := flag.String("harness", "", "run only this harness id (substring)")
	workers := flag.Int("workers", 16, "parallel workers")
	solverBin := flag.String("solver", "z3", "solver binary")
	timeout := flag.Int("timeout", 0, "per-query timeout in ms (default 60000 quick / 300000 thorough)")
	out := flag.String("out", "", "evidence file (default /verif/evidence/<prop>.json)")
	logSMT := flag.String("logsmt", "", "directory for SMT transcripts (debug)")
	verbose := flag.Bool("v", false, "verbose")
	noEvidence := flag.Bool("noevidence", false, "do not write evidence")
	replayFile := flag.String("replay", "", "natively replay one counterexample record and print the native log")
	crosscheck := flag.String("crosscheck", "", "second solver binary (e.g. z3-new, cvc5): the whole exploration is repeated with it and the per-assertion verdicts must agree")
	validateN := flag.Int("validate", -1, "completed paths per harness whose solver-chosen inputs are replayed natively to validate the translation (default 3 quick / 8 thorough)")
	boundsOv := flag.String("bounds", "", "override tier bounds, e.g. K=1,M=1 (debugging; evidence records the bounds actually used)")
	flag.StringVar(&verifDir, "verif", "/verif", "verif dir")
	flag.StringVar(&repoDir, "repo", "/repo", "goja source tree to check (default /repo; scratch worktrees for seeded changes)")
	flag.Parse()
	if *replayFile != "" {
		raw, err := os.ReadFile(*replayFile)
		if err != nil {
			fatal("replay: %v", err)
		}
		var rec struct {
			Property string `json:"property"`
			Harness  string `json:"harness"`
		}
		json.Unmarshal(raw, &rec)
		*prop = rec.Property
		*only = rec.Harness
	}
	if *prop == "" {
		fmt.Fprintln(os.Stderr, "usage: symgo -prop Cxx -tier quick|thorough | symgo -replay <record.json>")
		os.Exit(2)
	}
	if *timeout == 0 {
		if *tier == "thorough" {
			*timeout = 300000
		} else {
			*timeout = 60000
		}
	}
	seed := 0
	fmt.Sscanf(os.Getenv("VERIF_SEED"), "%d", &seed)
	t0 := time.Now()
	os.Setenv("PATH", "/opt/veriftools/go1.26.8/bin:"+os.Getenv("PATH"))

	// ---- config
	var all []*Harness
	cfgFiles, _ := filepath.Glob(filepath.Join(verifDir, "harness", "*.json"))
	sort.Strings(cfgFiles)
	for _, cf := range cfgFiles {
		raw, err := os.ReadFile(cf)
		if err != nil {
			fatal("read %s: %v", cf, err)
		}
		var hs []*Harness
		if err := json.Unmarshal(raw, &hs); err != nil {
			fatal("parse %s: %v", cf, err)
		}
		all = append(all, hs...)
	}
	var sel []*Harness
	for _, h := range all {
		if h.Property != *prop {
			continue
		}
		if *only != "" && !strings.Contains(h.ID, *only) {
			continue
		}
		tc, ok := h.Tiers[*tier]
		if !ok {
			tc, ok = h.Tiers["quick"]
			if !ok {
				tc = TierCfg{}
			}
		}
		if tc.Skip {
			continue
		}
		h.Bounds = tc.Bounds
		if h.Bounds == nil {
			h.Bounds = map[string]int{}
		}
		h.Unwind = tc.Unwind
		if *boundsOv != "" {
			nb := map[string]int{}
			for k, v := range h.Bounds {
				nb[k] = v
			}
			for _, kv := range strings.Split(*boundsOv, ",") {
				var k string
				var v int
				if i := strings.Index(kv, "="); i > 0 {
					k = kv[:i]
					fmt.Sscanf(kv[i+1:], "%d", &v)
					nb[k] = v
				}
			}
			h.Bounds = nb
		}
		sel = append(sel, h)
	}
	if len(sel) == 0 {
		fatal("no harness for property %s", *prop)
	}
	known := map[string]*KnownFinding{}
	kfFiles, _ := filepath.Glob(filepath.Join(verifDir, "known_findings.d", "*.json"))
	kfFiles = append([]string{filepath.Join(verifDir, "known_findings.json")}, kfFiles...)
	for _, kff := range kfFiles {
		raw, err := os.ReadFile(kff)
		if err != nil {
			continue
		}
		var kfs []*KnownFinding
		if err := json.Unmarshal(raw, &kfs); err != nil {
			fatal("%s: %v", kff, err)
		}
		for _, k := range kfs {
			known[k.ID] = k
		}
	}

	if *replayFile != "" {
		abs, _ := filepath.Abs(*replayFile)
		res := nativeReplay(sel, []string{abs})
		logs, _ := filepath.Glob(filepath.Join(filepath.Dir(abs), "native_replay_*.log"))
		for _, l := range logs {
			b, _ := os.ReadFile(l)
			os.Stdout.Write(b)
		}
		fmt.Printf("replay %s: %s\n", abs, res[abs])
		if res[abs] == "confirmed" {
			fmt.Printf("VIOLATION property=%s replay=%s\n", *prop, abs)
			os.Exit(1)
		}
		os.Exit(0)
	}
	// ---- load /repo with the harness overlay
	overlay, pkgsNeeded, harnessFiles := buildOverlay(sel, false)
	cfg := &packages.Config{Mode: packages.LoadAllSyntax, Dir: repoDir, Overlay: overlay,
		Env: append(os.Environ(), "GOTOOLCHAIN=local", "GOFLAGS=-mod=mod", "GOPROXY=off")}
	var patterns []string
	for p := range pkgsNeeded {
		if p == "" {
			patterns = append(patterns, ".")
		} else {
			patterns = append(patterns, "./"+p)
		}
	}
	sort.Strings(patterns)
	pkgs, err := packages.Load(cfg, patterns...)
	if err != nil {
		fatal("load: %v", err)
	}
	nerr := 0
	packages.Visit(pkgs, nil, func(p *packages.Package) {
		for _, e := range p.Errors {
			if strings.HasPrefix(p.PkgPath, modPath) {
				fmt.Fprintln(os.Stderr, "load error:", e)
				nerr++
			}
		}
	})
	if nerr > 0 {
		fatal("package load errors (the tree or a harness does not type-check)")
	}
	prog, _ := ssautil.AllPackages(pkgs, ssa.InstantiateGenerics)
	prog.Build()
	loadTime := time.Since(t0)
	sh := &Shared{prog: prog, sizes: types.SizesFor("gc", "amd64"), initInfos: map[*ssa.Package]*initInfo{}, harnessFiles: harnessFiles}

	// resolve harness functions and stubs
	findFunc := func(pkg, name string) *ssa.Function {
		var sp *ssa.Package
		for _, q := range prog.AllPackages() {
			if q.Pkg.Path() == pkg {
				sp = q
				break
			}
		}
		if sp == nil {
			return nil
		}
		return sp.Func(name)
	}
	for _, h := range sel {
		h.fn = findFunc(pkgPath(h.Pkg), h.Func)
		if h.fn == nil {
			fatal("harness %s: function %s not found in %s", h.ID, h.Func, pkgPath(h.Pkg))
		}
		h.stubFns = map[string]*ssa.Function{}
		for real, target := range h.Stubs {
			if strings.HasPrefix(target, "@") {
				continue
			}
			tp := h.Pkg
			tn := target
			if i := strings.LastIndex(target, ":"); i >= 0 {
				tp, tn = target[:i], target[i+1:]
			}
			f := findFunc(pkgPath(tp), tn)
			if f == nil {
				fatal("harness %s: stub target %s not found", h.ID, target)
			}
			h.stubFns[real] = f
		}
	}

	if *validateN < 0 {
		*validateN = 3
		if *tier == "thorough" {
			*validateN = 8
		}
	}
	rc := &runCtx{sh: sh, prog: prog, hf: harnessFiles, workers: *workers, solverBin: *solverBin, timeout: *timeout, logSMT: *logSMT, verbose: *verbose, prop: *prop, known: known, validate: *validateN, seed: seed}
	results := rc.explore(sel)
	// the registered check (against /repo, writing evidence) owns replay/<prop>; scratch-worktree and
	// debugging runs get a directory of their own so that concurrent runs do not clobber each other
	replayDir := filepath.Join(verifDir, "replay", *prop)
	if repoDir != "/repo" {
		replayDir += "." + filepath.Base(repoDir)
	} else if *noEvidence {
		replayDir += fmt.Sprintf(".dbg%d", os.Getpid())
	}
	os.RemoveAll(replayDir)
	oc := rc.judge(sel, results, replayDir)
	// second pass: harnesses run under an over-approximating abstraction whose counterexample did not
	// reproduce natively are re-run precisely (no abstraction); the precise run replaces the abstract one.
	var again []*Harness
	for _, h := range sel {
		if oc.unconfirmed[h.ID] && (h.MulAbstraction || h.FPAbstraction) && !h.precise {
			h.precise = true
			again = append(again, h)
		}
	}
	if len(again) > 0 {
		fmt.Printf("re-running %d harness(es) without abstraction (abstract counterexample did not reproduce)\n", len(again))
		r2 := rc.explore(again)
		for id, r := range r2 {
			r.Desc += " [precise re-run: abstractions off]"
			results[id] = r
		}
		oc = rc.judge(sel, results, replayDir)
	}
	inconclusive := oc.inconclusive
	violations, knownHits, replays, outLines, sampleCex := oc.violations, oc.knownHits, oc.replays, oc.lines, oc.samples
	// ---- cross-check with a second solver: same harnesses, same bounds, verdicts per assertion must agree
	crossNote := ""
	if *crosscheck != "" {
		rc2 := *rc
		rc2.solverBin = *crosscheck
		rc2.validate = 0
		for _, h := range sel {
			h.precise = results[h.ID] != nil && strings.Contains(results[h.ID].Desc, "precise re-run")
		}
		res2 := rc2.explore(sel)
		agree := true
		for _, h := range sel {
			a, b := results[h.ID], res2[h.ID]
			if a.Paths != b.Paths || a.Done != b.Done {
				agree = false
				outLines = append(outLines, fmt.Sprintf("SOLVER-DISAGREEMENT harness=%s paths %d/%d vs %d/%d (%s vs %s)", h.ID, a.Done, a.Paths, b.Done, b.Paths, *solverBin, *crosscheck))
			}
			for sid, sa := range a.Sites {
				sb := b.Sites[sid]
				if sb == nil || sa.Failed != sb.Failed || sa.Discharged+sa.Trivial != sb.Discharged+sb.Trivial || sa.Known != sb.Known {
					agree = false
					outLines = append(outLines, fmt.Sprintf("SOLVER-DISAGREEMENT harness=%s assert=%s (%s vs %s)", h.ID, sid, *solverBin, *crosscheck))
				}
			}
			for _, in := range b.Inconcl {
				if strings.Contains(in, "solver") {
					agree = false
					outLines = append(outLines, fmt.Sprintf("SOLVER-DISAGREEMENT harness=%s second solver inconclusive: %s", h.ID, in))
				}
			}
		}
		if agree {
			crossNote = "all per-assertion verdicts agree between " + *solverBin + " and " + *crosscheck
		} else {
			crossNote = "DISAGREEMENT between " + *solverBin + " and " + *crosscheck
			inconclusive = true
		}
	}
	// ---- translator validation: inputs of sampled completed paths must run natively without any
	// assertion failure or panic (the engine has shown every assertion holds on those paths)
	{
		hmap := map[string]*Harness{}
		for _, h := range sel {
			hmap[h.ID] = h
		}
		var files []string
		owner := map[string]*HResult{}
		os.MkdirAll(replayDir, 0o755)
		n := 0
		for _, h := range sel {
			r := results[h.ID]
			for _, c := range r.valSamples {
				p := filepath.Join(replayDir, fmt.Sprintf("validate_%s_%d.json", sanitize(c.Harness), n))
				n++
				rec := map[string]interface{}{"property": *prop, "harness": c.Harness, "func": h.Func, "pkg": h.Pkg, "assert_id": "__validate__",
					"values": c.Values, "kinds": c.Kinds, "bounds": h.Bounds}
				raw, _ := json.MarshalIndent(rec, "", " ")
				os.WriteFile(p, raw, 0o644)
				files = append(files, p)
				owner[p] = r
			}
		}
		if len(files) > 0 {
			res := nativeReplay(sel, files)
			for _, f := range files {
				switch res[f] {
				case "validated":
					owner[f].Validated++
					replays++
					os.Remove(f)
				case "assume-failed":
					// the native run left the harness' assumptions (a symbolic-only stub chose the inputs): not counted
					os.Remove(f)
				default:
					inconclusive = true
					outLines = append(outLines, fmt.Sprintf("TRANSLATION-MISMATCH property=%s harness=%s native=%s replay=%s (the engine proved every assertion on this path, the native run disagrees)", *prop, owner[f].ID, res[f], f))
				}
			}
		}
	}
	// ---- vacuity
	for _, h := range sel {
		r := results[h.ID]
		allow := map[string]bool{}
		for _, a := range h.AllowUnreached {
			allow[a] = true
		}
		for _, sid := range r.StaticSites {
			if s := r.Sites[sid]; (s == nil || s.Reached == 0) && !allow[sid] {
				r.Unreached = append(r.Unreached, sid)
			}
		}
		if r.Done == 0 && r.Stopped == 0 && r.Panicked == 0 {
			r.Inconcl = appendUniq(r.Inconcl, "vacuity: no path reached the end of the harness")
		}
		if len(r.Unreached) > 0 {
			r.Inconcl = appendUniq(r.Inconcl, "vacuity: unreached assertion sites: "+strings.Join(r.Unreached, ","))
		}
		if len(r.Inconcl) > 0 {
			inconclusive = true
		}
	}

	// ---- evidence
	wall := time.Since(t0).Seconds()
	if !*noEvidence {
		solvers := *solverBin
		if *crosscheck != "" {
			solvers += " + " + *crosscheck + " (" + crossNote + ")"
		}
		writeEvidence(*prop, *tier, seed, sel, results, *out, wall, loadTime.Seconds(), violations, knownHits, replays, sampleCex, solvers, *timeout, inconclusive)
	}
	for _, h := range sel {
		r := results[h.ID]
		nob, ndis := 0, 0
		for _, s := range r.Sites {
			nob += s.Trivial + s.Discharged + s.Failed + s.Unknown
			ndis += s.Trivial + s.Discharged
		}
		fmt.Printf("%-28s paths=%d (done %d, infeasible %d, panic %d, stop %d, abort %d) steps=%d queries=%d solver=%.1fs obligations=%d discharged=%d\n",
			h.ID, r.Paths, r.Done, r.Infeasible, r.Panicked, r.Stopped, r.Aborted, r.Steps, r.Queries, r.SolverTime, nob, ndis)
		for _, in := range r.Inconcl {
			fmt.Printf("  INCONCLUSIVE: %s\n", in)
		}
	}
	for _, l := range outLines {
		fmt.Println(l)
	}
	fmt.Printf("property=%s tier=%s wall=%.1fs violations=%d known_findings=%d inconclusive=%v\n", *prop, *tier, wall, violations, knownHits, inconclusive)
	switch {
	case violations > 0:
		os.Exit(1)
	case inconclusive:
		os.Exit(3)
	}
}

func newExecNoSolver(sh *Shared, h *Harness) *Exec {
	e := &Exec{sh: sh, prog: sh.prog, h: h}
	e.funcsSeen = map[*ssa.Function]bool{}
	e.notes = map[string]bool{}
	e.sites = map[string]*siteStat{}
	e.maxSteps = 20_000_000
	e.unwind = h.Unwind
	if e.unwind == 0 {
		e.unwind = 16
	}
	e.maxIte = 300
	e.maxEnum = h.MaxEnum
	if e.maxEnum == 0 {
		e.maxEnum = 64
	}
	e.mulAbstraction = h.MulAbstraction && !h.precise
	e.fpAbstraction = h.FPAbstraction && !h.precise
	return e
}

func appendUniq(l []string, s string) []string {
	for _, x := range l {
		if x == s {
			return l
		}
	}
	if len(l) > 40 {
		return l
	}
	return append(l, s)
}

func fatal(f string, a ...interface{}) {
	fmt.Fprintf(os.Stderr, "symgo: "+f+"\n", a...)
	os.Exit(3)
}

// harness source files: /verif/harness/<dir>/*.go ; dir "goja" is the root package.
// *_native.go only in native builds, *_sym.go only for the engine.
func buildOverlay(sel []*Harness, native bool) (map[string][]byte, map[string]bool, map[string]bool) {
	overlay := map[string][]byte{}
	pk := map[string]bool{}
	hf := map[string]bool{}
	for _, h := range sel {
		pk[h.Pkg] = true
	}
	for p := range pk {
		dir := "goja"
		if p != "" {
			dir = strings.ReplaceAll(p, "/", "_")
		}
		files, _ := filepath.Glob(filepath.Join(verifDir, "harness", dir, "*.go"))
		for _, f := range files {
			base := filepath.Base(f)
			if native && strings.HasSuffix(base, "_sym.go") {
				continue
			}
			if !native && (strings.HasSuffix(base, "_native.go") || strings.HasSuffix(base, "_test.go")) {
				continue
			}
			raw, err := os.ReadFile(f)
			if err != nil {
				fatal("read %s: %v", f, err)
			}
			target := filepath.Join(repoDir, p, "zz_verif_"+base)
			overlay[target] = raw
			hf[target] = true
		}
		api, err := os.ReadFile(filepath.Join(verifDir, "harness", "_api", "api_sym.go.tmpl"))
		if err != nil {
			fatal("read api template: %v", err)
		}
		target := filepath.Join(repoDir, p, "zz_verif_api_sym.go")
		overlay[target] = []byte(strings.Replace(string(api), "package PKG", "package "+goPkgName(p), 1))
		hf[target] = true
	}
	return overlay, pk, hf
}

func goPkgName(p string) string {
	if p == "" {
		return "goja"
	}
	return filepath.Base(p)
}

func overlayFileMap(sel []*Harness, tmp string) map[string]string {
	m := map[string]string{}
	pk := map[string]bool{}
	for _, h := range sel {
		pk[h.Pkg] = true
	}
	for p := range pk {
		dir := "goja"
		if p != "" {
			dir = strings.ReplaceAll(p, "/", "_")
		}
		files, _ := filepath.Glob(filepath.Join(verifDir, "harness", dir, "*.go"))
		for _, f := range files {
			base := filepath.Base(f)
			if strings.HasSuffix(base, "_sym.go") {
				continue
			}
			m[filepath.Join(repoDir, p, "zz_verif_"+base)] = f
		}
		for _, tn := range []string{"api_native.go", "replay_test.go"} {
			raw, err := os.ReadFile(filepath.Join(verifDir, "harness", "_api", tn+".tmpl"))
			if err != nil {
				fatal("read api template: %v", err)
			}
			gen := filepath.Join(tmp, dir+"_"+tn)
			os.WriteFile(gen, []byte(strings.Replace(string(raw), "package PKG", "package "+goPkgName(p), 1)), 0o644)
			m[filepath.Join(repoDir, p, "zz_verif_"+tn)] = gen
		}
		var sb strings.Builder
		sb.WriteString("package " + goPkgName(p) + "\n\nvar vHarnesses = map[string]func(){\n")
		seen := map[string]bool{}
		for _, h := range sel {
			if h.Pkg == p && !seen[h.Func] {
				seen[h.Func] = true
				sb.WriteString(fmt.Sprintf("\t%q: %s,\n", h.Func, h.Func))
			}
		}
		sb.WriteString("}\n")
		gen := filepath.Join(tmp, dir+"_registry.go")
		os.WriteFile(gen, []byte(sb.String()), 0o644)
		m[filepath.Join(repoDir, p, "zz_verif_registry.go")] = gen
	}
	return m
}

// static scan: assertion ids in the harness entry and the harness-file helpers it calls
func staticSites(fn *ssa.Function, harnessFiles map[string]bool, prog *ssa.Program) []string {
	seen := map[*ssa.Function]bool{}
	ids := map[string]bool{}
	var visit func(f *ssa.Function)
	visit = func(f *ssa.Function) {
		if f == nil || seen[f] || f.Blocks == nil {
			return
		}
		seen[f] = true
		pos := prog.Fset.Position(f.Pos())
		if !harnessFiles[pos.Filename] && f.Parent() == nil {
			return
		}
		for _, b := range f.Blocks {
			for _, ins := range b.Instrs {
				if mc, ok := ins.(*ssa.MakeClosure); ok {
					visit(mc.Fn.(*ssa.Function))
				}
				c, ok := ins.(ssa.CallInstruction)
				if !ok {
					continue
				}
				callee := c.Common().StaticCallee()
				if callee == nil {
					continue
				}
				switch callee.Name() {
				case "vAssert", "vAssertK", "vAssertNoRace":
					if k, ok := c.Common().Args[0].(*ssa.Const); ok {
						ids[strings.Trim(k.Value.ExactString(), "\"")] = true
					}
				case "vReach":
					if k, ok := c.Common().Args[0].(*ssa.Const); ok {
						ids["reach:"+strings.Trim(k.Value.ExactString(), "\"")] = true
					}
				default:
					visit(callee)
				}
			}
		}
	}
	visit(fn)
	var out []string
	for id := range ids {
		out = append(out, id)
	}
	sort.Strings(out)
	return out
}

// nativeReplay: run the native twins of the harnesses on the recorded inputs (one go test per package)
func nativeReplay(sel []*Harness, files []string) map[string]string {
	res := map[string]string{}
	for _, f := range files {
		res[f] = "not-run"
	}
	byPkg := map[string][]string{}
	for _, f := range files {
		raw, _ := os.ReadFile(f)
		var rec struct {
			Pkg string `json:"pkg"`
		}
		json.Unmarshal(raw, &rec)
		byPkg[rec.Pkg] = append(byPkg[rec.Pkg], f)
	}
	tmp, err := os.MkdirTemp("", "symgo-replay")
	if err != nil {
		return res
	}
	defer os.RemoveAll(tmp)
	ofm := overlayFileMap(sel, tmp)
	ov, _ := json.Marshal(map[string]interface{}{"Replace": ofm})
	ovPath := filepath.Join(tmp, "overlay.json")
	os.WriteFile(ovPath, ov, 0o644)
	// memory-safety counterexamples are replayed one per process under -d=checkptr (a checkptr failure is fatal)
	type job struct {
		pkg      string
		files    []string
		checkptr bool
	}
	var jobs []job
	for p, fs := range byPkg {
		var normal []string
		for _, f := range fs {
			if strings.Contains(filepath.Base(f), "unsafe_deref_in_bounds") {
				jobs = append(jobs, job{p, []string{f}, true})
			} else {
				normal = append(normal, f)
			}
		}
		if len(normal) > 0 {
			jobs = append(jobs, job{p, normal, false})
		}
	}
	for _, jb := range jobs {
		p, fs := jb.pkg, jb.files
		args := []string{"test", "-vet=off", "-count=1", "-tags", "verif", "-v", "-run", "^TestVerifReplay$", "-overlay", ovPath, "-timeout", "600s"}
		if jb.checkptr {
			args = append(args, "-gcflags=all=-d=checkptr")
		}
		args = append(args, ".")
		cmd := exec.Command("go", args...)
		cmd.Dir = filepath.Join(repoDir, p)
		env := []string{}
		for _, kv := range os.Environ() {
			if strings.HasPrefix(kv, "GOSUMDB=") || strings.HasPrefix(kv, "GOTOOLCHAIN=") || strings.HasPrefix(kv, "PATH=") {
				continue
			}
			env = append(env, kv)
		}
		// the default go (auto-switching to the toolchain go.mod asks for) builds the replay
		path := strings.TrimPrefix(os.Getenv("PATH"), "/opt/veriftools/go1.26.8/bin:")
		env = append(env, "PATH="+path, "GOFLAGS=-mod=mod", "GOPROXY=off", "VERIF_REPLAY="+strings.Join(fs, ","))
		cmd.Env = env
		outb, _ := cmd.CombinedOutput()
		out := string(outb)
		logf, _ := os.OpenFile(filepath.Join(filepath.Dir(fs[0]), "native_replay_"+sanitize(p)+".log"), os.O_APPEND|os.O_CREATE|os.O_WRONLY, 0o644)
		if logf != nil {
			logf.Write(outb)
			logf.Close()
		}
		if jb.checkptr && strings.Contains(out, "fatal error: checkptr") {
			res[fs[0]] = "confirmed"
		}
		for _, line := range strings.Split(out, "\n") {
			line = strings.TrimSpace(line)
			if i := strings.Index(line, "VERIF-REPLAY-RESULT "); i >= 0 {
				parts := strings.SplitN(line[i+len("VERIF-REPLAY-RESULT "):], " ", 2)
				if len(parts) == 2 {
					res[parts[0]] = parts[1]
				}
			}
		}
	}
	return res
}

func writeEvidence(prop, tier string, seed int, sel []*Harness, results map[string]*HResult, out string, wall, load float64,
	violations, knownHits, replays int, sampleCex []interface{}, solverBin string, timeout int, inconclusive bool) {
	if out == "" {
		out = filepath.Join(verifDir, "evidence", prop+".json")
	}
	os.MkdirAll(filepath.Dir(out), 0o755)
	funcs := map[string]bool{}
	notes := map[string]bool{}
	var hres []*HResult
	states, obligations, discharged, queries := 0, 0, 0, 0
	var transitions int64
	solverTime := 0.0
	var samples []interface{}
	var outside, assumptions []string
	sitesTotal, sitesReached := 0, 0
	bounds := map[string]interface{}{}
	stubs := map[string]bool{}
	for _, h := range sel {
		r := results[h.ID]
		hres = append(hres, r)
		states += r.Done + r.Panicked + r.Stopped
		transitions += r.Steps
		queries += r.Queries
		solverTime += r.SolverTime
		for f := range r.funcs {
			if strings.Contains(f, "dop251/goja") && !strings.Contains(f, ".H_") && !strings.Contains(f, ".v") {
				funcs[f] = true
			}
		}
		for n := range r.notes {
			notes[n] = true
		}
		ids := make([]string, 0, len(r.Sites))
		for sid := range r.Sites {
			ids = append(ids, sid)
		}
		sort.Strings(ids)
		for _, sid := range ids {
			s := r.Sites[sid]
			if strings.HasPrefix(sid, "reach:") {
				continue
			}
			obligations += s.Trivial + s.Discharged + s.Failed + s.Unknown
			discharged += s.Trivial + s.Discharged
			if len(samples) < 40 {
				samples = append(samples, map[string]interface{}{"harness": h.ID, "obligation": sid, "checked_on_paths": s.Reached,
					"unsat": s.Discharged, "trivially_true": s.Trivial, "sat": s.Failed, "unknown": s.Unknown, "bounds": h.Bounds})
			}
		}
		for k, c := range r.valSamples {
			if k < 2 && len(samples) < 80 {
				samples = append(samples, map[string]interface{}{"harness": h.ID, "kind": "inputs of a completed path chosen by the solver and replayed natively (translator validation)", "inputs": c.Values})
			}
		}
		sitesTotal += len(r.StaticSites)
		sitesReached += len(r.StaticSites) - len(r.Unreached)
		outside = append(outside, prefixAll(h.ID+": ", h.Outside)...)
		assumptions = append(assumptions, prefixAll(h.ID+": ", h.Assumptions)...)
		bounds[h.ID] = map[string]interface{}{"bounds": h.Bounds, "unwind": h.Unwind}
		for real, target := range h.Stubs {
			stubs[real+" => "+target] = true
		}
	}
	samples = append(samples, sampleCex...)
	if len(samples) == 0 {
		samples = append(samples, "no obligations reached")
	}
	for n := range notes {
		assumptions = append(assumptions, n)
	}
	sort.Strings(assumptions)
	assumptions = append(assumptions,
		"go/ssa lowering of /repo's current source is faithful; SSA->SMT translation of symgo (validated by native replay of every counterexample)",
		"float->int conversions follow the amd64 code the Go compiler emits (out-of-range = 0x80..0), which the Go spec leaves implementation-defined",
		fmt.Sprintf("solver %s, per-query timeout %d ms; unknown/timeouts are reported as inconclusive, never as success", solverBin, timeout))
	ev := map[string]interface{}{
		"property_id": prop, "tier": tier, "seed": seed, "level": "model_checking", "wall_s": wall, "violations": violations,
		"coverage": map[string]interface{}{
			"states": states, "transitions": transitions, "traces_validated_against_impl": replays, "samples": samples,
			"functions_encoded": keys(funcs), "bounds": bounds, "outside_bounds": outside,
			"obligations": obligations, "discharged": discharged, "queries": queries, "solver_time_s": solverTime,
			"solvers": []string{solverBin}, "stubs": keys(stubs), "vacuity": map[string]int{"sites": sitesTotal, "reached": sitesReached},
			"harnesses": hres, "load_and_ssa_build_s": load, "known_finding_hits": knownHits, "inconclusive": inconclusive,
			"explanation": "states = feasible symbolic paths explored to their end; transitions = SSA instructions executed symbolically; every obligation is a solver query path_condition AND NOT(assertion); unsat on all paths = holds for every input within the bounds",
		},
		"assumptions": assumptions,
	}
	raw, _ := json.MarshalIndent(ev, "", " ")
	os.WriteFile(out, raw, 0o644)
}

func prefixAll(p string, l []string) []string {
	var r []string
	for _, x := range l {
		r = append(r, p+x)
	}
	return r
}

func keys(m map[string]bool) []string {
	var r []string
	for k := range m {
		r = append(r, k)
	}
	sort.Strings(r)
	return r
}

type runCtx struct {
	sh        *Shared
	prog      *ssa.Program
	hf        map[string]bool
	workers   int
	solverBin string
	timeout   int
	logSMT    string
	verbose   bool
	prop      string
	known     map[string]*KnownFinding
	validate  int
	seed      int
}

func (rc *runCtx) explore(sel []*Harness) map[string]*HResult {
	sh, prog, harnessFiles := rc.sh, rc.prog, rc.hf
	workers, solverBin, timeout, logSMT, verbose := &rc.workers, &rc.solverBin, &rc.timeout, &rc.logSMT, &rc.verbose
	q := &workQueue{}
	q.cond = sync.NewCond(&q.mu)
	results := map[string]*HResult{}
	for _, h := range sel {
		results[h.ID] = &HResult{ID: h.ID, Func: h.Func, Desc: h.Desc, Sites: map[string]*siteStat{}, Bounds: h.Bounds, Unwind: h.Unwind,
			funcs: map[string]bool{}, notes: map[string]bool{}, StaticSites: staticSites(h.fn, harnessFiles, prog)}
		q.push(task{h: h})
	}
	var wg sync.WaitGroup
	stopProgress := make(chan struct{})
	go func() {
		tick := time.NewTicker(20 * time.Second)
		defer tick.Stop()
		for {
			select {
			case <-stopProgress:
				return
			case <-tick.C:
				q.mu.Lock()
				nq, np := len(q.tasks), q.pending
				cnt := map[string]int{}
				for _, t := range q.tasks {
					cnt[t.h.ID]++
				}
				q.mu.Unlock()
				var sb strings.Builder
				for _, h := range sel {
					r := results[h.ID]
					r.mu.Lock()
					if cnt[h.ID] > 0 || r.Paths == 0 {
						fmt.Fprintf(&sb, " %s:%d/%dq", strings.TrimPrefix(h.ID, "H"), r.Paths, cnt[h.ID])
					}
					r.mu.Unlock()
				}
				fmt.Fprintf(os.Stderr, "[progress] queued=%d pending=%d%s\n", nq, np, sb.String())
			}
		}
	}()
	for w := 0; w < *workers; w++ {
		wg.Add(1)
		go func(w int) {
			defer wg.Done()
			logPath := ""
			if *logSMT != "" {
				os.MkdirAll(*logSMT, 0o755)
				logPath = filepath.Join(*logSMT, fmt.Sprintf("worker%d.smt2", w))
			}
			solver := newSolver(*solverBin, *timeout, logPath)
			defer solver.close()
			execs := map[string]*Exec{}
			for {
				t, ok := q.pop()
				if !ok {
					break
				}
				e := execs[t.h.ID]
				if e == nil {
					e = &Exec{}
					*e = *newExecNoSolver(sh, t.h)
					e.solver = solver
					h := t.h
					e.emit = func(p []uint64) { q.push(task{h: h, prefix: p}) }
					execs[t.h.ID] = e
				}
				q0, st0 := solver.queries, solver.time
				outc := e.runPath(t.prefix, t.h.fn)
				r := results[t.h.ID]
				if outc.kind == "done" && rc.validate > 0 && !t.h.NoReplay && !t.h.NoValidate {
					// reservoir-style sampling of completed paths (deterministic in the seed): ask the solver for
					// concrete inputs of this path; they are replayed natively after the exploration
					r.mu.Lock()
					r.valSeen++
					take := len(r.valSamples) < rc.validate || (r.valSeen*31+rc.seed)%7 == 0
					r.mu.Unlock()
					if take && e.solver.checkPushed(nil) == rSat {
						vals, kinds := e.model()
						c := &Cex{Harness: t.h.ID, ID: "__validate__", Values: vals, Kinds: kinds, Decisions: append([]uint64{}, e.decisions...)}
						r.mu.Lock()
						if len(r.valSamples) < rc.validate {
							r.valSamples = append(r.valSamples, c)
						} else {
							r.valSamples[(r.valSeen+rc.seed)%rc.validate] = c
						}
						r.mu.Unlock()
					}
				}
				r.mu.Lock()
				r.Paths++
				switch outc.kind {
				case "done":
					r.Done++
				case "infeasible":
					r.Infeasible++
				case "panic":
					r.Panicked++
				case "stop":
					r.Stopped++
				case "abort":
					r.Aborted++
					r.Inconcl = appendUniq(r.Inconcl, outc.reason)
				}
				r.Queries += solver.queries - q0
				r.SolverTime += (solver.time - st0).Seconds()
				if *verbose {
					fmt.Fprintf(os.Stderr, "[%s] path %v -> %s %s (steps %d)\n", t.h.ID, t.prefix, outc.kind, outc.reason, e.steps)
				}
				r.mu.Unlock()
				q.done()
			}
			// merge
			for id, e := range execs {
				r := results[id]
				r.mu.Lock()
				r.Steps += e.totalSteps
				for f := range e.funcsSeen {
					r.funcs[f.String()] = true
				}
				for n := range e.notes {
					r.notes[n] = true
				}
				for sid, s := range e.sites {
					d := r.Sites[sid]
					if d == nil {
						d = &siteStat{}
						r.Sites[sid] = d
					}
					d.Reached += s.Reached
					d.Trivial += s.Trivial
					d.Discharged += s.Discharged
					d.Failed += s.Failed
					d.Unknown += s.Unknown
					d.Known += s.Known
				}
				for _, in := range e.incon {
					r.Inconcl = appendUniq(r.Inconcl, in)
				}
				r.cexs = append(r.cexs, e.cexs...)
				if solver.errors > 0 {
					r.Inconcl = appendUniq(r.Inconcl, "solver reported errors: "+solver.lastErr)
				}
				r.mu.Unlock()
			}
		}(w)
	}
	wg.Wait()
	close(stopProgress)

	return results
}

type cexOutcome struct {
	violations, knownHits, replays int
	inconclusive bool
	lines     []string
	samples   []interface{}
	unconfirmed map[string]bool // harness ids with unconfirmed counterexamples
}

func (rc *runCtx) judge(sel []*Harness, results map[string]*HResult, replayDir string) *cexOutcome {
	prop, known := &rc.prop, rc.known
	oc := &cexOutcome{unconfirmed: map[string]bool{}}
	inconclusive := false
	violations, knownHits, replays := 0, 0, 0
	var outLines []string
	var sampleCex []interface{}
	// ---- counterexamples: dedupe per (harness, id, known), replay natively
	type cexKey struct{ h, id, known string }
	picked := map[cexKey]*Cex{}
	var order []cexKey
	for _, h := range sel {
		for _, c := range results[h.ID].cexs {
			k := cexKey{c.Harness, c.ID, c.Known}
			if _, ok := picked[k]; !ok {
				picked[k] = c
				order = append(order, k)
			}
		}
	}
	sort.Slice(order, func(i, j int) bool {
		if order[i].h != order[j].h {
			return order[i].h < order[j].h
		}
		if order[i].id != order[j].id {
			return order[i].id < order[j].id
		}
		return order[i].known < order[j].known
	})
	if len(order) > 0 {
		os.MkdirAll(replayDir, 0o755)
		hmap := map[string]*Harness{}
		for _, h := range sel {
			hmap[h.ID] = h
		}
		var files []string
		for i, k := range order {
			c := picked[k]
			h := hmap[c.Harness]
			p := filepath.Join(replayDir, fmt.Sprintf("%s_%s_%d.json", sanitize(c.Harness), sanitize(c.ID), i))
			rec := map[string]interface{}{"property": *prop, "harness": c.Harness, "func": h.Func, "pkg": h.Pkg, "assert_id": c.ID,
				"what": c.What, "known_finding": c.Known, "values": c.Values, "kinds": c.Kinds, "site": c.Site, "bounds": h.Bounds,
				"replay_cmd": fmt.Sprintf("%s/bin/replay %s", verifDir, p)}
			raw, _ := json.MarshalIndent(rec, "", " ")
			os.WriteFile(p, raw, 0o644)
			files = append(files, p)
		}
		confirmed := nativeReplay(sel, files)
		replays = len(files)
		for i, k := range order {
			c := picked[k]
			p := files[i]
			res := confirmed[p]
			kf := known[c.Known]
			isKnown := c.Known != "" && kf != nil && kf.Status == "open" && kf.Property == *prop
			sampleCex = append(sampleCex, map[string]interface{}{"harness": c.Harness, "assert_id": c.ID, "inputs": c.Values, "native_replay": res, "known_finding": c.Known})
			switch {
			case res != "confirmed" && !hmap[c.Harness].NoReplay:
				inconclusive = true
				oc.unconfirmed[c.Harness] = true
				outLines = append(outLines, fmt.Sprintf("UNCONFIRMED property=%s harness=%s assert=%s native=%s replay=%s", *prop, c.Harness, c.ID, res, p))
			case isKnown:
				knownHits++
				outLines = append(outLines, fmt.Sprintf("KNOWN-FINDING: property=%s %s [%s; harness=%s assert=%s replay=%s]", *prop, kf.Text, kf.ID, c.Harness, c.ID, p))
			default:
				violations++
				outLines = append(outLines, fmt.Sprintf("VIOLATION property=%s replay=%s", *prop, p))
				outLines = append(outLines, fmt.Sprintf("  harness=%s assert=%s %s site=%s inputs=%v", c.Harness, c.ID, c.What, c.Site, c.Values))
			}
		}
	}

	oc.violations, oc.knownHits, oc.replays, oc.inconclusive, oc.lines, oc.samples = violations, knownHits, replays, inconclusive, outLines, sampleCex
	return oc
}
