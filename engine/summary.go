package main

import (
	"go/types"
	"strings"

	"golang.org/x/tools/go/ssa"
)

// Summarisation of pure callees: all paths of the function are executed in "local mode"
// (no solver queries, no path-condition changes) and the results are merged into one
// if-then-else term, so callers do not fork on the callee's internal branches.

type localCtx struct {
	prefix []bool
	taken  []bool
	conds  []*Term
}

type localFail struct{ why string }

const maxLocalPaths = 512

func (e *Exec) shouldSummarise(fn *ssa.Function) bool {
	if e.local != nil || e.h == nil {
		return false
	}
	if v, ok := e.sumCache[fn]; ok {
		return v
	}
	r := false
	name := fn.Name()
	if fn.Pkg != nil && fn.Parent() == nil {
		pos := e.prog.Fset.Position(fn.Pos())
		if e.sh.harnessFiles[pos.Filename] && strings.HasPrefix(name, "ref") {
			r = true
		}
	}
	for _, s := range e.h.Summarise {
		if s == name || s == fn.String() {
			r = true
		}
	}
	if r {
		// only scalar-ish results can be merged
		res := fn.Signature.Results()
		for i := 0; i < res.Len(); i++ {
			if !mergeableType(res.At(i).Type()) {
				r = false
			}
		}
	}
	e.sumCache[fn] = r
	return r
}

func mergeableType(t types.Type) bool {
	switch u := under(t).(type) {
	case *types.Basic:
		_, _, ok := basicInfo(u)
		return ok
	case *types.Struct:
		for i := 0; i < u.NumFields(); i++ {
			if !mergeableType(u.Field(i).Type()) {
				return false
			}
		}
		return true
	}
	return false
}

func (e *Exec) summarise(fn *ssa.Function, args []Value) (res Value, ok bool) {
	type outcome struct {
		cond *Term
		val  Value
	}
	var outs []outcome
	prefix := []bool{}
	saveFrame, saveDepth, saveSteps := e.curFrame, e.depth, e.steps
	for {
		lc := &localCtx{prefix: prefix}
		e.local = lc
		var val Value
		failed := false
		func() {
			defer func() {
				e.local = nil
				if r := recover(); r != nil {
					switch r.(type) {
					case localFail, *goPanic, pathEnd:
						failed = true
					default:
						panic(r)
					}
				}
			}()
			val = e.runFrame(e.newFrame(fn, args, nil, nil))
		}()
		e.curFrame, e.depth = saveFrame, saveDepth
		if failed {
			e.steps = saveSteps
			return nil, false
		}
		cond := tTrue
		for _, c := range lc.conds {
			cond = e.and(cond, c)
		}
		outs = append(outs, outcome{cond, val})
		if len(outs) > maxLocalPaths {
			return nil, false
		}
		// next prefix: flip the last 'true' decision that was beyond exploration
		k := len(lc.taken) - 1
		for k >= 0 && !lc.taken[k] {
			k--
		}
		if k < 0 {
			break
		}
		prefix = append(append([]bool{}, lc.taken[:k]...), false)
	}
	e.stats.summaries++
	acc := outs[len(outs)-1].val
	for k := len(outs) - 2; k >= 0; k-- {
		m, ok := e.mergeIte(outs[k].cond, outs[k].val, acc)
		if !ok {
			return nil, false
		}
		acc = m
	}
	return acc, true
}

func (e *Exec) mergeIte(c *Term, a, b Value) (Value, bool) {
	switch x := a.(type) {
	case *Term:
		y, ok := b.(*Term)
		if !ok || x.sort != y.sort {
			return nil, false
		}
		return e.ite(c, x, y), true
	case StructV:
		y, ok := b.(StructV)
		if !ok || len(x.fields) != len(y.fields) {
			return nil, false
		}
		out := make([]Value, len(x.fields))
		for i := range out {
			m, ok := e.mergeIte(c, x.fields[i], y.fields[i])
			if !ok {
				return nil, false
			}
			out[i] = m
		}
		return StructV{out}, true
	case TupleV:
		y, ok := b.(TupleV)
		if !ok || len(x) != len(y) {
			return nil, false
		}
		out := make(TupleV, len(x))
		for i := range out {
			m, ok := e.mergeIte(c, x[i], y[i])
			if !ok {
				return nil, false
			}
			out[i] = m
		}
		return out, true
	case nil:
		if b == nil {
			return nil, true
		}
	}
	return nil, false
}

// local-mode branch: explore without the solver
func (e *Exec) localBranch(c *Term) bool {
	lc := e.local
	i := len(lc.taken)
	d := true
	if i < len(lc.prefix) {
		d = lc.prefix[i]
	}
	lc.taken = append(lc.taken, d)
	if d {
		lc.conds = append(lc.conds, c)
	} else {
		lc.conds = append(lc.conds, e.not(c))
	}
	if len(lc.taken) > 64 {
		panic(localFail{"too deep"})
	}
	return d
}
