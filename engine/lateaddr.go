package main

import (
	"go/ast"
	"go/token"

	"golang.org/x/tools/go/ssa"
)

// Evaluation order of `lhs = rhs` where the Go specification leaves it open.
//
// For `a.b[i.j] = f()` the spec orders only calls; when the operands of the left-hand side (loads of
// a.b, i.j) are read relative to the call f() is unspecified. The gc compiler - which builds the binary
// the properties are about - evaluates the right-hand side first and loads the left-hand operands
// afterwards (ssagen: r := s.expr(rhs); then s.addr(lhs)); go/ssa's builder computes the operand loads of
// the left-hand side first. goja depends on gc's order: `vm.stack[vm.sp-1] = obj.self.getStr(...)` is
// correct only if vm.stack is re-read after a getter that may have reallocated the stack.
//
// This pass restores gc's order: the pure operand computations (loads, field/index addresses,
// arithmetic, conversions) that feed only the address of a Store, lie in the Store's block, and have a
// call between them and the Store, are skipped where go/ssa put them and executed immediately before the
// Store.

type lateInfo struct {
	deferred map[ssa.Instruction]bool
	chain    map[*ssa.Store][]ssa.Instruction
}

func (e *Exec) lateFor(fn *ssa.Function) *lateInfo {
	if e.late == nil {
		e.late = map[*ssa.Function]*lateInfo{}
	}
	if li, ok := e.late[fn]; ok {
		return li
	}
	li := &lateInfo{deferred: map[ssa.Instruction]bool{}, chain: map[*ssa.Store][]ssa.Instruction{}}
	// left-hand sides of the single assignments `lhs = rhs` in the function's source: only address
	// computations written inside such a left-hand side may move (a pointer taken by an earlier statement,
	// `p := &a[i]; ...; *p = f()`, is evaluated where it stands by both compilers)
	type span struct{ lo, hi token.Pos }
	var lhss []span
	if syn := fn.Syntax(); syn != nil {
		ast.Inspect(syn, func(n ast.Node) bool {
			if lit, isLit := n.(*ast.FuncLit); isLit && n != syn {
				_ = lit
				return false // nested function literals are separate ssa functions
			}
			if as, ok := n.(*ast.AssignStmt); ok && len(as.Lhs) == 1 && len(as.Rhs) == 1 && as.Tok == token.ASSIGN {
				lhss = append(lhss, span{as.Lhs[0].Pos(), as.Lhs[0].End()})
			}
			return true
		})
	}
	lhsOf := func(p token.Pos) (span, bool) {
		if !p.IsValid() {
			return span{}, false
		}
		best, found := span{}, false
		for _, sp := range lhss {
			if sp.lo <= p && p < sp.hi && (!found || sp.hi-sp.lo < best.hi-best.lo) {
				best, found = sp, true
			}
		}
		return best, found
	}
	for _, b := range fn.Blocks {
		pos := map[ssa.Instruction]int{}
		lastCallBefore := make([]int, len(b.Instrs)) // index of the last call strictly before position k, or -1
		last := -1
		for k, ins := range b.Instrs {
			pos[ins] = k
			lastCallBefore[k] = last
			switch c := ins.(type) {
			case *ssa.Call:
				if _, isBuiltin := c.Call.Value.(*ssa.Builtin); !isBuiltin {
					last = k
				}
			}
		}
		for k, ins := range b.Instrs {
			st, ok := ins.(*ssa.Store)
			if !ok || lastCallBefore[k] < 0 {
				continue
			}
			callPos := lastCallBefore[k]
			inChain := map[ssa.Instruction]bool{}
			var order []ssa.Instruction
			var visit func(v ssa.Value) bool
			visit = func(v ssa.Value) bool {
				ins, isIns := v.(ssa.Instruction)
				if !isIns || ins.Block() != b {
					return true // parameter, constant, global, value from another block: nothing to move
				}
				if inChain[ins] {
					return true
				}
				switch x := ins.(type) {
				case *ssa.IndexAddr, *ssa.FieldAddr, *ssa.Convert, *ssa.ChangeType, *ssa.BinOp:
				case *ssa.UnOp:
					if x.Op != token.MUL && x.Op != token.SUB && x.Op != token.XOR {
						return false
					}
				default:
					return true // a call result, phi, alloc ...: stays where it is, usable as is
				}
				// single use inside the chain
				if refs := v.Referrers(); refs != nil {
					for _, r := range *refs {
						if _, dbg := r.(*ssa.DebugRef); dbg {
							continue
						}
						if r != ssa.Instruction(st) && !inChainCandidate(r, b) {
							return false
						}
					}
				}
				inChain[ins] = true
				for _, op := range ins.Operands(nil) {
					if op != nil && *op != nil {
						if !visit(*op) {
							return false
						}
					}
				}
				order = append(order, ins)
				return true
			}
			if !visit(st.Addr) || len(order) == 0 {
				continue
			}
			// the address expression must be written inside the left-hand side of this assignment
			sp, inLhs := lhsOf(st.Pos())
			if !inLhs {
				continue
			}
			okPos := true
			for _, m := range order {
				switch m.(type) {
				case *ssa.IndexAddr, *ssa.FieldAddr:
					if mp := m.Pos(); mp.IsValid() && (mp < sp.lo || mp >= sp.hi) {
						okPos = false
					}
				}
			}
			if root, isIns := st.Addr.(ssa.Instruction); !isIns || !root.Pos().IsValid() || root.Pos() < sp.lo || root.Pos() >= sp.hi {
				okPos = false
			}
			if !okPos {
				continue
			}
			// every referrer of a chain member must itself be in the chain (or be the store's address use)
			okChain := true
			for _, m := range order {
				if refs := m.(ssa.Value).Referrers(); refs != nil {
					for _, r := range *refs {
						if _, dbg := r.(*ssa.DebugRef); dbg {
							continue
						}
						if r == ssa.Instruction(st) {
							if st.Val == m.(ssa.Value) {
								okChain = false
							}
							continue
						}
						if !inChain[r] {
							okChain = false
						}
					}
				}
			}
			if !okChain {
				continue
			}
			// only the members that go/ssa placed before the last call need moving; keep relative order
			var moved []ssa.Instruction
			for _, m := range order {
				if pos[m] < callPos {
					moved = append(moved, m)
				}
			}
			if len(moved) == 0 {
				continue
			}
			// members after the call depend on moved ones: execute the whole chain late, in block order
			var all []ssa.Instruction
			for _, cand := range b.Instrs[:k] {
				if inChain[cand] {
					all = append(all, cand)
				}
			}
			for _, m := range all {
				li.deferred[m] = true
			}
			li.chain[st] = all
		}
	}
	e.late[fn] = li
	return li
}

func inChainCandidate(r ssa.Instruction, b *ssa.BasicBlock) bool {
	if r.Block() != b {
		return false
	}
	switch x := r.(type) {
	case *ssa.IndexAddr, *ssa.FieldAddr, *ssa.Convert, *ssa.ChangeType, *ssa.BinOp:
		return true
	case *ssa.UnOp:
		return x.Op == token.MUL || x.Op == token.SUB || x.Op == token.XOR
	}
	return false
}
