package main

import (
	"fmt"
	"os"
	"go/constant"
	"go/token"
	"go/types"
	"math"
	"strings"

	"golang.org/x/tools/go/ssa"
)

// ---------------------------------------------------------------------
// control-flow signals (Go panics inside the engine)

type goPanic struct {
	v       Value  // the panic value (IfaceV)
	runtime string // non-empty for Go runtime errors (index out of range, nil deref, ...)
	site    string
}

type pathEnd struct {
	kind   string // "infeasible", "abort", "stop"
	reason string
}

type frame struct {
	fn         *ssa.Function
	regs       map[ssa.Value]Value
	defers     []*deferred
	panicking  *goPanic
	deferredBy *frame
	caller     *frame
	symBranch  map[ssa.Instruction]int
	recovered  bool
	cur        ssa.Instruction
}

type deferred struct {
	fv     *FuncV
	args   []Value
	invoke *types.Func
	recv   Value
}

func (e *Exec) abort(reason string) {
	panic(pathEnd{kind: "abort", reason: reason})
}

func (e *Exec) runtimePanic(kind string) {
	e.stats.runtimePanics++
	site := ""
	if e.curFrame != nil && e.curFrame.cur != nil {
		site = e.prog.Fset.Position(e.curFrame.cur.Pos()).String()
		if !e.curFrame.cur.Pos().IsValid() {
			site = e.curFrame.fn.String()
		}
	}
	panic(&goPanic{v: e.runtimeErrorValue(kind), runtime: kind, site: site})
}

func (e *Exec) runtimeErrorValue(kind string) Value {
	if t := e.lookupType("runtime", "errorString"); t != nil {
		return IfaceV{t: t, v: StrV{s: kind}}
	}
	return IfaceV{t: types.Typ[types.String], v: StrV{s: "runtime error: " + kind}}
}

func (e *Exec) lookupType(pkg, name string) types.Type {
	p := e.prog.ImportedPackage(pkg)
	if p == nil {
		for _, q := range e.prog.AllPackages() {
			if q.Pkg.Path() == pkg {
				p = q
				break
			}
		}
	}
	if p == nil {
		return nil
	}
	if t := p.Type(name); t != nil {
		return t.Type()
	}
	return nil
}

// ---------------------------------------------------------------------
// calling

const maxDepth = 400

// debugging aid: SYMGO_TRACE_CALL=<substring> prints every interpreted call whose name contains it
var traceCall = os.Getenv("SYMGO_TRACE_CALL")

func (e *Exec) callFunc(fn *ssa.Function, args []Value, bindings []Value, deferredBy *frame) (result Value) {
	name := fn.String()
	if traceCall != "" && strings.Contains(name, traceCall) {
		fmt.Fprintf(os.Stderr, "[trace-call] %s\n", name)
	}
	if h, ok := e.stubFor(fn, name); ok {
		return h(e, fn, args)
	}
	if fn.Blocks == nil {
		if h, ok := intrinsics[name]; ok {
			return h(e, fn, args)
		}
		e.abort("call to function without body: " + name)
	}
	if h, ok := intrinsics[name]; ok {
		return h(e, fn, args)
	}
	if e.shouldSummarise(fn) {
		if v, ok := e.summarise(fn, args); ok {
			e.funcsSeen[fn] = true
			return v
		}
	}
	e.depth++
	if e.depth > maxDepth {
		e.abort("call depth exceeded at " + name)
	}
	caller := e.curFrame
	fr := e.newFrame(fn, args, bindings, deferredBy)
	defer func() {
		e.curFrame = caller
		e.depth--
	}()
	return e.runFrame(fr)
}

func (e *Exec) newFrame(fn *ssa.Function, args []Value, bindings []Value, deferredBy *frame) *frame {
	fr := &frame{fn: fn, regs: make(map[ssa.Value]Value, 16), deferredBy: deferredBy, caller: e.curFrame}
	if len(args) != len(fn.Params) {
		e.abort(fmt.Sprintf("arity mismatch calling %s: %d vs %d", fn.String(), len(args), len(fn.Params)))
	}
	for i, p := range fn.Params {
		fr.regs[p] = args[i]
	}
	for i, fv := range fn.FreeVars {
		fr.regs[fv] = bindings[i]
	}
	e.curFrame = fr
	e.funcsSeen[fn] = true
	return fr
}

func (e *Exec) runFrame(fr *frame) (result Value) {
	defer func() {
		r := recover()
		if r == nil {
			return
		}
		gp, ok := r.(*goPanic)
		if !ok {
			panic(r)
		}
		// Go panic: run deferred calls
		e.curFrame = fr
		fr.panicking = gp
		e.runDefers(fr)
		if fr.panicking != nil {
			panic(fr.panicking)
		}
		// recovered
		if fr.fn.Recover != nil {
			result = e.execFrom(fr, fr.fn.Recover, nil)
		} else {
			result = e.zeroResults(fr.fn)
		}
	}()
	return e.execFrom(fr, fr.fn.Blocks[0], nil)
}

func (e *Exec) zeroResults(fn *ssa.Function) Value {
	res := fn.Signature.Results()
	switch res.Len() {
	case 0:
		return nil
	case 1:
		return e.zero(res.At(0).Type())
	}
	return e.zero(res)
}

func (e *Exec) runDefers(fr *frame) {
	for len(fr.defers) > 0 {
		d := fr.defers[len(fr.defers)-1]
		fr.defers = fr.defers[:len(fr.defers)-1]
		func() {
			defer func() {
				if r := recover(); r != nil {
					gp, ok := r.(*goPanic)
					if !ok {
						panic(r)
					}
					// a panic inside a deferred call replaces the current one
					e.curFrame = fr
					fr.panicking = gp
				}
			}()
			e.callDeferred(fr, d)
		}()
	}
}

func (e *Exec) callDeferred(fr *frame, d *deferred) {
	if d.invoke != nil {
		e.invokeMethod(d.recv, d.invoke, d.args, fr)
		return
	}
	e.callValue(d.fv, d.args, fr)
}

func (e *Exec) callValue(fv *FuncV, args []Value, deferredBy *frame) Value {
	if fv == nil {
		e.runtimePanic("nil func call")
	}
	if fv.builtin != nil {
		return e.callBuiltin(fv.builtin, args, nil, deferredBy)
	}
	return e.callFunc(fv.fn, args, fv.bindings, deferredBy)
}

func (e *Exec) invokeMethod(recv Value, m *types.Func, args []Value, deferredBy *frame) Value {
	iv, ok := recv.(IfaceV)
	if !ok {
		e.abort(fmt.Sprintf("invoke on non-interface %T", recv))
	}
	if iv.t == nil {
		e.runtimePanic("nil interface method call " + m.Name())
	}
	fn := e.prog.LookupMethod(iv.t, m.Pkg(), m.Name())
	if fn == nil {
		e.abort(fmt.Sprintf("method %s not found on %v", m.Name(), iv.t))
	}
	all := make([]Value, 0, len(args)+1)
	all = append(all, iv.v)
	all = append(all, args...)
	return e.callFunc(fn, all, nil, deferredBy)
}

// ---------------------------------------------------------------------
// main loop

func (e *Exec) get(fr *frame, v ssa.Value) Value {
	switch x := v.(type) {
	case *ssa.Const:
		return e.constValue(x)
	case *ssa.Global:
		return e.globalCell(x)
	case *ssa.Function:
		return &FuncV{fn: x}
	case *ssa.Builtin:
		return &FuncV{builtin: x}
	}
	r, ok := fr.regs[v]
	if !ok {
		e.abort(fmt.Sprintf("undefined register %s in %s", v.Name(), fr.fn))
	}
	return r
}

func (e *Exec) constValue(c *ssa.Const) Value {
	t := c.Type()
	if c.Value == nil {
		return e.zero(t)
	}
	if tp, ok := t.(*types.TypeParam); ok {
		_ = tp
		e.abort("const of type parameter")
	}
	b, ok := under(t).(*types.Basic)
	if !ok {
		e.abort(fmt.Sprintf("const of type %v", t))
	}
	switch {
	case b.Info()&types.IsBoolean != 0:
		return mkBool(constant.BoolVal(c.Value))
	case b.Info()&types.IsString != 0:
		return StrV{s: constant.StringVal(c.Value)}
	case b.Info()&types.IsInteger != 0:
		s, signed, _ := basicInfo(b)
		if signed {
			return mkBV(s.w, uint64(c.Int64()))
		}
		return mkBV(s.w, c.Uint64())
	case b.Info()&types.IsFloat != 0:
		f := c.Float64()
		if b.Kind() == types.Float32 {
			return mkF32(float32(f))
		}
		return mkF64(f)
	}
	e.abort(fmt.Sprintf("const of basic type %v", t))
	return nil
}

func (e *Exec) execFrom(fr *frame, b *ssa.BasicBlock, prev *ssa.BasicBlock) Value {
	skipPhis := false
	for {
		var next *ssa.BasicBlock
		// phis first (simultaneous)
		nphi := 0
		var phivals []Value
		for _, ins := range b.Instrs {
			phi, ok := ins.(*ssa.Phi)
			if !ok {
				break
			}
			if skipPhis {
				nphi++
				continue
			}
			k := -1
			for i, p := range b.Preds {
				if p == prev {
					k = i
					break
				}
			}
			if k < 0 {
				e.abort("phi: predecessor not found")
			}
			phivals = append(phivals, e.get(fr, phi.Edges[k]))
			nphi++
		}
		if !skipPhis {
			for i := 0; i < nphi; i++ {
				fr.regs[b.Instrs[i].(*ssa.Phi)] = phivals[i]
			}
		}
		skipPhis = false
		for _, ins := range b.Instrs[nphi:] {
			e.steps++
			if e.steps > e.maxSteps {
				e.abort("step budget exceeded")
			}
			fr.cur = ins
			switch i := ins.(type) {
			case *ssa.If:
				c := e.get(fr, i.Cond).(*Term)
				if !c.konst {
					if j, ok := e.tryIfConvert(fr, b, c); ok {
						next = j
						skipPhis = true
						break
					}
				}
				taken := e.branchAt(fr, i, c)
				if taken {
					next = b.Succs[0]
				} else {
					next = b.Succs[1]
				}
			case *ssa.Jump:
				next = b.Succs[0]
			case *ssa.Return:
				switch len(i.Results) {
				case 0:
					return nil
				case 1:
					return e.get(fr, i.Results[0])
				}
				r := make(TupleV, len(i.Results))
				for k, x := range i.Results {
					r[k] = e.get(fr, x)
				}
				return r
			case *ssa.Panic:
				v := e.get(fr, i.X)
				panic(&goPanic{v: v, site: e.prog.Fset.Position(i.Pos()).String()})
			case *ssa.RunDefers:
				e.runDefersNormal(fr)
			default:
				e.execInstr(fr, ins)
			}
		}
		if next == nil {
			e.abort("block without terminator in " + fr.fn.String())
		}
		prev, b = b, next
	}
}

// RunDefers on normal return path: panics inside propagate with remaining defers handled by runFrame's recover
func (e *Exec) runDefersNormal(fr *frame) {
	for len(fr.defers) > 0 {
		d := fr.defers[len(fr.defers)-1]
		fr.defers = fr.defers[:len(fr.defers)-1]
		e.callDeferred(fr, d)
		e.curFrame = fr
	}
}

func (e *Exec) branchAt(fr *frame, ins ssa.Instruction, c *Term) bool {
	if c.konst {
		return c.c == 1
	}
	if fr.symBranch == nil {
		fr.symBranch = map[ssa.Instruction]int{}
	}
	fr.symBranch[ins]++
	if fr.symBranch[ins] > e.unwind {
		panic(pathEnd{kind: "abort", reason: fmt.Sprintf("unwinding assertion: symbolic branch at %s taken more than %d times", e.prog.Fset.Position(ins.Pos()), e.unwind)})
	}
	return e.branch(c)
}

func (e *Exec) execInstr(fr *frame, ins ssa.Instruction) {
	li := e.lateFor(fr.fn)
	if li.deferred[ins] {
		return
	}
	if st, isStore := ins.(*ssa.Store); isStore {
		for _, d := range li.chain[st] {
			fr.cur = d
			e.execInstr1(fr, d)
		}
		fr.cur = ins
	}
	e.execInstr1(fr, ins)
}

func (e *Exec) execInstr1(fr *frame, ins ssa.Instruction) {
	switch i := ins.(type) {
	case *ssa.DebugRef:
	case *ssa.Alloc:
		fr.regs[i] = e.newCell(i.Type().(*types.Pointer).Elem())
	case *ssa.BinOp:
		fr.regs[i] = e.binop(i.Op, e.get(fr, i.X), e.get(fr, i.Y), i.X.Type(), i.Y.Type())
	case *ssa.UnOp:
		fr.regs[i] = e.unop(i, e.get(fr, i.X))
	case *ssa.Call:
		fr.regs[i] = e.doCall(fr, &i.Call, nil)
		e.curFrame = fr
	case *ssa.ChangeInterface:
		fr.regs[i] = e.get(fr, i.X)
	case *ssa.ChangeType:
		fr.regs[i] = e.get(fr, i.X)
	case *ssa.Convert:
		fr.regs[i] = e.convert(e.get(fr, i.X), i.X.Type(), i.Type())
	case *ssa.Defer:
		d := &deferred{}
		args := make([]Value, len(i.Call.Args))
		for k, a := range i.Call.Args {
			args[k] = e.get(fr, a)
		}
		d.args = args
		if i.Call.IsInvoke() {
			d.invoke = i.Call.Method
			d.recv = e.get(fr, i.Call.Value)
		} else {
			fv, ok := e.get(fr, i.Call.Value).(*FuncV)
			if !ok {
				e.abort("defer of non-func value")
			}
			d.fv = fv
		}
		fr.defers = append(fr.defers, d)
	case *ssa.Extract:
		fr.regs[i] = e.get(fr, i.Tuple).(TupleV)[i.Index]
	case *ssa.Field:
		fr.regs[i] = e.get(fr, i.X).(StructV).fields[i.Field]
	case *ssa.FieldAddr:
		p := e.get(fr, i.X)
		c := e.derefCell(p)
		sm, ok := c.v.(*StructM)
		if !ok {
			e.abort(fmt.Sprintf("FieldAddr on non-struct cell %T in %s", c.v, fr.fn))
		}
		fr.regs[i] = sm.fields[i.Field]
	case *ssa.Index:
		fr.regs[i] = e.indexValue(e.get(fr, i.X), e.get(fr, i.Index).(*Term), i.X.Type())
	case *ssa.IndexAddr:
		fr.regs[i] = e.indexAddr(e.get(fr, i.X), e.get(fr, i.Index).(*Term), i.X.Type(), i.Index.Type())
	case *ssa.Lookup:
		fr.regs[i] = e.lookup(i, e.get(fr, i.X), e.get(fr, i.Index))
	case *ssa.MakeClosure:
		b := make([]Value, len(i.Bindings))
		for k, x := range i.Bindings {
			b[k] = e.get(fr, x)
		}
		fr.regs[i] = &FuncV{fn: i.Fn.(*ssa.Function), bindings: b}
	case *ssa.MakeInterface:
		fr.regs[i] = IfaceV{t: i.X.Type(), v: e.get(fr, i.X)}
	case *ssa.MakeMap:
		mt := under(i.Type()).(*types.Map)
		fr.regs[i] = &MapV{kt: mt.Key(), vt: mt.Elem()}
	case *ssa.MakeSlice:
		n := e.concreteInt(e.get(fr, i.Len).(*Term), i.Len.Type(), "makeslice len")
		c := e.concreteInt(e.get(fr, i.Cap).(*Term), i.Cap.Type(), "makeslice cap")
		if n < 0 || c < n || c > 1<<40 {
			e.runtimePanic("makeslice: len out of range")
		}
		et := under(i.Type()).(*types.Slice).Elem()
		fr.regs[i] = SliceV{arr: e.newArr(et, int(c)), off: 0, len: int(n), cap: int(c)}
	case *ssa.MapUpdate:
		m := e.get(fr, i.Map).(*MapV)
		if m == nil {
			e.runtimePanic("assignment to entry in nil map")
		}
		e.raceOnMap(m, true)
		e.mapStore(m, e.get(fr, i.Key), e.get(fr, i.Value))
	case *ssa.Next:
		fr.regs[i] = e.next(i, e.get(fr, i.Iter).(*RangeIter))
	case *ssa.Range:
		fr.regs[i] = e.rangeIter(e.get(fr, i.X))
	case *ssa.Slice:
		fr.regs[i] = e.sliceOp(fr, i)
	case *ssa.Store:
		e.storeTo(e.get(fr, i.Addr), e.get(fr, i.Val))
	case *ssa.TypeAssert:
		fr.regs[i] = e.typeAssert(i, e.get(fr, i.X))
	case *ssa.SliceToArrayPointer:
		sv := e.get(fr, i.X).(SliceV)
		at := under(i.Type().(*types.Pointer).Elem()).(*types.Array)
		n := int(at.Len())
		if sv.len < n {
			e.runtimePanic("slice to array pointer: length")
		}
		if sv.arr == nil {
			fr.regs[i] = (*Cell)(nil)
		} else {
			fr.regs[i] = &Cell{v: &ArrM{elems: sv.arr.elems[sv.off : sv.off+n], et: sv.arr.et}}
		}
	case *ssa.Go, *ssa.Send, *ssa.Select, *ssa.MakeChan:
		e.abort(fmt.Sprintf("unsupported instruction %T in %s", ins, fr.fn))
	default:
		e.abort(fmt.Sprintf("unsupported instruction %T in %s", ins, fr.fn))
	}
}

// ---------------------------------------------------------------------
// memory access

func (e *Exec) derefCell(p Value) *Cell {
	switch c := p.(type) {
	case *Cell:
		if c == nil {
			e.runtimePanic("nil pointer dereference")
		}
		return c
	case *SymPtr:
		k := e.concretize(c.idx, "symbolic element pointer")
		return c.cells[k]
	case *UPtr:
		if c == nil {
			e.runtimePanic("nil pointer dereference")
		}
		e.abort("derefCell on unsafe pointer")
	}
	e.abort(fmt.Sprintf("deref of %T", p))
	return nil
}

func (e *Exec) loadFrom(p Value, t types.Type) Value {
	switch c := p.(type) {
	case *SymPtr:
		vals := make([]Value, len(c.cells))
		for k, cell := range c.cells {
			vals[k] = e.load(cell)
		}
		if v, ok := e.mergeSelect(vals, c.idx); ok {
			return v
		}
		return e.load(e.derefCell(p))
	case *UPtr:
		return e.unsafeLoad(c, t)
	}
	return e.load(e.derefCell(p))
}

func (e *Exec) storeTo(p Value, v Value) {
	switch c := p.(type) {
	case *SymPtr:
		if e.ifc != nil {
			panic(localFail{"store through symbolic pointer in if-converted side"})
		}
		if nv, isT := v.(*Term); isT {
			ok := true
			for _, cell := range c.cells {
				if _, isT := cell.v.(*Term); !isT {
					ok = false
					break
				}
			}
			if ok {
				for k, cell := range c.cells {
					cell.v = e.ite(e.eq(c.idx, mkBV(64, uint64(k))), nv, cell.v.(*Term))
				}
				return
			}
		}
		e.store(e.derefCell(p), v)
		return
	case *UPtr:
		if e.ifc != nil {
			panic(localFail{"unsafe store in if-converted side"})
		}
		e.unsafeStore(c, v)
		return
	}
	e.store(e.derefCell(p), v)
}

func (e *Exec) unop(i *ssa.UnOp, x Value) Value {
	switch i.Op {
	case token.MUL:
		return e.loadFrom(x, i.Type())
	case token.NOT:
		return e.not(x.(*Term))
	case token.SUB:
		t := x.(*Term)
		if t.sort.k == kBV {
			return e.bvneg(t)
		}
		return e.fneg(t)
	case token.XOR:
		return e.bvnot(x.(*Term))
	}
	e.abort("unsupported unop " + i.Op.String())
	return nil
}

// concreteInt forks over the feasible values of t (as signed or unsigned per type) and returns it
func (e *Exec) concreteInt(t *Term, typ types.Type, what string) int64 {
	_, signed, _ := basicInfo(typ)
	if t.konst {
		if signed {
			return t.sval()
		}
		return int64(t.c)
	}
	v := e.concretize(t, what)
	tt := mkBV(t.sort.w, v)
	if signed {
		return tt.sval()
	}
	return int64(v)
}

func (e *Exec) indexAddr(x Value, idx *Term, xt types.Type, it types.Type) Value {
	var cells []*Cell
	switch u := under(xt).(type) {
	case *types.Pointer: // *array
		c := e.derefCell(x)
		cells = c.v.(*ArrM).elems
		_ = u
	case *types.Slice:
		sv := x.(SliceV)
		if sv.arr != nil {
			cells = sv.arr.elems[sv.off : sv.off+sv.len]
		}
	default:
		e.abort(fmt.Sprintf("IndexAddr on %v", xt))
	}
	k, sym := e.boundsCheck(idx, it, len(cells))
	if sym == nil {
		return cells[k]
	}
	return &SymPtr{cells: cells, idx: sym}
}

// boundsCheck: forks on out-of-range (runtime panic); returns a concrete index or a symbolic 64-bit index
func (e *Exec) boundsCheck(idx *Term, it types.Type, n int) (int, *Term) {
	_, signed, _ := basicInfo(it)
	var i64 *Term
	if signed {
		i64 = e.sext(idx, 64)
	} else {
		i64 = e.zext(idx, 64)
	}
	inr := e.bvcmp("bvult", i64, mkBV(64, uint64(n)))
	if !e.branch(inr) {
		e.runtimePanic("index out of range")
	}
	if i64.konst {
		return int(i64.c), nil
	}
	if n == 1 {
		return 0, nil
	}
	if v, ok := e.known[i64.s]; ok {
		return int(v), nil
	}
	if n > e.maxIte {
		return int(e.concretize(i64, "index into large aggregate")), nil
	}
	return 0, i64
}

func (e *Exec) indexValue(x Value, idx *Term, xt types.Type) Value {
	switch v := x.(type) {
	case ArrayV:
		k, sym := e.boundsCheck(idx, types.Typ[types.Int], len(v.elems))
		if sym == nil {
			return v.elems[k]
		}
		return e.selectValue(v.elems, sym)
	case StrV:
		n := v.length()
		k, sym := e.boundsCheck(idx, types.Typ[types.Int], n)
		if sym == nil {
			return v.at(k)
		}
		return e.selectValue(termsToValues(v.terms()), sym)
	}
	e.abort(fmt.Sprintf("Index on %T", x))
	return nil
}

func termsToValues(ts []*Term) []Value {
	r := make([]Value, len(ts))
	for i, t := range ts {
		r[i] = t
	}
	return r
}

func (e *Exec) selectValue(elems []Value, idx *Term) Value {
	if v, ok := e.mergeSelect(elems, idx); ok {
		return v
	}
	return elems[e.concretize(idx, "index into non-scalar array value")]
}

// mergeSelect builds elems[idx] as an ite-chain when all elements have the same shape
// (scalars, interfaces of one dynamic type with mergeable payload, structs field-wise)
func (e *Exec) mergeSelect(elems []Value, idx *Term) (Value, bool) {
	if len(elems) == 0 {
		return nil, false
	}
	switch first := elems[0].(type) {
	case *Term:
		// a table of constants affine in the index (e.g. goja's intCache[k] = k-256) is idx+c: no ite chain
		if first.sort.k == kBV && first.konst && len(elems) >= 4 {
			w := first.sort.w
			affine := true
			for k, x := range elems {
				tv, isT := x.(*Term)
				if !isT || tv.sort != first.sort || !tv.konst || tv.c != (first.c+uint64(k))&mask(w) {
					affine = false
					break
				}
			}
			if affine {
				ix := idx
				if w < 64 {
					ix = e.extract(w-1, 0, idx)
				}
				return e.bvbin("bvadd", ix, mkBV(w, first.c)), true
			}
		}
		var acc *Term
		for k := len(elems) - 1; k >= 0; k-- {
			tv, isT := elems[k].(*Term)
			if !isT || tv.sort != first.sort {
				return nil, false
			}
			if acc == nil {
				acc = tv
			} else {
				acc = e.ite(e.eq(idx, mkBV(64, uint64(k))), tv, acc)
			}
		}
		return acc, true
	case IfaceV:
		if first.t == nil {
			return nil, false
		}
		inner := make([]Value, len(elems))
		for k, x := range elems {
			iv, ok := x.(IfaceV)
			if !ok || iv.t == nil || !types.Identical(iv.t, first.t) {
				return nil, false
			}
			inner[k] = iv.v
		}
		v, ok := e.mergeSelect(inner, idx)
		if !ok {
			return nil, false
		}
		return IfaceV{t: first.t, v: v}, true
	case StructV:
		out := make([]Value, len(first.fields))
		for f := range first.fields {
			col := make([]Value, len(elems))
			for k, x := range elems {
				sv, ok := x.(StructV)
				if !ok || len(sv.fields) != len(first.fields) {
					return nil, false
				}
				col[k] = sv.fields[f]
			}
			v, ok := e.mergeSelect(col, idx)
			if !ok {
				return nil, false
			}
			out[f] = v
		}
		return StructV{out}, true
	}
	return nil, false
}

func (e *Exec) sliceOp(fr *frame, i *ssa.Slice) Value {
	x := e.get(fr, i.X)
	getIdx := func(v ssa.Value, def int) (*Term, bool) {
		if v == nil {
			return mkBV(64, uint64(def)), true
		}
		t := e.get(fr, v).(*Term)
		_, signed, _ := basicInfo(v.Type())
		if signed {
			return e.sext(t, 64), false
		}
		return e.zext(t, 64), false
	}
	var length, capacity int
	var arr *ArrM
	var off int
	var str StrV
	isStr := false
	switch xv := x.(type) {
	case SliceV:
		arr, off, length, capacity = xv.arr, xv.off, xv.len, xv.cap
	case StrV:
		isStr = true
		str = xv
		length = xv.length()
		capacity = length
	case *Cell, *SymPtr:
		c := e.derefCell(x)
		arr = c.v.(*ArrM)
		length = len(arr.elems)
		capacity = length
	default:
		e.abort(fmt.Sprintf("Slice on %T", x))
	}
	lo, _ := getIdx(i.Low, 0)
	hi, _ := getIdx(i.High, length)
	mx, mxDef := getIdx(i.Max, capacity)
	// bounds: 0 <= lo <= hi <= max <= cap  (for strings hi <= len)
	limit := capacity
	if isStr {
		limit = length
	}
	ok := e.and(e.bvcmp("bvule", lo, hi), e.and(e.bvcmp("bvule", hi, mx), e.bvcmp("bvule", mx, mkBV(64, uint64(limit)))))
	if !e.branch(ok) {
		e.runtimePanic("slice bounds out of range")
	}
	l := int(e.concretize(lo, "slice low"))
	h := int(e.concretize(hi, "slice high"))
	m := capacity
	if !mxDef {
		m = int(e.concretize(mx, "slice max"))
	}
	if isStr {
		return str.slice(l, h)
	}
	if arr == nil {
		return SliceV{}
	}
	return SliceV{arr: arr, off: off + l, len: h - l, cap: m - l}
}

// ---------------------------------------------------------------------
// calls

func (e *Exec) doCall(fr *frame, c *ssa.CallCommon, _ interface{}) Value {
	args := make([]Value, len(c.Args))
	for k, a := range c.Args {
		args[k] = e.get(fr, a)
	}
	if c.IsInvoke() {
		return e.invokeMethod(e.get(fr, c.Value), c.Method, args, nil)
	}
	switch f := c.Value.(type) {
	case *ssa.Builtin:
		return e.callBuiltin(f, args, c, nil)
	case *ssa.Function:
		return e.callFunc(f, args, nil, nil)
	}
	fv, ok := e.get(fr, c.Value).(*FuncV)
	if !ok {
		e.abort(fmt.Sprintf("call of %T", e.get(fr, c.Value)))
	}
	return e.callValue(fv, args, nil)
}

func (e *Exec) callBuiltin(b *ssa.Builtin, args []Value, c *ssa.CallCommon, deferredBy *frame) Value {
	switch b.Name() {
	case "len":
		switch x := args[0].(type) {
		case StrV:
			return mkBV(64, uint64(x.length()))
		case SliceV:
			return mkBV(64, uint64(x.len))
		case *MapV:
			if x == nil {
				return mkBV(64, 0)
			}
			e.raceOnMap(x, false)
			return mkBV(64, uint64(len(x.keys)))
		case *Cell:
			return mkBV(64, uint64(len(x.v.(*ArrM).elems)))
		case ArrayV:
			return mkBV(64, uint64(len(x.elems)))
		case nil:
			return mkBV(64, 0)
		}
	case "cap":
		switch x := args[0].(type) {
		case SliceV:
			return mkBV(64, uint64(x.cap))
		case *Cell:
			return mkBV(64, uint64(len(x.v.(*ArrM).elems)))
		case ArrayV:
			return mkBV(64, uint64(len(x.elems)))
		}
	case "append":
		return e.appendOp(args[0].(SliceV), args[1], b.Type().(*types.Signature).Results().At(0).Type())
	case "copy":
		return e.copyOp(args[0].(SliceV), args[1])
	case "delete":
		m := args[0].(*MapV)
		if m != nil {
			e.raceOnMap(m, true)
			e.mapDelete(m, args[1])
		}
		return nil
	case "print", "println":
		return nil
	case "recover":
		// valid only when called directly by a deferred function of a panicking frame
		fr := e.curFrame
		if deferredBy != nil {
			// `defer recover()` directly: does not recover (Go spec) – ignore
			return IfaceV{}
		}
		if fr != nil && fr.deferredBy != nil && fr.deferredBy.panicking != nil {
			gp := fr.deferredBy.panicking
			fr.deferredBy.panicking = nil
			e.lastRecovered = gp
			return gp.v
		}
		return IfaceV{}
	case "min", "max":
		acc := args[0].(*Term)
		for _, a := range args[1:] {
			t := a.(*Term)
			var lt *Term
			if acc.sort.k == kBV {
				_, signed, _ := basicInfo(b.Type().(*types.Signature).Params().At(0).Type())
				if signed {
					lt = e.bvcmp("bvslt", t, acc)
				} else {
					lt = e.bvcmp("bvult", t, acc)
				}
			} else {
				e.abort("float min/max builtin")
			}
			if b.Name() == "min" {
				acc = e.ite(lt, t, acc)
			} else {
				acc = e.ite(lt, acc, t)
			}
		}
		return acc
	case "clear":
		switch x := args[0].(type) {
		case *MapV:
			if x != nil {
				e.raceOnMap(x, true)
				x.keys, x.vals = nil, nil
			}
		case SliceV:
			for k := 0; k < x.len; k++ {
				e.store(x.arr.elems[x.off+k], e.zero(x.arr.et))
			}
		}
		return nil
	case "ssa:wrapnilchk":
		if isNilPtr(args[0]) {
			e.runtimePanic("nil pointer dereference (wrapnilchk)")
		}
		return args[0]
	case "SliceData":
		sv := args[0].(SliceV)
		if sv.arr == nil {
			return (*UPtr)(nil)
		}
		et := sv.arr.et
		return &UPtr{arr: sv.arr, base: sv.off, off: mkBV(64, 0), t: types.NewPointer(et), lim: sv.cap}
	case "Add":
		p, _ := args[0].(*UPtr)
		n := args[1].(*Term)
		_, signed, _ := basicInfo(b.Type().(*types.Signature).Params().At(1).Type())
		if signed {
			n = e.sext(n, 64)
		} else {
			n = e.zext(n, 64)
		}
		if p == nil {
			// pointer arithmetic on nil: keep as a dangling pointer (deref is an obligation failure)
			return &UPtr{arr: nil, off: n}
		}
		return &UPtr{arr: p.arr, base: p.base, off: e.bvbin("bvadd", p.off, n), lim: p.lim}
	case "Slice":
		return e.unsafeSlice(args[0], args[1].(*Term), b)
	case "String":
		return e.unsafeString(args[0], args[1].(*Term))
	case "StringData":
		s := args[0].(StrV)
		arr := e.newArr(types.Typ[types.Uint8], s.length())
		for k := range arr.elems {
			arr.elems[k].v = s.at(k)
		}
		return &UPtr{arr: arr, off: mkBV(64, 0), t: types.NewPointer(types.Typ[types.Uint8]), lim: s.length(), ro: true}
	}
	e.abort("unsupported builtin " + b.Name() + fmt.Sprintf(" (%T)", args[0]))
	return nil
}

func growCap(oldCap, need int) int {
	nc := oldCap
	if nc == 0 {
		nc = need
	}
	for nc < need {
		if nc < 256 {
			nc *= 2
		} else {
			nc += nc/4 + 192
		}
	}
	return nc
}

func (e *Exec) appendOp(s SliceV, more Value, st types.Type) Value {
	var add []Value
	switch m := more.(type) {
	case SliceV:
		for k := 0; k < m.len; k++ {
			add = append(add, e.load(m.arr.elems[m.off+k]))
		}
	case StrV:
		add = termsToValues(m.terms())
	default:
		e.abort(fmt.Sprintf("append of %T", more))
	}
	if len(add) == 0 {
		return s
	}
	et := under(st).(*types.Slice).Elem()
	if s.arr != nil && s.len+len(add) <= s.cap {
		for k, v := range add {
			e.store(s.arr.elems[s.off+s.len+k], v)
		}
		return SliceV{arr: s.arr, off: s.off, len: s.len + len(add), cap: s.cap}
	}
	nc := growCap(s.cap, s.len+len(add))
	arr := e.newArr(et, nc)
	for k := 0; k < s.len; k++ {
		e.store(arr.elems[k], e.load(s.arr.elems[s.off+k]))
	}
	for k, v := range add {
		e.store(arr.elems[s.len+k], v)
	}
	return SliceV{arr: arr, off: 0, len: s.len + len(add), cap: nc}
}

func (e *Exec) copyOp(dst SliceV, src Value) Value {
	var vals []Value
	switch m := src.(type) {
	case SliceV:
		n := m.len
		if dst.len < n {
			n = dst.len
		}
		for k := 0; k < n; k++ {
			vals = append(vals, e.load(m.arr.elems[m.off+k]))
		}
	case StrV:
		ts := m.terms()
		n := len(ts)
		if dst.len < n {
			n = dst.len
		}
		vals = termsToValues(ts[:n])
	default:
		e.abort(fmt.Sprintf("copy from %T", src))
	}
	for k, v := range vals {
		e.store(dst.arr.elems[dst.off+k], v)
	}
	return mkBV(64, uint64(len(vals)))
}

// ---------------------------------------------------------------------
// type assertions

func (e *Exec) implements(t types.Type, it *types.Interface) bool {
	key := implKey{t, it}
	if v, ok := e.sh.implCache.Load(key); ok {
		return v.(bool)
	}
	r := types.Implements(t, it)
	e.sh.implCache.Store(key, r)
	return r
}

type implKey struct {
	t  types.Type
	it *types.Interface
}

func (e *Exec) typeAssert(i *ssa.TypeAssert, x Value) Value {
	iv, ok := x.(IfaceV)
	if !ok {
		e.abort(fmt.Sprintf("TypeAssert on %T", x))
	}
	okk := false
	if iv.t != nil {
		if it, isI := under(i.AssertedType).(*types.Interface); isI {
			okk = e.implements(iv.t, it)
		} else {
			okk = types.Identical(iv.t, i.AssertedType)
		}
	}
	_, toIface := under(i.AssertedType).(*types.Interface)
	var res Value
	if okk {
		if toIface {
			res = iv
		} else {
			res = iv.v
		}
	} else {
		if !i.CommaOk {
			tn := "nil"
			if iv.t != nil {
				tn = iv.t.String()
			}
			e.stats.runtimePanics++
			site := e.prog.Fset.Position(i.Pos()).String()
			var pv Value
			if t := e.lookupType("runtime", "TypeAssertionError"); t != nil {
				pv = IfaceV{t: types.NewPointer(t), v: e.newCell(t)}
			} else {
				pv = e.runtimeErrorValue("interface conversion")
			}
			panic(&goPanic{v: pv, runtime: "interface conversion: " + tn + " is not " + i.AssertedType.String(), site: site})
		}
		res = e.zero(i.AssertedType)
	}
	if i.CommaOk {
		return TupleV{res, mkBool(okk)}
	}
	return res
}

// ---------------------------------------------------------------------
// equality

func (e *Exec) equal(a, b Value) *Term {
	switch x := a.(type) {
	case *Term:
		y, ok := b.(*Term)
		if !ok {
			e.abort("equal: scalar vs non-scalar")
		}
		return e.eq(x, y)
	case StrV:
		return e.strEq(x, b.(StrV))
	case *Cell:
		switch y := b.(type) {
		case *Cell:
			return mkBool(x == y)
		case nil:
			return mkBool(x == nil)
		case *SymPtr:
			return e.equal(e.derefCell(y), x)
		case *UPtr:
			return mkBool(x == nil && y == nil)
		}
	case *SymPtr:
		return e.equal(e.derefCell(x), b)
	case *UPtr:
		switch y := b.(type) {
		case *UPtr:
			if x == nil || y == nil {
				return mkBool(x == nil && y == nil)
			}
			if x.arr != y.arr {
				return tFalse
			}
			return e.eq(e.bvbin("bvadd", x.off, mkBV(64, uint64(x.base*e.sizeof(x.arr.et)))), e.bvbin("bvadd", y.off, mkBV(64, uint64(y.base*e.sizeof(y.arr.et)))))
		case *Cell:
			return mkBool(x == nil && y == nil)
		case nil:
			return mkBool(x == nil)
		}
	case IfaceV:
		y, ok := b.(IfaceV)
		if !ok {
			e.abort(fmt.Sprintf("equal: iface vs %T", b))
		}
		if x.t == nil || y.t == nil {
			return mkBool(x.t == nil && y.t == nil)
		}
		if !types.Identical(x.t, y.t) {
			return tFalse
		}
		if !types.Comparable(x.t) {
			e.runtimePanic("comparing uncomparable type " + x.t.String())
		}
		return e.equal(x.v, y.v)
	case StructV:
		y := b.(StructV)
		acc := tTrue
		for k := range x.fields {
			acc = e.and(acc, e.equal(x.fields[k], y.fields[k]))
		}
		return acc
	case ArrayV:
		y := b.(ArrayV)
		acc := tTrue
		for k := range x.elems {
			acc = e.and(acc, e.equal(x.elems[k], y.elems[k]))
		}
		return acc
	case *FuncV:
		y, _ := b.(*FuncV)
		if x == nil || y == nil {
			return mkBool(x == nil && y == nil)
		}
		e.abort("comparison of two non-nil funcs")
	case *MapV:
		y, _ := b.(*MapV)
		return mkBool(x == y)
	case SliceV:
		y, _ := b.(SliceV)
		return mkBool(x.arr == nil && y.arr == nil)
	case nil:
		switch y := b.(type) {
		case nil:
			return tTrue
		case *Cell:
			return mkBool(y == nil)
		case *UPtr:
			return mkBool(y == nil)
		}
	}
	e.abort(fmt.Sprintf("equal: unsupported %T vs %T", a, b))
	return nil
}

func (e *Exec) strEq(a, b StrV) *Term {
	if a.length() != b.length() {
		return tFalse
	}
	if a.sym == nil && b.sym == nil {
		return mkBool(a.s == b.s)
	}
	acc := tTrue
	for k := 0; k < a.length(); k++ {
		acc = e.and(acc, e.eq(a.at(k), b.at(k)))
	}
	return acc
}

func (e *Exec) strLess(a, b StrV) *Term {
	if a.sym == nil && b.sym == nil {
		return mkBool(a.s < b.s)
	}
	n := a.length()
	if b.length() < n {
		n = b.length()
	}
	acc := mkBool(a.length() < b.length())
	for k := n - 1; k >= 0; k-- {
		x, y := a.at(k), b.at(k)
		acc = e.ite(e.bvcmp("bvult", x, y), tTrue, e.ite(e.eq(x, y), acc, tFalse))
	}
	return acc
}

// ---------------------------------------------------------------------
// binop

func (e *Exec) binop(op token.Token, x, y Value, xt, yt types.Type) Value {
	switch op {
	case token.EQL:
		return e.equal(x, y)
	case token.NEQ:
		return e.not(e.equal(x, y))
	}
	if sx, ok := x.(StrV); ok {
		sy := y.(StrV)
		switch op {
		case token.ADD:
			if sx.sym == nil && sy.sym == nil {
				return StrV{s: sx.s + sy.s}
			}
			return strFromTerms(append(append([]*Term{}, sx.terms()...), sy.terms()...))
		case token.LSS:
			return e.strLess(sx, sy)
		case token.GTR:
			return e.strLess(sy, sx)
		case token.LEQ:
			return e.not(e.strLess(sy, sx))
		case token.GEQ:
			return e.not(e.strLess(sx, sy))
		}
		e.abort("string binop " + op.String())
	}
	a, ok := x.(*Term)
	if !ok {
		e.abort(fmt.Sprintf("binop %s on %T", op, x))
	}
	b := y.(*Term)
	sort, signed, _ := basicInfo(xt)
	switch sort.k {
	case kBool:
		switch op {
		case token.LAND, token.AND:
			return e.and(a, b)
		case token.LOR, token.OR:
			return e.or(a, b)
		}
	case kF64, kF32:
		switch op {
		case token.ADD:
			return e.fbin("fp.add", a, b)
		case token.SUB:
			return e.fbin("fp.sub", a, b)
		case token.MUL:
			return e.fbin("fp.mul", a, b)
		case token.QUO:
			return e.fbin("fp.div", a, b)
		case token.LSS:
			return e.fcmp("fp.lt", a, b)
		case token.LEQ:
			return e.fcmp("fp.leq", a, b)
		case token.GTR:
			return e.fcmp("fp.gt", a, b)
		case token.GEQ:
			return e.fcmp("fp.geq", a, b)
		}
	case kBV:
		switch op {
		case token.ADD:
			return e.bvbin("bvadd", a, b)
		case token.SUB:
			return e.bvbin("bvsub", a, b)
		case token.MUL:
			return e.mulOp(a, b)
		case token.QUO, token.REM:
			if !e.branch(e.not(e.eq(b, mkBV(b.sort.w, 0)))) {
				e.runtimePanic("integer divide by zero")
			}
			return e.divOp(op, a, b, signed)
		case token.AND:
			return e.bvbin("bvand", a, b)
		case token.OR:
			return e.bvbin("bvor", a, b)
		case token.XOR:
			return e.bvbin("bvxor", a, b)
		case token.AND_NOT:
			return e.bvbin("bvand", a, e.bvnot(b))
		case token.SHL, token.SHR:
			_, ysigned, _ := basicInfo(yt)
			if ysigned {
				if !e.branch(e.bvcmp("bvsge", b, mkBV(b.sort.w, 0))) {
					e.runtimePanic("negative shift amount")
				}
			}
			w := a.sort.w
			var cnt *Term
			if b.sort.w > w {
				big := e.bvcmp("bvuge", b, mkBV(b.sort.w, uint64(w)))
				cnt = e.ite(big, mkBV(w, uint64(w)), e.extract(w-1, 0, b))
			} else {
				cnt = e.zext(b, w)
			}
			if op == token.SHL {
				return e.bvbin("bvshl", a, cnt)
			}
			if signed {
				return e.bvbin("bvashr", a, cnt)
			}
			return e.bvbin("bvlshr", a, cnt)
		case token.LSS:
			if signed {
				return e.bvcmp("bvslt", a, b)
			}
			return e.bvcmp("bvult", a, b)
		case token.LEQ:
			if signed {
				return e.bvcmp("bvsle", a, b)
			}
			return e.bvcmp("bvule", a, b)
		case token.GTR:
			if signed {
				return e.bvcmp("bvsgt", a, b)
			}
			return e.bvcmp("bvugt", a, b)
		case token.GEQ:
			if signed {
				return e.bvcmp("bvsge", a, b)
			}
			return e.bvcmp("bvuge", a, b)
		}
	}
	e.abort(fmt.Sprintf("unsupported binop %s on %v", op, xt))
	return nil
}

// multiplication: symbolic x symbolic at 64 bits is abstracted when enabled
func (e *Exec) mulOp(a, b *Term) *Term {
	if !a.konst && !b.konst && a.sort.w == 64 && e.mulAbstraction {
		e.note("abstraction: 64-bit symbolic*symbolic product replaced by a fresh value")
		return e.fresh(sBV(64), "mulabs")
	}
	return e.bvbin("bvmul", a, b)
}

func (e *Exec) divOp(op token.Token, a, b *Term, signed bool) *Term {
	if !a.konst && !b.konst && a.sort.w == 64 && e.mulAbstraction {
		e.note("abstraction: 64-bit symbolic/symbolic quotient replaced by a fresh value")
		return e.fresh(sBV(64), "divabs")
	}
	if op == token.QUO {
		if signed {
			return e.bvbin("bvsdiv", a, b)
		}
		return e.bvbin("bvudiv", a, b)
	}
	if signed {
		return e.bvbin("bvsrem", a, b)
	}
	return e.bvbin("bvurem", a, b)
}

// ---------------------------------------------------------------------
// conversions

func (e *Exec) convert(x Value, from, to types.Type) Value {
	fu, tu := under(from), under(to)
	// string conversions
	if isString(tu) {
		switch v := x.(type) {
		case StrV:
			return v
		case SliceV:
			el := under(fu.(*types.Slice).Elem()).(*types.Basic)
			if el.Kind() == types.Uint8 {
				ts := make([]*Term, v.len)
				for k := 0; k < v.len; k++ {
					ts[k] = v.arr.elems[v.off+k].v.(*Term)
				}
				return strFromTerms(ts)
			}
			// []rune -> string
			var out []*Term
			for k := 0; k < v.len; k++ {
				out = append(out, e.encodeRune(v.arr.elems[v.off+k].v.(*Term))...)
			}
			return strFromTerms(out)
		case *Term:
			// integer -> string (rune)
			_, signed, _ := basicInfo(from)
			var r *Term
			if signed {
				r = e.sext(v, 64)
			} else {
				r = e.zext(v, 64)
			}
			// out of int32 range => U+FFFD
			inr := e.bvcmp("bvule", r, mkBV(64, 0x10FFFF))
			r32 := e.ite(inr, e.extract(31, 0, r), mkBV(32, 0xFFFD))
			return strFromTerms(e.encodeRune(r32))
		}
	}
	if sl, ok := tu.(*types.Slice); ok {
		if sv, ok := x.(StrV); ok {
			el := under(sl.Elem()).(*types.Basic)
			if el.Kind() == types.Uint8 {
				arr := e.newArr(sl.Elem(), sv.length())
				for k := range arr.elems {
					arr.elems[k].v = sv.at(k)
				}
				return SliceV{arr: arr, len: sv.length(), cap: sv.length()}
			}
			// []rune(string)
			var runes []*Term
			pos := 0
			for pos < sv.length() {
				r, n := e.decodeRune(sv.slice(pos, sv.length()))
				runes = append(runes, r)
				pos += n
			}
			arr := e.newArr(sl.Elem(), len(runes))
			for k := range arr.elems {
				arr.elems[k].v = runes[k]
			}
			return SliceV{arr: arr, len: len(runes), cap: len(runes)}
		}
		if sv, ok := x.(SliceV); ok {
			return sv
		}
	}
	// unsafe.Pointer
	if isUnsafePointer(tu) {
		switch p := x.(type) {
		case *UPtr:
			return p
		case *Cell:
			if p == nil {
				return (*UPtr)(nil)
			}
			return e.cellToUPtr(p, from)
		case *SymPtr:
			return e.symPtrToUPtr(p, from)
		case *Term:
			e.abort("uintptr -> unsafe.Pointer")
		}
	}
	if isUnsafePointer(fu) {
		switch p := x.(type) {
		case *UPtr:
			if _, isPtr := tu.(*types.Pointer); isPtr {
				if p == nil {
					return (*Cell)(nil)
				}
				return e.uptrToTyped(p, to)
			}
			if b, ok := tu.(*types.Basic); ok && b.Kind() == types.Uintptr {
				if p == nil {
					return mkBV(64, 0)
				}
				return e.uptrAddr(p)
			}
		}
	}
	// numeric
	if t, ok := x.(*Term); ok {
		fs, fsigned, ok1 := basicInfo(from)
		ts, tsigned, ok2 := basicInfo(to)
		if ok1 && ok2 {
			switch {
			case fs.k == kBV && ts.k == kBV:
				if fsigned {
					return e.sext(t, ts.w)
				}
				return e.zext(t, ts.w)
			case fs.k == kBV && (ts.k == kF64 || ts.k == kF32):
				return e.intToFloat(t, fsigned, ts)
			case (fs.k == kF64 || fs.k == kF32) && ts.k == kBV:
				return e.floatToInt(t, ts.w, tsigned)
			case (fs.k == kF64 || fs.k == kF32) && (ts.k == kF64 || ts.k == kF32):
				return e.floatToFloat(t, ts)
			case fs.k == kBool && ts.k == kBool:
				return t
			}
		}
	}
	if _, ok := tu.(*types.Pointer); ok {
		return x
	}
	e.abort(fmt.Sprintf("unsupported conversion %v -> %v (%T)", from, to, x))
	return nil
}

// UTF-8 helpers executed by interpreting the standard library
func (e *Exec) stdFunc(pkg, name string) *ssa.Function {
	p := e.prog.ImportedPackage(pkg)
	if p == nil {
		e.abort("package not loaded: " + pkg)
	}
	f := p.Func(name)
	if f == nil {
		e.abort("func not found: " + pkg + "." + name)
	}
	return f
}

func (e *Exec) decodeRune(s StrV) (*Term, int) {
	if s.sym == nil {
		// concrete fast path
		for _, r := range s.s {
			n := len(string(r))
			if r == 0xFFFD {
				// may be invalid encoding of width 1
				if !(len(s.s) >= 3 && s.s[0] == 0xEF && s.s[1] == 0xBF && s.s[2] == 0xBD) {
					n = 1
				}
			}
			return mkBV(32, uint64(uint32(r))), n
		}
	}
	res := e.callFunc(e.stdFunc("unicode/utf8", "DecodeRuneInString"), []Value{s}, nil, nil).(TupleV)
	n := e.concretize(res[1].(*Term), "rune width")
	return res[0].(*Term), int(n)
}

func (e *Exec) encodeRune(r *Term) []*Term {
	if r.konst {
		s := string(rune(int32(r.c)))
		return StrV{s: s}.terms()
	}
	res := e.callFunc(e.stdFunc("unicode/utf8", "AppendRune"), []Value{SliceV{}, r}, nil, nil).(SliceV)
	out := make([]*Term, res.len)
	for k := range out {
		out[k] = res.arr.elems[res.off+k].v.(*Term)
	}
	return out
}

// ---------------------------------------------------------------------
// maps

func (e *Exec) mapFind(m *MapV, key Value) int {
	for k, mk := range m.keys {
		eq := e.equal(mk, key)
		if e.branch(eq) {
			return k
		}
	}
	return -1
}

func (e *Exec) mapStore(m *MapV, key, val Value) {
	k := e.mapFind(m, key)
	if k >= 0 {
		e.store(m.vals[k], val)
		return
	}
	c := e.newCell(m.vt)
	e.store(c, val)
	m.keys = append(m.keys, key)
	m.vals = append(m.vals, c)
}

func (e *Exec) mapDelete(m *MapV, key Value) {
	k := e.mapFind(m, key)
	if k >= 0 {
		m.keys = append(append([]Value{}, m.keys[:k]...), m.keys[k+1:]...)
		m.vals = append(append([]*Cell{}, m.vals[:k]...), m.vals[k+1:]...)
	}
}

func (e *Exec) lookup(i *ssa.Lookup, x Value, idx Value) Value {
	switch m := x.(type) {
	case StrV:
		return e.indexValue(m, idx.(*Term), nil)
	case *MapV:
		vt := under(i.X.Type()).(*types.Map).Elem()
		k := -1
		if m != nil {
			e.raceOnMap(m, false)
			k = e.mapFind(m, idx)
		}
		var v Value
		if k >= 0 {
			v = e.load(m.vals[k])
		} else {
			v = e.zero(vt)
		}
		if i.CommaOk {
			return TupleV{v, mkBool(k >= 0)}
		}
		return v
	}
	e.abort(fmt.Sprintf("Lookup on %T", x))
	return nil
}

func (e *Exec) rangeIter(x Value) Value {
	switch v := x.(type) {
	case StrV:
		return &RangeIter{isStr: true, str: v}
	case *MapV:
		it := &RangeIter{m: v}
		if v != nil {
			e.raceOnMap(v, false)
			e.note("assumption: map iteration in insertion order")
			it.keys = append(it.keys, v.keys...)
			for _, c := range v.vals {
				it.vals = append(it.vals, e.load(c))
			}
		}
		return it
	}
	e.abort(fmt.Sprintf("Range over %T", x))
	return nil
}

func (e *Exec) next(i *ssa.Next, it *RangeIter) Value {
	if it.isStr {
		if it.pos >= it.str.length() {
			return TupleV{tFalse, mkBV(64, 0), mkBV(32, 0)}
		}
		r, n := e.decodeRune(it.str.slice(it.pos, it.str.length()))
		p := it.pos
		it.pos += n
		return TupleV{tTrue, mkBV(64, uint64(p)), r}
	}
	tt := i.Type().(*types.Tuple)
	for it.pos < len(it.keys) {
		k := it.pos
		it.pos++
		// skip deleted entries
		still := false
		for _, mk := range it.m.keys {
			if e.sameKey(mk, it.keys[k]) {
				still = true
				break
			}
		}
		if !still {
			continue
		}
		var kv, vv Value = it.keys[k], it.vals[k]
		if j := e.mapFindConcrete(it.m, it.keys[k]); j >= 0 {
			vv = e.load(it.m.vals[j])
		}
		if _, ok := tt.At(1).Type().(*types.Basic); ok && tt.At(1).Type().(*types.Basic).Kind() == types.Invalid {
			kv = nil
		}
		return TupleV{tTrue, kv, vv}
	}
	return TupleV{tFalse, e.zeroOrNil(tt.At(1).Type()), e.zeroOrNil(tt.At(2).Type())}
}

func (e *Exec) zeroOrNil(t types.Type) Value {
	if b, ok := t.(*types.Basic); ok && b.Kind() == types.Invalid {
		return nil
	}
	return e.zero(t)
}

func (e *Exec) sameKey(a, b Value) bool {
	t := e.equal(a, b)
	return t.konst && t.c == 1
}

func (e *Exec) mapFindConcrete(m *MapV, key Value) int {
	for k, mk := range m.keys {
		if e.sameKey(mk, key) {
			return k
		}
	}
	return -1
}

// ---------------------------------------------------------------------
// sizes

func (e *Exec) sizeof(t types.Type) int {
	return int(e.sh.sizes.Sizeof(t))
}

var _ = math.Pi
var _ = strings.Contains
