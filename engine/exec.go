package main

import (
	"fmt"
	"go/types"
	"sort"
	"strings"
	"sync"

	"golang.org/x/tools/go/ssa"
)

// Shared, read-only (or internally synchronised) data for all workers
type Shared struct {
	prog      *ssa.Program
	implCache sync.Map
	sideCache sync.Map
	regionCache sync.Map
	sizes     types.Sizes
	initMu    sync.Mutex
	initInfos map[*ssa.Package]*initInfo
	harnessFiles map[string]bool
}

type Stats struct {
	floatToInt    int
	runtimePanics int
	branchQueries int
	unknownBranch int
	summaries     int
	ifConversions int
}

type nondet struct {
	name string
	term *Term
	kind string
}

type siteStat struct {
	Reached    int `json:"reached"`
	Trivial    int `json:"trivially_true"`
	Discharged int `json:"discharged_unsat"`
	Failed     int `json:"sat"`
	Unknown    int `json:"unknown"`
	Known      int `json:"known_finding_hits"`
}

type Cex struct {
	Harness   string            `json:"harness"`
	ID        string            `json:"assert_id"`
	What      string            `json:"what"`
	Known     string            `json:"known_finding,omitempty"`
	Values    map[string]string `json:"values"` // nondet name -> hex value
	Kinds     map[string]string `json:"kinds"`
	Decisions []uint64          `json:"decisions"`
	Site      string            `json:"site,omitempty"`
}

// Exec: one worker's symbolic executor
type Exec struct {
	sh     *Shared
	prog   *ssa.Program
	solver *Solver
	h      *Harness

	// per path
	prefix    []uint64
	decisions []uint64
	pc        []*Term
	nondets   []nondet
	nameCount map[string]int
	known     map[string]uint64
	knownTrue map[string]bool
	globals   map[*ssa.Global]*Cell
	initFrames map[*ssa.Package]*frame
	initRan   map[*ssa.Function]bool
	nameCtr   int
	freshCtr  int
	cellCtr   int
	arrCtr    int
	curFrame  *frame
	depth     int
	steps     int64
	lastRecovered *goPanic
	effects   map[string]Value // harness scratch
	local     *localCtx
	ifc       *ifcCtx
	race      *raceTracker
	late      map[*ssa.Function]*lateInfo
	noIfConv  bool
	sumCache  map[*ssa.Function]bool

	// config
	maxSteps       int64
	unwind         int
	maxIte         int
	maxEnum        int
	mulAbstraction bool
	fpAbstraction  bool

	// accumulated over paths (per worker; merged at the end)
	stats     Stats
	funcsSeen map[*ssa.Function]bool
	notes     map[string]bool
	sites     map[string]*siteStat
	cexs      []*Cex
	incon     []string
	paths     int
	pathsDone int
	pathsInfeasible int
	totalSteps int64
	emit      func(prefix []uint64)
	samples   []string
}

func newExec(sh *Shared, h *Harness, solverBin string, timeoutMs int, logPath string) *Exec {
	e := &Exec{sh: sh, prog: sh.prog, h: h}
	e.solver = newSolver(solverBin, timeoutMs, logPath)
	e.funcsSeen = map[*ssa.Function]bool{}
	e.notes = map[string]bool{}
	e.sites = map[string]*siteStat{}
	e.maxSteps = 20_000_000
	e.unwind = h.Unwind
	if e.unwind == 0 {
		e.unwind = 16
	}
	e.maxIte = 300
	e.maxEnum = h.MaxEnum
	if e.maxEnum == 0 {
		e.maxEnum = 64
	}
	e.mulAbstraction = h.MulAbstraction
	return e
}

func (e *Exec) note(s string) { e.notes[s] = true }

func (e *Exec) site(id string) *siteStat {
	s := e.sites[id]
	if s == nil {
		s = &siteStat{}
		e.sites[id] = s
	}
	return s
}

// ---------------------------------------------------------------------
// path condition / solver

func (e *Exec) addPC(c *Term) {
	if e.local != nil || e.ifc != nil {
		panic(localFail{"assume in summarised function"})
	}
	if c.konst {
		if c.c == 0 {
			panic(pathEnd{kind: "infeasible"})
		}
		return
	}
	if e.knownTrue[c.s] {
		return
	}
	e.knownTrue[c.s] = true
	e.pc = append(e.pc, c)
	e.solver.send("(assert " + c.s + ")")
}

func (e *Exec) assume(c *Term) { e.addPC(c) }

func (e *Exec) check(extra ...*Term) satResult {
	r := e.solver.checkPushed(extra)
	e.solver.pop()
	return r
}

// decide: replay from prefix or compute the feasible alternatives
func (e *Exec) decide(alts func() []uint64) uint64 {
	i := len(e.decisions)
	if i < len(e.prefix) {
		v := e.prefix[i]
		e.decisions = append(e.decisions, v)
		return v
	}
	vals := alts()
	if len(vals) == 0 {
		panic(pathEnd{kind: "infeasible"})
	}
	for _, v := range vals[1:] {
		np := make([]uint64, len(e.decisions)+1)
		copy(np, e.decisions)
		np[len(e.decisions)] = v
		e.emit(np)
	}
	e.decisions = append(e.decisions, vals[0])
	return vals[0]
}

func (e *Exec) branch(c *Term) bool {
	if c.konst {
		return c.c == 1
	}
	if e.knownTrue[c.s] {
		return true
	}
	if n := e.not(c); e.knownTrue[n.s] {
		return false
	}
	if e.ifc != nil {
		panic(localFail{"symbolic branch inside if-converted side"})
	}
	if e.local != nil {
		return e.localBranch(c)
	}
	d := e.decide(func() []uint64 {
		var alts []uint64
		e.stats.branchQueries++
		r1 := e.check(c)
		if r1 == rUnsat {
			return []uint64{0}
		}
		if r1 == rUnknown {
			e.stats.unknownBranch++
		}
		alts = append(alts, 1)
		r2 := e.check(e.not(c))
		if r2 != rUnsat {
			if r2 == rUnknown {
				e.stats.unknownBranch++
			}
			alts = append(alts, 0)
		}
		return alts
	})
	if d == 1 {
		e.addPC(c)
		return true
	}
	e.addPC(e.not(c))
	return false
}

func (e *Exec) concretize(t *Term, what string) uint64 {
	if t.konst {
		return t.c
	}
	if v, ok := e.known[t.s]; ok {
		return v
	}
	if e.local != nil || e.ifc != nil {
		panic(localFail{"concretize in summarised function"})
	}
	d := e.decide(func() []uint64 {
		var vals []uint64
		var excl []*Term
		for {
			r := e.solver.checkPushed(excl)
			if r == rUnsat {
				break
			}
			if r != rSat {
				e.abort("concretize: solver unknown for " + what)
			}
			m := e.solver.getValues([]string{t.s})
			var v uint64
			ok := false
			for _, mv := range m {
				v, ok = parseBV(mv)
			}
			if !ok {
				e.abort("concretize: cannot parse model value for " + what)
			}
			vals = append(vals, v)
			if len(vals) > e.maxEnum {
				e.abort(fmt.Sprintf("concretize: more than %d feasible values for %s", e.maxEnum, what))
			}
			excl = append(excl, e.not(e.eq(t, mkBV(t.sort.w, v))))
		}
		sort.Slice(vals, func(i, j int) bool { return vals[i] < vals[j] })
		return vals
	})
	e.addPC(e.eq(t, mkBV(t.sort.w, d)))
	e.known[t.s] = d
	return d
}

// model of all nondets (solver must be in sat state inside a push)
func (e *Exec) model() (map[string]string, map[string]string) {
	names := make([]string, 0, len(e.nondets))
	for _, n := range e.nondets {
		names = append(names, n.term.s)
	}
	raw := e.solver.getValues(names)
	vals := map[string]string{}
	kinds := map[string]string{}
	for _, n := range e.nondets {
		v, ok := parseBV(raw[n.term.s])
		if !ok {
			continue
		}
		vals[n.name] = fmt.Sprintf("0x%x", v)
		kinds[n.name] = n.kind
	}
	return vals, kinds
}

// assertObligation: the heart of the check. ok must hold on every path.
func (e *Exec) assertObligation(id string, ok *Term, what string) {
	e.assertK(id, ok, nil, "", what)
}

// assertK: as assertObligation but failures inside `class` are reported as known finding `kf`
func (e *Exec) assertK(id string, ok *Term, class *Term, kf string, what string) {
	if e.local != nil || e.ifc != nil {
		panic(localFail{"assertion in summarised function"})
	}
	st := e.site(id)
	st.Reached++
	if ok.konst && ok.c == 1 {
		st.Trivial++
		return
	}
	site := ""
	if e.curFrame != nil && e.curFrame.cur != nil {
		site = e.prog.Fset.Position(e.curFrame.cur.Pos()).String()
	}
	nok := e.not(ok)
	record := func(extra []*Term, known string) satResult {
		r := e.solver.checkPushed(extra)
		if r == rSat {
			vals, kinds := e.model()
			e.cexs = append(e.cexs, &Cex{Harness: e.h.ID, ID: id, What: what, Known: known, Values: vals, Kinds: kinds,
				Decisions: append([]uint64{}, e.decisions...), Site: site})
		}
		e.solver.pop()
		return r
	}
	failed := false
	if class != nil {
		r := record([]*Term{nok, class}, kf)
		if r == rSat {
			st.Known++
		} else if r == rUnknown {
			st.Unknown++
			e.incon = append(e.incon, fmt.Sprintf("solver unknown on obligation %s (known class) at %s", id, site))
		}
		r = record([]*Term{nok, e.not(class)}, "")
		switch r {
		case rSat:
			st.Failed++
			failed = true
		case rUnknown:
			st.Unknown++
			e.incon = append(e.incon, fmt.Sprintf("solver unknown on obligation %s at %s", id, site))
		default:
			st.Discharged++
		}
	} else {
		r := record([]*Term{nok}, "")
		switch r {
		case rSat:
			st.Failed++
			failed = true
		case rUnknown:
			st.Unknown++
			e.incon = append(e.incon, fmt.Sprintf("solver unknown on obligation %s at %s", id, site))
		default:
			st.Discharged++
		}
	}
	_ = failed
	if ok.konst && ok.c == 0 {
		panic(pathEnd{kind: "stop", reason: "assertion " + id + " is false on this path"})
	}
	e.addPC(ok)
}

// ---------------------------------------------------------------------
// running one path

type pathOutcome struct {
	kind   string // done, infeasible, abort, stop, panic
	reason string
}

func (e *Exec) runPath(prefix []uint64, fn *ssa.Function) (out pathOutcome) {
	e.prefix = prefix
	e.decisions = e.decisions[:0]
	e.pc = e.pc[:0]
	e.nondets = e.nondets[:0]
	e.nameCount = map[string]int{}
	e.known = map[string]uint64{}
	e.knownTrue = map[string]bool{}
	e.globals = map[*ssa.Global]*Cell{}
	e.initFrames = map[*ssa.Package]*frame{}
	e.initRan = map[*ssa.Function]bool{}
	e.effects = map[string]Value{}
	e.local = nil
	e.ifc = nil
	e.race = nil
	if e.sumCache == nil {
		e.sumCache = map[*ssa.Function]bool{}
	}
	e.nameCtr, e.freshCtr, e.cellCtr, e.arrCtr = 0, 0, 0, 0
	e.curFrame = nil
	e.depth = 0
	e.steps = 0
	e.solver.reset()
	e.paths++
	defer func() {
		e.totalSteps += e.steps
		r := recover()
		if r == nil {
			return
		}
		switch x := r.(type) {
		case pathEnd:
			out = pathOutcome{kind: x.kind, reason: x.reason}
		case *goPanic:
			desc := x.runtime
			if desc == "" {
				desc = e.describePanic(x.v)
			} else {
				desc = "runtime error: " + desc
			}
			out = pathOutcome{kind: "panic", reason: desc + " @ " + x.site}
			// an escaping panic is an obligation failure under the current path condition
			e.curFrame = nil
			func() {
				defer func() {
					if r2 := recover(); r2 != nil {
						if _, ok := r2.(pathEnd); !ok {
							panic(r2)
						}
					}
				}()
				e.assertObligation("no-escaping-panic", tFalse, desc+" @ "+x.site)
			}()
		default:
			panic(r)
		}
	}()
	e.callFunc(fn, nil, nil, nil)
	return pathOutcome{kind: "done"}
}

func (e *Exec) describePanic(v Value) string {
	iv, ok := v.(IfaceV)
	if !ok {
		return fmt.Sprintf("panic(%T)", v)
	}
	if iv.t == nil {
		return "panic(nil)"
	}
	if s, ok := iv.v.(StrV); ok && s.concrete() {
		return fmt.Sprintf("panic(%s %q)", iv.t, s.goString())
	}
	return fmt.Sprintf("panic(%s)", iv.t)
}

// ---------------------------------------------------------------------
// globals (lazy, per path): interpret the slice of the package initialiser that defines them

type initInfo struct {
	fn       *ssa.Function
	byRoot   map[ssa.Value][]ssa.Instruction
	explicit map[*ssa.Global][]*ssa.Function
}

func rootOf(v ssa.Value) ssa.Value {
	for {
		switch x := v.(type) {
		case *ssa.FieldAddr:
			v = x.X
		case *ssa.IndexAddr:
			v = x.X
		case *ssa.ChangeType:
			v = x.X
		case *ssa.Slice:
			v = x.X
		default:
			return v
		}
	}
}

func (sh *Shared) initInfoFor(p *ssa.Package) *initInfo {
	sh.initMu.Lock()
	defer sh.initMu.Unlock()
	if ii, ok := sh.initInfos[p]; ok {
		return ii
	}
	ii := &initInfo{byRoot: map[ssa.Value][]ssa.Instruction{}, explicit: map[*ssa.Global][]*ssa.Function{}}
	ii.fn = p.Func("init")
	if ii.fn != nil {
		for _, b := range ii.fn.Blocks {
			for _, ins := range b.Instrs {
				switch x := ins.(type) {
				case *ssa.Store:
					r := rootOf(x.Addr)
					ii.byRoot[r] = append(ii.byRoot[r], ins)
				case *ssa.MapUpdate:
					r := rootOf(x.Map)
					ii.byRoot[r] = append(ii.byRoot[r], ins)
				case *ssa.Call:
					if f, ok := x.Call.Value.(*ssa.Function); ok && strings.HasPrefix(f.Name(), "init#") {
						for _, fb := range f.Blocks {
							for _, fi := range fb.Instrs {
								if st, ok := fi.(*ssa.Store); ok {
									if g, ok := rootOf(st.Addr).(*ssa.Global); ok {
										dup := false
										for _, o := range ii.explicit[g] {
											if o == f {
												dup = true
											}
										}
										if !dup {
											ii.explicit[g] = append(ii.explicit[g], f)
										}
									}
								}
							}
						}
					}
				}
			}
		}
	}
	sh.initInfos[p] = ii
	return ii
}

func (e *Exec) globalCell(g *ssa.Global) *Cell {
	if c, ok := e.globals[g]; ok {
		return c
	}
	c := e.newCell(g.Type().(*types.Pointer).Elem())
	e.globals[g] = c
	if g.Pkg == nil {
		return c
	}
	if h, ok := globalOverrides[g.String()]; ok {
		h(e, c)
		return c
	}
	ii := e.sh.initInfoFor(g.Pkg)
	if ii.fn == nil {
		return c
	}
	stores := ii.byRoot[g]
	if len(stores) > 0 || len(ii.explicit[g]) > 0 {
		saveFrame, saveDepth := e.curFrame, e.depth
		// initialisers always run in normal mode, whatever speculative mode the reader is in
		saveLocal, saveIfc := e.local, e.ifc
		e.local, e.ifc = nil, nil
		completed := false
		defer func() {
			e.local, e.ifc = saveLocal, saveIfc
			if !completed {
				delete(e.globals, g)
			}
		}()
		fr := e.initFrames[g.Pkg]
		if fr == nil {
			fr = &frame{fn: ii.fn, regs: map[ssa.Value]Value{}}
			e.initFrames[g.Pkg] = fr
		}
		for _, st := range stores {
			e.initExec(ii, fr, st)
		}
		for _, f := range ii.explicit[g] {
			if !e.initRan[f] {
				e.initRan[f] = true
				e.callFunc(f, nil, nil, nil)
			}
		}
		e.curFrame, e.depth = saveFrame, saveDepth
		completed = true
	}
	return c
}

func (e *Exec) initExec(ii *initInfo, fr *frame, ins ssa.Instruction) {
	for _, op := range ins.Operands(nil) {
		if *op != nil {
			e.initVal(ii, fr, *op)
		}
	}
	e.curFrame = fr
	fr.cur = ins
	e.execInstr(fr, ins)
}

func (e *Exec) initVal(ii *initInfo, fr *frame, v ssa.Value) {
	switch v.(type) {
	case *ssa.Const, *ssa.Global, *ssa.Function, *ssa.Builtin:
		return
	}
	if _, ok := fr.regs[v]; ok {
		return
	}
	ins, ok := v.(ssa.Instruction)
	if !ok {
		e.abort(fmt.Sprintf("package initialiser: unsupported value %T", v))
	}
	if _, isPhi := v.(*ssa.Phi); isPhi {
		e.abort("package initialiser with control flow (phi) for " + ii.fn.Pkg.Pkg.Path())
	}
	e.initExec(ii, fr, ins)
	if _, ok := fr.regs[v]; !ok {
		e.abort("package initialiser: instruction produced no value")
	}
	for _, st := range ii.byRoot[v] {
		e.initExec(ii, fr, st)
	}
}
