package main

import (
	"fmt"
	"sort"
	"strings"

	"golang.org/x/tools/go/ssa"
)

// Access summaries for data-race reasoning on shared values (C16). The engine is single-threaded; a
// harness executes two calls A and B on two identical copies of a shared value (so that neither sees
// the other's effects: both start from the same pre-state, as two goroutines do). During each call every
// access to memory reachable from the declared root (and to package-level variables) is logged with its
// synchronisation context; vAssertNoRace then pairs the two logs: a conflicting pair (same location, at
// least one write, not both atomic) is a race unless it is ordered by sync.Once (both inside the same
// Once body; or one inside a Once body and the other after that Once.Do returned, or after an atomic load
// observed a flag that the Once body stored after the access).

type raceAccess struct {
	name   string
	write  bool
	atomic bool
	once   string
	done   map[string]bool
	guards map[string]bool
	seq    int
	site   string
}

type raceTracker struct {
	active   bool
	names    map[*Cell]string
	mapNames map[*MapV]string
	cur      []raceAccess
	logs     map[string][]raceAccess
	curOnce  string
	done     map[string]bool
	guards   map[string]bool
	inAtomic bool
	tag      string
}

func (e *Exec) raceNameCells(v Value, name string, seen map[interface{}]bool) {
	rt := e.race
	switch x := v.(type) {
	case *Cell:
		if x == nil || seen[x] {
			return
		}
		seen[x] = true
		if _, ok := rt.names[x]; !ok {
			rt.names[x] = name
		}
		switch m := x.v.(type) {
		case *StructM:
			for i, f := range m.fields {
				e.raceNameCells(f, fmt.Sprintf("%s.f%d", name, i), seen)
			}
		case *ArrM:
			for i, c := range m.elems {
				e.raceNameCells(c, fmt.Sprintf("%s[%d]", name, i), seen)
			}
		default:
			e.raceNameCells(x.v, name+"*", seen)
		}
	case IfaceV:
		e.raceNameCells(x.v, name, seen)
	case *MapV:
		// a map is one location for the race detector (the Go runtime flags any write concurrent with
		// any other access of the same map); values may point further
		if x == nil || seen[x] {
			return
		}
		seen[x] = true
		if _, ok := rt.mapNames[x]; !ok {
			rt.mapNames[x] = name + "(map)"
		}
		for i, c := range x.vals {
			e.raceNameCells(c.v, fmt.Sprintf("%s{%d}", name, i), seen)
		}
	case SliceV:
		if x.arr != nil && !seen[x.arr] {
			seen[x.arr] = true
			for i := 0; i < x.cap && x.off+i < len(x.arr.elems); i++ {
				e.raceNameCells(x.arr.elems[x.off+i], fmt.Sprintf("%s[%d]", name, i), seen)
			}
		}
	case StructV:
		for i, f := range x.fields {
			e.raceNameCells(f, fmt.Sprintf("%s.f%d", name, i), seen)
		}
	}
}

func (e *Exec) raceOnAccess(c *Cell, write bool) {
	rt := e.race
	if rt == nil || !rt.active {
		return
	}
	name, ok := rt.names[c]
	if !ok {
		return
	}
	site := ""
	if e.curFrame != nil && e.curFrame.cur != nil {
		site = e.prog.Fset.Position(e.curFrame.cur.Pos()).String()
	}
	a := raceAccess{name: name, write: write, atomic: rt.inAtomic, once: rt.curOnce, seq: len(rt.cur), site: site,
		done: map[string]bool{}, guards: map[string]bool{}}
	for k := range rt.done {
		a.done[k] = true
	}
	for k := range rt.guards {
		a.guards[k] = true
	}
	rt.cur = append(rt.cur, a)
}

func (e *Exec) raceOnMap(m *MapV, write bool) {
	rt := e.race
	if rt == nil || !rt.active || m == nil {
		return
	}
	name, ok := rt.mapNames[m]
	if !ok {
		return
	}
	site := ""
	if e.curFrame != nil && e.curFrame.cur != nil {
		site = e.prog.Fset.Position(e.curFrame.cur.Pos()).String()
	}
	a := raceAccess{name: name, write: write, atomic: false, once: rt.curOnce, seq: len(rt.cur), site: site,
		done: map[string]bool{}, guards: map[string]bool{}}
	for k := range rt.done {
		a.done[k] = true
	}
	for k := range rt.guards {
		a.guards[k] = true
	}
	rt.cur = append(rt.cur, a)
}

func raceIntrinsic(name string) (intrinsic, bool) {
	switch name {
	case "vRaceBegin":
		return func(e *Exec, fn *ssa.Function, args []Value) Value {
			if e.race == nil {
				e.race = &raceTracker{names: map[*Cell]string{}, logs: map[string][]raceAccess{}}
			}
			rt := e.race
			rt.tag = e.constStr(args[0], name)
			rt.names = map[*Cell]string{}
			rt.mapNames = map[*MapV]string{}
			e.raceNameCells(args[1], "shared", map[interface{}]bool{})
			for g, c := range e.globals {
				e.raceNameCells(c, "global:"+g.String(), map[interface{}]bool{})
			}
			rt.cur = nil
			rt.curOnce = ""
			rt.done = map[string]bool{}
			rt.guards = map[string]bool{}
			rt.active = true
			return nil
		}, true
	case "vRaceEnd":
		return func(e *Exec, fn *ssa.Function, args []Value) Value {
			rt := e.race
			if rt == nil {
				e.abort("vRaceEnd without vRaceBegin")
			}
			rt.active = false
			rt.logs[rt.tag] = rt.cur
			return nil
		}, true
	case "vAssertNoRace":
		return func(e *Exec, fn *ssa.Function, args []Value) Value {
			id := e.constStr(args[0], name)
			ta, tb := e.constStr(args[1], name), e.constStr(args[2], name)
			rt := e.race
			if rt == nil {
				e.abort("vAssertNoRace without logs")
			}
			races := findRaces(rt.logs[ta], rt.logs[tb])
			what := ""
			if len(races) > 0 {
				what = strings.Join(races, "; ")
			}
			e.site(id + ":accesses-logged").Reached += len(rt.logs[ta]) + len(rt.logs[tb])
			e.assertObligation(id, mkBool(len(races) == 0), what)
			return nil
		}, true
	}
	return nil, false
}

func findRaces(A, B []raceAccess) []string {
	ordered := func(a, b raceAccess, alog []raceAccess) bool {
		// a happens-before b?
		if a.once == "" {
			return false
		}
		if b.done[a.once] {
			return true
		}
		// an atomic flag stored inside a.once after a, observed by b
		for _, s := range alog {
			if s.seq > a.seq && s.write && s.atomic && s.once == a.once && b.guards[s.name] {
				return true
			}
		}
		return false
	}
	seen := map[string]bool{}
	var out []string
	for _, a := range A {
		for _, b := range B {
			if a.name != b.name || !(a.write || b.write) || (a.atomic && b.atomic) {
				continue
			}
			if a.once != "" && a.once == b.once {
				continue // the same Once body runs in one goroutine only
			}
			if ordered(a, b, A) || ordered(b, a, B) {
				continue
			}
			k := fmt.Sprintf("%s: %s at %s vs %s at %s", a.name, rw(a), a.site, rw(b), b.site)
			if !seen[k] {
				seen[k] = true
				out = append(out, k)
			}
		}
	}
	sort.Strings(out)
	if len(out) > 4 {
		out = out[:4]
	}
	return out
}

func rw(a raceAccess) string {
	s := "read"
	if a.write {
		s = "write"
	}
	if a.atomic {
		s = "atomic " + s
	}
	return s
}
