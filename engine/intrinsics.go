package main

import (
	"fmt"
	"go/types"
	"math"
	"os"
	"strings"

	"golang.org/x/tools/go/ssa"
)

type intrinsic func(e *Exec, fn *ssa.Function, args []Value) Value

var intrinsics map[string]intrinsic

// globals whose initialiser cannot be interpreted get an override
var globalOverrides = map[string]func(e *Exec, c *Cell){}

func (e *Exec) constStr(v Value, what string) string {
	s, ok := v.(StrV)
	if !ok || !s.concrete() {
		e.abort(what + ": string argument must be concrete")
	}
	return s.goString()
}

func (e *Exec) newNondet(name string, sort Sort, kind string) *Term {
	k := e.nameCount[name]
	e.nameCount[name] = k + 1
	full := name
	if k > 0 {
		full = fmt.Sprintf("%s#%d", name, k)
	}
	t := e.fresh(sort, "n_"+full)
	e.nondets = append(e.nondets, nondet{name: full, term: t, kind: kind})
	return t
}

func nondetInt(w int, kind string) intrinsic {
	return func(e *Exec, fn *ssa.Function, args []Value) Value {
		return e.newNondet(e.constStr(args[0], fn.Name()), sBV(w), kind)
	}
}

func harnessIntrinsic(name string) (intrinsic, bool) {
	switch name {
	case "vNondetBool":
		return func(e *Exec, fn *ssa.Function, args []Value) Value {
			return e.newNondet(e.constStr(args[0], name), sBool, "bool")
		}, true
	case "vNondetInt", "vNondetInt64":
		return nondetInt(64, "i64"), true
	case "vNondetUint", "vNondetUint64":
		return nondetInt(64, "u64"), true
	case "vNondetInt32":
		return nondetInt(32, "i32"), true
	case "vNondetUint32":
		return nondetInt(32, "u32"), true
	case "vNondetInt16":
		return nondetInt(16, "i16"), true
	case "vNondetUint16":
		return nondetInt(16, "u16"), true
	case "vNondetInt8":
		return nondetInt(8, "i8"), true
	case "vNondetUint8", "vNondetByte":
		return nondetInt(8, "u8"), true
	case "vNondetFloat64":
		return func(e *Exec, fn *ssa.Function, args []Value) Value {
			b := e.newNondet(e.constStr(args[0], name), sBV(64), "f64bits")
			return e.fFromBits(b)
		}, true
	case "vNondetFloat32":
		return func(e *Exec, fn *ssa.Function, args []Value) Value {
			b := e.newNondet(e.constStr(args[0], name), sBV(32), "f32bits")
			return e.fFromBits(b)
		}, true
	case "vNondetString":
		return func(e *Exec, fn *ssa.Function, args []Value) Value {
			nm := e.constStr(args[0], name)
			n := int(e.concreteInt(args[1].(*Term), types.Typ[types.Int], "vNondetString length"))
			ts := make([]*Term, n)
			for k := range ts {
				ts[k] = e.newNondet(fmt.Sprintf("%s[%d]", nm, k), sBV(8), "u8")
			}
			if n == 0 {
				return StrV{}
			}
			return StrV{sym: ts}
		}, true
	case "vNondetBytes":
		return func(e *Exec, fn *ssa.Function, args []Value) Value {
			nm := e.constStr(args[0], name)
			n := int(e.concreteInt(args[1].(*Term), types.Typ[types.Int], "vNondetBytes length"))
			arr := e.newArr(types.Typ[types.Uint8], n)
			for k := range arr.elems {
				arr.elems[k].v = e.newNondet(fmt.Sprintf("%s[%d]", nm, k), sBV(8), "u8")
			}
			return SliceV{arr: arr, len: n, cap: n}
		}, true
	case "vNondetUint16s":
		return func(e *Exec, fn *ssa.Function, args []Value) Value {
			nm := e.constStr(args[0], name)
			n := int(e.concreteInt(args[1].(*Term), types.Typ[types.Int], "vNondetUint16s length"))
			arr := e.newArr(types.Typ[types.Uint16], n)
			for k := range arr.elems {
				arr.elems[k].v = e.newNondet(fmt.Sprintf("%s[%d]", nm, k), sBV(16), "u16")
			}
			return SliceV{arr: arr, len: n, cap: n}
		}, true
	case "vAssume":
		return func(e *Exec, fn *ssa.Function, args []Value) Value {
			e.assume(args[0].(*Term))
			return nil
		}, true
	case "vAssert":
		return func(e *Exec, fn *ssa.Function, args []Value) Value {
			id := e.constStr(args[0], name)
			e.assertObligation(id, args[1].(*Term), "")
			return nil
		}, true
	case "vAssertK":
		return func(e *Exec, fn *ssa.Function, args []Value) Value {
			id := e.constStr(args[0], name)
			kf := e.constStr(args[3], name)
			e.assertK(id, args[1].(*Term), args[2].(*Term), kf, "")
			return nil
		}, true
	case "vReach":
		return func(e *Exec, fn *ssa.Function, args []Value) Value {
			e.site("reach:" + e.constStr(args[0], name)).Reached++
			return nil
		}, true
	case "vConcretize":
		return func(e *Exec, fn *ssa.Function, args []Value) Value {
			t := args[0].(*Term)
			return mkBV(t.sort.w, e.concretize(t, "vConcretize"))
		}, true
	case "vChoice":
		// vChoice(name, n): concrete nondeterministic choice 0..n-1, forked without solver queries
		return func(e *Exec, fn *ssa.Function, args []Value) Value {
			nm := e.constStr(args[0], name)
			n := int(e.concreteInt(args[1].(*Term), types.Typ[types.Int], "vChoice n"))
			if n <= 0 {
				panic(pathEnd{kind: "infeasible"})
			}
			if e.local != nil || e.ifc != nil {
				panic(localFail{"vChoice in summarised function"})
			}
			t := e.newNondet(nm, sBV(64), "i64")
			d := e.decide(func() []uint64 {
				vals := make([]uint64, n)
				for k := range vals {
					vals[k] = uint64(k)
				}
				return vals
			})
			e.addPC(e.eq(t, mkBV(64, d)))
			return mkBV(64, d)
		}, true
	case "vBound":
		return func(e *Exec, fn *ssa.Function, args []Value) Value {
			nm := e.constStr(args[0], name)
			v, ok := e.h.Bounds[nm]
			if !ok {
				e.abort("vBound: no bound named " + nm + " for harness " + e.h.ID)
			}
			return mkBV(64, uint64(int64(v)))
		}, true
	case "vSymbolic":
		return func(e *Exec, fn *ssa.Function, args []Value) Value { return tTrue }, true
	case "vNote":
		return func(e *Exec, fn *ssa.Function, args []Value) Value {
			e.note("harness: " + e.constStr(args[0], name))
			return nil
		}, true
	case "vSample":
		// record a human-readable sample line (concrete args only)
		return func(e *Exec, fn *ssa.Function, args []Value) Value {
			return nil
		}, true
	case "vIte64":
		return func(e *Exec, fn *ssa.Function, args []Value) Value {
			return e.ite(args[0].(*Term), args[1].(*Term), args[2].(*Term))
		}, true
	case "vUF64":
		// uninterpreted function: vUF64(name string, args ...uint64) uint64
		return func(e *Exec, fn *ssa.Function, args []Value) Value {
			nm := sanitize(e.constStr(args[0], name))
			sv := args[1].(SliceV)
			ts := make([]*Term, sv.len)
			for k := range ts {
				ts[k] = sv.arr.elems[sv.off+k].v.(*Term)
			}
			return e.uf(nm, 64, ts)
		}, true
	}
	return nil, false
}

// uninterpreted function application (declared once per path per arity)
func (e *Exec) uf(name string, w int, args []*Term) *Term {
	full := fmt.Sprintf("uf_%s_%d", name, len(args))
	if len(args) == 0 {
		if !e.knownTrue["decl:"+full] {
			e.knownTrue["decl:"+full] = true
			e.solver.send(fmt.Sprintf("(declare-const %s (_ BitVec %d))", full, w))
		}
		return &Term{sort: sBV(w), s: full}
	}
	if !e.knownTrue["decl:"+full] {
		e.knownTrue["decl:"+full] = true
		var sb strings.Builder
		for _, a := range args {
			sb.WriteString(a.sort.String())
			sb.WriteByte(' ')
		}
		e.solver.send(fmt.Sprintf("(declare-fun %s (%s) (_ BitVec %d))", full, sb.String(), w))
	}
	return e.app(sBV(w), full, args...)
}

func (e *Exec) stubFor(fn *ssa.Function, name string) (intrinsic, bool) {
	if e.h != nil {
		if target, ok := e.h.Stubs[name]; ok {
			if strings.HasPrefix(target, "@") {
				return builtinStub(target[1:], name), true
			}
			tf := e.h.stubFns[name]
			if tf == nil {
				e.abort("stub target not found: " + target)
			}
			return func(e *Exec, _ *ssa.Function, args []Value) Value {
				if tr := os.Getenv("SYMGO_TRACE_STUB"); tr != "" && strings.Contains(name, tr) {
					// debugging aid: interpreted call stack at the call of a stubbed function
					fmt.Fprintf(os.Stderr, "[trace-stub] %s called from:\n", name)
					for fr := e.curFrame; fr != nil; fr = fr.caller {
						pos := ""
						if fr.cur != nil {
							pos = e.prog.Fset.Position(fr.cur.Pos()).String()
						}
						fmt.Fprintf(os.Stderr, "    %s %s\n", fr.fn.String(), pos)
					}
				}
				return e.callFunc(tf, args, nil, nil)
			}, true
		}
	}
	if fn.Pkg != nil && e.sh.harnessFiles != nil || fn.Pkg == nil {
		if strings.HasPrefix(fn.Name(), "v") {
			if h, ok := harnessIntrinsic(fn.Name()); ok && fn.Blocks == nil {
				return h, true
			}
			if h, ok := raceIntrinsic(fn.Name()); ok && fn.Blocks == nil {
				return h, true
			}
		}
	}
	return nil, false
}

// engine-provided stub kinds usable from harness.json: "@zero", "@nop", "@abort", "@arg0"
func builtinStub(kind, name string) intrinsic {
	return func(e *Exec, fn *ssa.Function, args []Value) Value {
		e.note("stub: " + name + " -> @" + kind)
		switch kind {
		case "zero", "nop":
			return e.zeroResults(fn)
		case "arg0":
			return args[0]
		case "abort":
			e.abort("call to " + name + " (declared out of scope for this harness)")
		case "infeasible":
			panic(pathEnd{kind: "infeasible"})
		}
		e.abort("unknown stub kind " + kind)
		return nil
	}
}

func f1(f func(e *Exec, a *Term) Value) intrinsic {
	return func(e *Exec, fn *ssa.Function, args []Value) Value { return f(e, args[0].(*Term)) }
}

func (e *Exec) signbit(a *Term) *Term {
	if a.konst || a.bits != nil {
		b := e.fToBits(a)
		return e.eq(e.extract(b.sort.w-1, b.sort.w-1, b), mkBV(1, 1))
	}
	nanSign := e.fresh(sBool, "nansign")
	return e.ite(e.fpred("fp.isNaN", a), nanSign, e.fpred("fp.isNegative", a))
}

func init() {
	intrinsics = map[string]intrinsic{
		// strings.Builder.Grow: an uninitialised byte slice; the zeroed one is a valid instance (callers
		// never read it before writing: its length is what they append to)
		"internal/bytealg.MakeNoZero": func(e *Exec, fn *ssa.Function, args []Value) Value {
			n := e.concreteInt(args[0].(*Term), types.Typ[types.Int], "MakeNoZero len")
			if n < 0 || n > 1<<22 {
				e.runtimePanic("makeslice: len out of range")
			}
			return SliceV{arr: e.newArr(types.Typ[types.Byte], int(n)), off: 0, len: int(n), cap: int(n)}
		},
		"math.Float64bits":     f1(func(e *Exec, a *Term) Value { return e.fToBits(a) }),
		"math.Float32bits":     f1(func(e *Exec, a *Term) Value { return e.fToBits(a) }),
		"math.Float64frombits": f1(func(e *Exec, a *Term) Value { return e.fFromBits(a) }),
		"math.Float32frombits": f1(func(e *Exec, a *Term) Value { return e.fFromBits(a) }),
		"math.IsNaN":           f1(func(e *Exec, a *Term) Value { return e.fpred("fp.isNaN", a) }),
		"math.IsInf": func(e *Exec, fn *ssa.Function, args []Value) Value {
			a, s := args[0].(*Term), args[1].(*Term)
			inf := e.fpred("fp.isInfinite", a)
			neg := e.fpred("fp.isNegative", a)
			sgt := e.bvcmp("bvsgt", s, mkBV(64, 0))
			slt := e.bvcmp("bvslt", s, mkBV(64, 0))
			return e.and(inf, e.ite(sgt, e.not(neg), e.ite(slt, neg, tTrue)))
		},
		"math.Signbit": f1(func(e *Exec, a *Term) Value { return e.signbit(a) }),
		"math.Abs":     f1(func(e *Exec, a *Term) Value { return e.fabs(a) }),
		"math.Floor":   f1(func(e *Exec, a *Term) Value { return e.fround("RTN", a) }),
		"math.Ceil":    f1(func(e *Exec, a *Term) Value { return e.fround("RTP", a) }),
		"math.Trunc":   f1(func(e *Exec, a *Term) Value { return e.fround("RTZ", a) }),
		"math.RoundToEven": f1(func(e *Exec, a *Term) Value { return e.fround("RNE", a) }),
		"math.Round":   f1(func(e *Exec, a *Term) Value { return e.fround("RNA", a) }),
		"math.Sqrt":    f1(func(e *Exec, a *Term) Value { return e.fsqrt(a) }),
		"math.sqrt":    f1(func(e *Exec, a *Term) Value { return e.fsqrt(a) }),
		"math.NaN":     func(e *Exec, fn *ssa.Function, args []Value) Value { return mkF64(math.NaN()) },
		"math.Inf": func(e *Exec, fn *ssa.Function, args []Value) Value {
			s := args[0].(*Term)
			return e.ite(e.bvcmp("bvsge", s, mkBV(64, 0)), mkF64(math.Inf(1)), mkF64(math.Inf(-1)))
		},
		"math.Copysign": func(e *Exec, fn *ssa.Function, args []Value) Value {
			a, b := args[0].(*Term), args[1].(*Term)
			abs := e.fabs(a)
			return e.ite(e.signbit(b), e.fneg(abs), abs)
		},
		"math.Modf": func(e *Exec, fn *ssa.Function, args []Value) Value {
			a := args[0].(*Term)
			ip := e.fround("RTZ", a)
			fr := e.fbin("fp.sub", a, ip)
			fr = e.ite(e.fpred("fp.isInfinite", a), mkF64(math.NaN()), fr)
			// sign of a zero fraction follows the argument
			zero := e.fpred("fp.isZero", fr)
			fr = e.ite(zero, e.ite(e.signbit(a), mkF64(math.Copysign(0, -1)), mkF64(0)), fr)
			return TupleV{ip, fr}
		},
		"internal/abi.NoEscape": func(e *Exec, fn *ssa.Function, args []Value) Value { return args[0] },
		"internal/abi.Escape":   func(e *Exec, fn *ssa.Function, args []Value) Value { return args[0] },
		"(*sync.Mutex).Lock":    nop,
		"(*sync.Mutex).Unlock":  nop,
		"(*sync.RWMutex).Lock":    nop,
		"(*sync.RWMutex).Unlock":  nop,
		"(*sync.RWMutex).RLock":   nop,
		"(*sync.RWMutex).RUnlock": nop,
		"(*sync.Once).Do": func(e *Exec, fn *ssa.Function, args []Value) Value {
			c := args[0].(*Cell)
			key := fmt.Sprintf("once:%d", c.id)
			oname := key
			if e.race != nil {
				if n, ok := e.race.names[c]; ok {
					oname = n
				}
			}
			if _, done := e.effects[key]; done {
				if e.race != nil && e.race.active {
					e.race.done[oname] = true
				}
				return nil
			}
			e.effects[key] = tTrue
			if e.race != nil && e.race.active {
				save := e.race.curOnce
				e.race.curOnce = oname
				e.callValue(args[1].(*FuncV), nil, nil)
				e.race.curOnce = save
				e.race.done[oname] = true
				return nil
			}
			e.callValue(args[1].(*FuncV), nil, nil)
			return nil
		},
		"runtime.KeepAlive": nop,
		"runtime.Callers":   func(e *Exec, fn *ssa.Function, args []Value) Value { return mkBV(64, 0) },
		"runtime.GC":        nop,
		"fmt.Sprintf":       fmtStub,
		"fmt.Sprint":        fmtStub,
		"fmt.Sprintln":      fmtStub,
		"fmt.Errorf": func(e *Exec, fn *ssa.Function, args []Value) Value {
			e.note("stub: fmt.Errorf returns an opaque error")
			t := e.lookupType("errors", "errorString")
			c := e.newCell(t)
			e.store(c, StructV{fields: []Value{StrV{s: "<fmt.Errorf>"}}})
			return IfaceV{t: types.NewPointer(t), v: c}
		},
		"fmt.Println": func(e *Exec, fn *ssa.Function, args []Value) Value { return e.zeroResults(fn) },
		"fmt.Printf":  func(e *Exec, fn *ssa.Function, args []Value) Value { return e.zeroResults(fn) },
		"fmt.Fprintf": func(e *Exec, fn *ssa.Function, args []Value) Value { return e.zeroResults(fn) },
		"internal/bytealg.IndexByteString": func(e *Exec, fn *ssa.Function, args []Value) Value {
			return e.indexByte(args[0].(StrV).terms(), args[1].(*Term))
		},
		"internal/bytealg.IndexByte": func(e *Exec, fn *ssa.Function, args []Value) Value {
			return e.indexByte(e.sliceTerms(args[0].(SliceV)), args[1].(*Term))
		},
		"internal/bytealg.CountString": func(e *Exec, fn *ssa.Function, args []Value) Value {
			return e.countByte(args[0].(StrV).terms(), args[1].(*Term))
		},
		"internal/bytealg.Count": func(e *Exec, fn *ssa.Function, args []Value) Value {
			return e.countByte(e.sliceTerms(args[0].(SliceV)), args[1].(*Term))
		},
		"internal/bytealg.Equal": func(e *Exec, fn *ssa.Function, args []Value) Value {
			return e.strEq(strFromTerms(e.sliceTerms(args[0].(SliceV))), strFromTerms(e.sliceTerms(args[1].(SliceV))))
		},
		"bytes.Equal": func(e *Exec, fn *ssa.Function, args []Value) Value {
			return e.strEq(strFromTerms(e.sliceTerms(args[0].(SliceV))), strFromTerms(e.sliceTerms(args[1].(SliceV))))
		},
		"internal/stringslite.Index": nil,
		"(*sync/atomic.Uint32).Load": atomicLoadField,
		"(*sync/atomic.Int32).Load":  atomicLoadField,
		"(*sync/atomic.Bool).Load": func(e *Exec, fn *ssa.Function, args []Value) Value {
			c := args[0].(*Cell).v.(*StructM).fields[1]
			return e.not(e.eq(c.v.(*Term), mkBV(32, 0)))
		},
		"sync/atomic.LoadUint32":  atomicLoad,
		"sync/atomic.LoadInt32":   atomicLoad,
		"sync/atomic.LoadInt64":   atomicLoad,
		"sync/atomic.LoadUint64":  atomicLoad,
		"sync/atomic.StoreUint32": atomicStore,
		"sync/atomic.StoreInt32":  atomicStore,
		"sync/atomic.StoreInt64":  atomicStore,
		"sync/atomic.StoreUint64": atomicStore,
		"sync/atomic.AddInt32":    atomicAdd,
		"sync/atomic.AddUint32":   atomicAdd,
		"sync/atomic.AddInt64":    atomicAdd,
		"sync/atomic.AddUint64":   atomicAdd,
		"sync/atomic.CompareAndSwapUint32": atomicCAS,
		"sync/atomic.CompareAndSwapInt32":  atomicCAS,
		"sync/atomic.CompareAndSwapInt64":  atomicCAS,
	}
	delete(intrinsics, "internal/stringslite.Index")
}

func nop(e *Exec, fn *ssa.Function, args []Value) Value { return e.zeroResults(fn) }

func fmtStub(e *Exec, fn *ssa.Function, args []Value) Value {
	e.note("stub: fmt.Sprint* returns the opaque string \"<fmt>\"")
	return StrV{s: "<fmt>"}
}

func (e *Exec) atomically(f func() Value, flagCell Value) Value {
	if e.race == nil || !e.race.active {
		return f()
	}
	save := e.race.inAtomic
	e.race.inAtomic = true
	v := f()
	e.race.inAtomic = save
	// an atomic load that observed a non-zero flag is a guard for later accesses
	if c, ok := flagCell.(*Cell); ok && c != nil {
		if t, isT := v.(*Term); isT && t.konst && t.c != 0 {
			if n, ok := e.race.names[c]; ok {
				e.race.guards[n] = true
			}
		}
	}
	return v
}

func atomicLoad(e *Exec, fn *ssa.Function, args []Value) Value {
	return e.atomically(func() Value { return e.loadFrom(args[0], nil) }, args[0])
}
func atomicLoadField(e *Exec, fn *ssa.Function, args []Value) Value {
	sm := args[0].(*Cell).v.(*StructM)
	return sm.fields[len(sm.fields)-1].v
}
func atomicStore(e *Exec, fn *ssa.Function, args []Value) Value {
	e.atomically(func() Value { e.storeTo(args[0], args[1]); return nil }, nil)
	return nil
}
func atomicAdd(e *Exec, fn *ssa.Function, args []Value) Value {
	old := e.loadFrom(args[0], nil).(*Term)
	nv := e.bvbin("bvadd", old, args[1].(*Term))
	e.storeTo(args[0], nv)
	return nv
}
func atomicCAS(e *Exec, fn *ssa.Function, args []Value) Value {
	old := e.loadFrom(args[0], nil).(*Term)
	eq := e.eq(old, args[1].(*Term))
	if e.branch(eq) {
		e.storeTo(args[0], args[2])
		return tTrue
	}
	return tFalse
}

func (e *Exec) sliceTerms(s SliceV) []*Term {
	ts := make([]*Term, s.len)
	for k := range ts {
		ts[k] = s.arr.elems[s.off+k].v.(*Term)
	}
	return ts
}

func (e *Exec) indexByte(ts []*Term, c *Term) Value {
	acc := mkBV(64, ^uint64(0))
	for k := len(ts) - 1; k >= 0; k-- {
		acc = e.ite(e.eq(ts[k], c), mkBV(64, uint64(k)), acc)
	}
	return acc
}

func (e *Exec) countByte(ts []*Term, c *Term) Value {
	acc := mkBV(64, 0)
	for _, t := range ts {
		acc = e.bvbin("bvadd", acc, e.ite(e.eq(t, c), mkBV(64, 1), mkBV(64, 0)))
	}
	return acc
}
