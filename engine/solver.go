package main

import (
	"bufio"
	"fmt"
	"io"
	"os"
	"os/exec"
	"strings"
	"time"
)

// One long-lived `z3 -in` process. Commands that produce no output are buffered;
// check-sat / get-value flush and read.

type Solver struct {
	bin     string
	cmd     *exec.Cmd
	in      *bufio.Writer
	out     *bufio.Reader
	log     *os.File
	timeout int // ms per check-sat
	queries int
	time    time.Duration
	errors  int
	lastErr string
	// transcript of everything sent since the last reset (for cross-checking)
	ctx []string
}

func newSolver(bin string, timeoutMs int, logPath string) *Solver {
	s := &Solver{bin: bin, timeout: timeoutMs}
	if logPath != "" {
		f, err := os.Create(logPath)
		if err == nil {
			s.log = f
		}
	}
	s.start()
	return s
}

func (s *Solver) start() {
	args := []string{"-in"}
	if strings.Contains(s.bin, "cvc5") {
		args = []string{"--incremental", "--lang=smt2", "--produce-models", fmt.Sprintf("--tlimit-per=%d", s.timeout)}
	}
	s.cmd = exec.Command(s.bin, args...)
	w, _ := s.cmd.StdinPipe()
	r, _ := s.cmd.StdoutPipe()
	s.cmd.Stderr = nil
	if err := s.cmd.Start(); err != nil {
		panic(err)
	}
	s.in = bufio.NewWriterSize(w, 1<<16)
	s.out = bufio.NewReaderSize(r, 1<<16)
	s.prelude()
}

func (s *Solver) prelude() {
	if strings.Contains(s.bin, "cvc5") {
		s.raw("(set-logic ALL)")
		return
	}
	s.raw(fmt.Sprintf("(set-option :timeout %d)", s.timeout))
}

// send: context lines (declarations, definitions, path-condition assertions) are only recorded;
// every check-sat is a one-shot query "(reset) + context + extra" so that z3 applies its
// non-incremental tactics (bit-blasting for BV/FP), which are several times faster here.
func (s *Solver) send(line string) {
	s.ctx = append(s.ctx, line)
}

func (s *Solver) raw(line string) {
	s.in.WriteString(line)
	s.in.WriteByte('\n')
	if s.log != nil {
		s.log.WriteString(line)
		s.log.WriteString("\n")
	}
}

func (s *Solver) reset() {
	s.ctx = s.ctx[:0]
}

func (s *Solver) readLine() string {
	for {
		line, err := s.out.ReadString('\n')
		if err != nil {
			if err == io.EOF {
				return "(error \"solver died\")"
			}
			return "(error \"read\")"
		}
		line = strings.TrimSpace(line)
		if line == "" {
			continue
		}
		return line
	}
}

// readSexp reads a complete s-expression (possibly multi-line)
func (s *Solver) readSexp() string {
	var sb strings.Builder
	depth := 0
	started := false
	for {
		line, err := s.out.ReadString('\n')
		if err != nil {
			return sb.String()
		}
		for _, c := range line {
			if c == '(' {
				depth++
				started = true
			} else if c == ')' {
				depth--
			}
		}
		sb.WriteString(line)
		if started && depth <= 0 {
			return sb.String()
		}
		if !started && strings.TrimSpace(line) != "" {
			return sb.String()
		}
	}
}

type satResult int

const (
	rUnsat satResult = iota
	rSat
	rUnknown
)

func (r satResult) String() string { return [...]string{"unsat", "sat", "unknown"}[r] }

// check: (push)(assert extra)(check-sat) ... caller must call popQuery after reading the model.
func (s *Solver) checkPushed(extra []*Term) satResult {
	t0 := time.Now()
	s.raw("(reset)")
	s.prelude()
	for _, l := range s.ctx {
		s.raw(l)
	}
	for _, x := range extra {
		s.raw("(assert " + x.s + ")")
	}
	s.raw("(check-sat)")
	s.in.Flush()
	s.queries++
	var res satResult
	for {
		line := s.readLine()
		if strings.HasPrefix(line, "(error") {
			s.errors++
			s.lastErr = line
			if strings.Contains(line, "solver died") {
				res = rUnknown
				break
			}
			continue // z3 continues after errors; result follows
		}
		switch line {
		case "sat":
			res = rSat
		case "unsat":
			res = rUnsat
		default:
			res = rUnknown
		}
		break
	}
	s.time += time.Since(t0)
	return res
}

func (s *Solver) pop() {}

// getValues returns name->raw value text for the given constant names (must be in sat state)
func (s *Solver) getValues(names []string) map[string]string {
	res := map[string]string{}
	const chunk = 50
	for i := 0; i < len(names); i += chunk {
		j := i + chunk
		if j > len(names) {
			j = len(names)
		}
		s.raw("(get-value (" + strings.Join(names[i:j], " ") + "))")
		s.in.Flush()
		txt := s.readSexp()
		if strings.HasPrefix(strings.TrimSpace(txt), "(error") {
			s.errors++
			s.lastErr = txt
			continue
		}
		parseGetValue(txt, res)
	}
	return res
}

// parse "((a #x01) (b true) (c (fp ...)))"
func parseGetValue(txt string, out map[string]string) {
	toks := tokenize(txt)
	pos := 0
	var parse func() interface{}
	parse = func() interface{} {
		if pos >= len(toks) {
			return nil
		}
		t := toks[pos]
		pos++
		if t == "(" {
			var l []interface{}
			for pos < len(toks) && toks[pos] != ")" {
				l = append(l, parse())
			}
			pos++
			return l
		}
		return t
	}
	top, _ := parse().([]interface{})
	for _, p := range top {
		pair, ok := p.([]interface{})
		if !ok || len(pair) != 2 {
			continue
		}
		name, _ := pair[0].(string)
		out[name] = sexpString(pair[1])
	}
}

func sexpString(x interface{}) string {
	switch v := x.(type) {
	case string:
		return v
	case []interface{}:
		parts := make([]string, len(v))
		for i, y := range v {
			parts[i] = sexpString(y)
		}
		return "(" + strings.Join(parts, " ") + ")"
	}
	return ""
}

func tokenize(s string) []string {
	var toks []string
	i := 0
	for i < len(s) {
		c := s[i]
		switch {
		case c == '(' || c == ')':
			toks = append(toks, string(c))
			i++
		case c == ' ' || c == '\n' || c == '\t' || c == '\r':
			i++
		case c == '|':
			j := i + 1
			for j < len(s) && s[j] != '|' {
				j++
			}
			toks = append(toks, s[i:j+1])
			i = j + 1
		default:
			j := i
			for j < len(s) && s[j] != '(' && s[j] != ')' && s[j] != ' ' && s[j] != '\n' && s[j] != '\t' && s[j] != '\r' {
				j++
			}
			toks = append(toks, s[i:j])
			i = j
		}
	}
	return toks
}

func (s *Solver) close() {
	if s.cmd != nil && s.cmd.Process != nil {
		s.raw("(exit)")
		s.in.Flush()
		done := make(chan struct{})
		go func() { s.cmd.Wait(); close(done) }()
		select {
		case <-done:
		case <-time.After(2 * time.Second):
			s.cmd.Process.Kill()
		}
	}
	if s.log != nil {
		s.log.Close()
	}
}

// parse a bit-vector model value (#x.. / #b..) to uint64
func parseBV(v string) (uint64, bool) {
	var r uint64
	if strings.HasPrefix(v, "#x") {
		_, err := fmt.Sscanf(v[2:], "%x", &r)
		return r, err == nil
	}
	if strings.HasPrefix(v, "#b") {
		for _, c := range v[2:] {
			r = r<<1 | uint64(c-'0')
		}
		return r, true
	}
	if v == "true" {
		return 1, true
	}
	if v == "false" {
		return 0, true
	}
	return 0, false
}
