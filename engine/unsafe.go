package main

import (
	"fmt"
	"go/types"

	"golang.org/x/tools/go/ssa"
)

// Unsafe pointers: (array object, base element, byte offset). Every dereference carries the
// obligation "inside the originating slice's storage"; a feasible violation is reported as
// assertion id "unsafe-deref-in-bounds" (memory unsafety, not a Go panic).

func (e *Exec) cellToUPtr(c *Cell, from types.Type) *UPtr {
	if c.parent != nil {
		return &UPtr{arr: c.parent, base: c.pidx, off: mkBV(64, 0), lim: len(c.parent.elems) - c.pidx, t: from}
	}
	return &UPtr{cell: c, off: mkBV(64, 0), t: from}
}

func (e *Exec) symPtrToUPtr(p *SymPtr, from types.Type) *UPtr {
	if len(p.cells) == 0 || p.cells[0].parent == nil {
		return e.cellToUPtr(e.derefCell(p), from)
	}
	arr := p.cells[0].parent
	base := p.cells[0].pidx
	esz := e.sizeof(arr.et)
	return &UPtr{arr: arr, base: base, off: e.bvbin("bvmul", p.idx, mkBV(64, uint64(esz))), lim: len(p.cells), t: from}
}

func (e *Exec) arrID(a *ArrM) int {
	if a.id == 0 {
		e.arrCtr++
		a.id = e.arrCtr
	}
	return a.id
}

func (e *Exec) uptrAddr(p *UPtr) *Term {
	if p.cell != nil {
		return e.bvbin("bvadd", mkBV(64, 0x7f0000000000+uint64(p.cell.id)*4096), p.off)
	}
	if p.arr == nil {
		return p.off
	}
	esz := e.sizeof(p.arr.et)
	return e.bvbin("bvadd", mkBV(64, 0xc000000000+uint64(e.arrID(p.arr))<<24+uint64(p.base*esz)), p.off)
}

// Convert(unsafe.Pointer -> *T)
func (e *Exec) uptrToTyped(p *UPtr, to types.Type) Value {
	et := to.(*types.Pointer).Elem()
	if p.cell != nil {
		if !p.off.konst || p.off.c != 0 {
			e.abort("offset pointer into scalar cell")
		}
		cv, isT := p.cell.v.(*Term)
		if at, ok := under(et).(*types.Array); ok && isT {
			// reinterpret a scalar as bytes (snapshot, read-only)
			n := int(at.Len())
			esz := e.sizeof(at.Elem())
			bits := cv
			if bits.sort.k != kBV {
				bits = e.fToBits(bits)
			}
			if n*esz*8 != bits.sort.w {
				e.abort("scalar reinterpretation size mismatch")
			}
			arr := &ArrM{elems: make([]*Cell, n), et: at.Elem()}
			for k := 0; k < n; k++ {
				arr.elems[k] = &Cell{v: e.extract((k+1)*esz*8-1, k*esz*8, bits), parent: arr, pidx: k, ro: true}
			}
			e.note("unsafe: scalar reinterpreted as byte array by snapshot (read-only)")
			return &Cell{v: arr}
		}
		if isT {
			if s, _, ok := basicInfo(et); ok && s.w == cv.sort.w && s.k == cv.sort.k {
				return p.cell
			}
		}
		return p.cell
	}
	if p.arr == nil {
		q := *p
		q.t = to
		return &q
	}
	// same element type and concrete in-range offset: hand out the real cell
	if types.Identical(under(et), under(p.arr.et)) && p.off.konst {
		esz := e.sizeof(p.arr.et)
		o := int(int64(p.off.c))
		if o >= 0 && o%esz == 0 && o/esz < p.lim {
			return p.arr.elems[p.base+o/esz]
		}
	}
	q := *p
	q.t = to
	return &q
}

// in-bounds obligation; returns false if execution must stop on this path
func (e *Exec) unsafeBounds(p *UPtr, size int, what string) {
	if p.arr == nil {
		e.unsafeViolation(what+": dereference of pointer derived from nil/detached storage", tFalse)
		return
	}
	esz := e.sizeof(p.arr.et)
	limit := uint64(p.lim * esz)
	if uint64(size) > limit {
		e.unsafeViolation(what+": access wider than storage", tFalse)
		return
	}
	ok := e.bvcmp("bvule", p.off, mkBV(64, limit-uint64(size)))
	e.unsafeViolation(what, ok)
}

func (e *Exec) unsafeViolation(what string, ok *Term) {
	e.assertObligation("unsafe-deref-in-bounds", ok, what)
}

func (e *Exec) byteAt(p *UPtr, j int) *Term {
	// byte at p.off + j  (arr elements are bytes)
	n := p.lim
	cells := p.arr.elems[p.base : p.base+n]
	if p.off.konst {
		return cells[int(p.off.c)+j].v.(*Term)
	}
	var acc *Term
	for k := n - 1; k >= j; k-- {
		v := cells[k].v.(*Term)
		if acc == nil {
			acc = v
		} else {
			acc = e.ite(e.eq(p.off, mkBV(64, uint64(k-j))), v, acc)
		}
	}
	return acc
}

func (e *Exec) unsafeLoad(p *UPtr, t types.Type) Value {
	if p == nil {
		e.runtimePanic("nil pointer dereference")
	}
	s, _, ok := basicInfo(t)
	if !ok {
		e.abort(fmt.Sprintf("unsafe load of %v", t))
	}
	size := s.w / 8
	if s.k == kBool {
		size = 1
	}
	e.unsafeBounds(p, size, fmt.Sprintf("load of %d bytes", size))
	esz := e.sizeof(p.arr.et)
	if esz != 1 {
		if esz == size && p.off.konst {
			v := p.arr.elems[p.base+int(p.off.c)/esz].v.(*Term)
			return e.reinterpret(v, s)
		}
		e.abort("unsafe load from non-byte storage")
	}
	var word *Term
	for j := 0; j < size; j++ {
		b := e.byteAt(p, j)
		if word == nil {
			word = b
		} else {
			word = e.concat(b, word)
		}
	}
	return e.reinterpret(word, s)
}

func (e *Exec) reinterpret(v *Term, s Sort) *Term {
	if v.sort == s {
		return v
	}
	if v.sort.k != kBV {
		v = e.fToBits(v)
	}
	switch s.k {
	case kF64, kF32:
		return e.fFromBits(v)
	case kBool:
		return e.not(e.eq(v, mkBV(v.sort.w, 0)))
	}
	return v
}

func (e *Exec) unsafeStore(p *UPtr, v Value) {
	if p == nil {
		e.runtimePanic("nil pointer dereference")
	}
	tv, ok := v.(*Term)
	if !ok {
		e.abort(fmt.Sprintf("unsafe store of %T", v))
	}
	if tv.sort.k == kF64 || tv.sort.k == kF32 {
		tv = e.fToBits(tv)
	}
	if tv.sort.k == kBool {
		tv = e.boolToBV(tv, 8)
	}
	size := tv.sort.w / 8
	e.unsafeBounds(p, size, fmt.Sprintf("store of %d bytes", size))
	if p.ro {
		e.abort("store through pointer to string data")
	}
	esz := e.sizeof(p.arr.et)
	if esz != 1 {
		if esz == size && p.off.konst {
			c := p.arr.elems[p.base+int(p.off.c)/esz]
			c.v = e.reinterpret(tv, c.v.(*Term).sort)
			return
		}
		e.abort("unsafe store into non-byte storage")
	}
	cells := p.arr.elems[p.base : p.base+p.lim]
	if p.off.konst {
		o := int(p.off.c)
		for j := 0; j < size; j++ {
			cells[o+j].v = e.extract(j*8+7, j*8, tv)
		}
		return
	}
	for k, c := range cells {
		nv := c.v.(*Term)
		for j := 0; j < size && j <= k; j++ {
			nv = e.ite(e.eq(p.off, mkBV(64, uint64(k-j))), e.extract(j*8+7, j*8, tv), nv)
		}
		c.v = nv
	}
}

// unsafe.Slice(ptr, len)
func (e *Exec) unsafeSlice(ptr Value, n *Term, b *ssa.Builtin) Value {
	sig := b.Type().(*types.Signature)
	pt := sig.Params().At(0).Type().(*types.Pointer).Elem()
	_, signed, _ := basicInfo(sig.Params().At(1).Type())
	var n64 *Term
	if signed {
		n64 = e.sext(n, 64)
	} else {
		n64 = e.zext(n, 64)
	}
	switch p := ptr.(type) {
	case *Cell:
		if p == nil {
			if !e.branch(e.eq(n64, mkBV(64, 0))) {
				e.runtimePanic("unsafe.Slice: ptr is nil and len is not zero")
			}
			return SliceV{}
		}
		if p.parent == nil {
			e.abort("unsafe.Slice of stand-alone cell")
		}
		avail := len(p.parent.elems) - p.pidx
		okc := e.bvcmp("bvule", n64, mkBV(64, uint64(avail)))
		e.assertObligation("unsafe-deref-in-bounds", okc, "unsafe.Slice longer than storage")
		k := int(e.concretize(n64, "unsafe.Slice len"))
		return SliceV{arr: p.parent, off: p.pidx, len: k, cap: k}
	case *UPtr:
		if p == nil {
			if !e.branch(e.eq(n64, mkBV(64, 0))) {
				e.runtimePanic("unsafe.Slice: ptr is nil and len is not zero")
			}
			return SliceV{}
		}
		if p.arr == nil {
			e.assertObligation("unsafe-deref-in-bounds", e.eq(n64, mkBV(64, 0)), "unsafe.Slice over nil/detached storage")
			return SliceV{}
		}
		k := int(e.concretize(n64, "unsafe.Slice len"))
		size := e.sizeof(pt)
		esz := e.sizeof(p.arr.et)
		total := k * size
		if total == 0 {
			return SliceV{arr: e.newArr(pt, 0)}
		}
		okc := e.bvcmp("bvule", p.off, mkBV(64, uint64(p.lim*esz-total)))
		if p.lim*esz < total {
			okc = tFalse
		}
		e.assertObligation("unsafe-deref-in-bounds", okc, "unsafe.Slice longer than storage")
		if esz == size && p.off.konst && int(p.off.c)%esz == 0 {
			return SliceV{arr: p.arr, off: p.base + int(p.off.c)/esz, len: k, cap: k}
		}
		// reinterpreting snapshot
		o := int(e.concretize(p.off, "unsafe.Slice offset"))
		bytes := e.bytesOf(p.arr, p.base*esz+o, total)
		arr := e.arrFromBytes(bytes, pt, k)
		e.note("unsafe: reinterpreting unsafe.Slice modelled as read-only snapshot")
		return SliceV{arr: arr, off: 0, len: k, cap: k}
	}
	e.abort(fmt.Sprintf("unsafe.Slice of %T", ptr))
	return nil
}

// little-endian byte terms [start, start+n) of arr's storage
func (e *Exec) bytesOf(arr *ArrM, start, n int) []*Term {
	esz := e.sizeof(arr.et)
	out := make([]*Term, n)
	for k := 0; k < n; k++ {
		pos := start + k
		el := arr.elems[pos/esz].v.(*Term)
		if el.sort.k != kBV {
			el = e.fToBits(el)
		}
		sh := (pos % esz) * 8
		out[k] = e.extract(sh+7, sh, el)
	}
	return out
}

func (e *Exec) arrFromBytes(bytes []*Term, et types.Type, n int) *ArrM {
	s, _, ok := basicInfo(et)
	if !ok {
		e.abort("reinterpretation to non-scalar element")
	}
	size := s.w / 8
	arr := &ArrM{elems: make([]*Cell, n), et: et}
	for k := 0; k < n; k++ {
		var word *Term
		for j := 0; j < size; j++ {
			b := bytes[k*size+j]
			if word == nil {
				word = b
			} else {
				word = e.concat(b, word)
			}
		}
		arr.elems[k] = &Cell{v: e.reinterpret(word, s), parent: arr, pidx: k, ro: true}
	}
	return arr
}

// unsafe.String(ptr *byte, len)
func (e *Exec) unsafeString(ptr Value, n *Term) Value {
	n64 := e.sext(n, 64)
	switch p := ptr.(type) {
	case *Cell:
		if p == nil {
			return StrV{}
		}
		k := int(e.concretize(n64, "unsafe.String len"))
		if p.parent == nil || p.pidx+k > len(p.parent.elems) {
			e.assertObligation("unsafe-deref-in-bounds", tFalse, "unsafe.String longer than storage")
			return StrV{}
		}
		ts := make([]*Term, k)
		for j := 0; j < k; j++ {
			ts[j] = p.parent.elems[p.pidx+j].v.(*Term)
		}
		return strFromTerms(ts)
	case *UPtr:
		if p == nil || p.arr == nil {
			return StrV{}
		}
		k := int(e.concretize(n64, "unsafe.String len"))
		esz := e.sizeof(p.arr.et)
		o := int(e.concretize(p.off, "unsafe.String offset"))
		if o+k > p.lim*esz {
			e.assertObligation("unsafe-deref-in-bounds", tFalse, "unsafe.String longer than storage")
			return StrV{}
		}
		return strFromTerms(e.bytesOf(p.arr, p.base*esz+o, k))
	}
	e.abort(fmt.Sprintf("unsafe.String of %T", ptr))
	return nil
}
