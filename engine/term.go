package main

// Hash-consed-by-text SMT-LIB2 terms with aggressive constant folding.
// Sorts: Bool, (_ BitVec w) for w<=64, Float64, Float32.

import (
	"fmt"
	"math"
	"math/bits"
	"strings"
)

type sortKind uint8

const (
	kBool sortKind = iota
	kBV
	kF64
	kF32
)

type Sort struct {
	k sortKind
	w int
}

func (s Sort) String() string {
	switch s.k {
	case kBool:
		return "Bool"
	case kBV:
		return fmt.Sprintf("(_ BitVec %d)", s.w)
	case kF64:
		return "(_ FloatingPoint 11 53)"
	case kF32:
		return "(_ FloatingPoint 8 24)"
	}
	return "?"
}

var sBool = Sort{kBool, 0}
var sF64 = Sort{kF64, 64}
var sF32 = Sort{kF32, 32}

func sBV(w int) Sort { return Sort{kBV, w} }

type Term struct {
	sort  Sort
	konst bool
	c     uint64 // value for bool(0/1), bv (masked), float bits
	s     string // SMT text
	bits  *Term  // optional exact bit view for FP terms (BV of same width)
	neg   *Term  // cached negation for bool terms
}

func (t *Term) String() string { return t.s }

func mask(w int) uint64 {
	if w >= 64 {
		return ^uint64(0)
	}
	return (uint64(1) << uint(w)) - 1
}

var tTrue = &Term{sort: sBool, konst: true, c: 1, s: "true"}
var tFalse = &Term{sort: sBool, konst: true, c: 0, s: "false"}

func mkBool(b bool) *Term {
	if b {
		return tTrue
	}
	return tFalse
}

func bvLit(w int, v uint64) string {
	v &= mask(w)
	if w%4 == 0 {
		return fmt.Sprintf("#x%0*x", w/4, v)
	}
	return fmt.Sprintf("#b%0*b", w, v)
}

func mkBV(w int, v uint64) *Term {
	v &= mask(w)
	return &Term{sort: sBV(w), konst: true, c: v, s: bvLit(w, v)}
}

func mkF64(f float64) *Term {
	b := math.Float64bits(f)
	return mkF64bits(b)
}

func mkF64bits(b uint64) *Term {
	return &Term{sort: sF64, konst: true, c: b, s: fmt.Sprintf("((_ to_fp 11 53) %s)", bvLit(64, b))}
}

func mkF32(f float32) *Term {
	b := math.Float32bits(f)
	return &Term{sort: sF32, konst: true, c: uint64(b), s: fmt.Sprintf("((_ to_fp 8 24) %s)", bvLit(32, uint64(b)))}
}

func (t *Term) f64() float64 { return math.Float64frombits(t.c) }
func (t *Term) f32() float32 { return math.Float32frombits(uint32(t.c)) }

// signed value of a constant bv
func (t *Term) sval() int64 {
	w := t.sort.w
	v := t.c
	if w < 64 && v&(1<<uint(w-1)) != 0 {
		v |= ^mask(w)
	}
	return int64(v)
}

// ---------------------------------------------------------------------
// Term builder bound to an Exec (for naming of large terms)

const nameThreshold = 160

func (e *Exec) mk(sort Sort, s string) *Term {
	if len(s) > nameThreshold {
		e.nameCtr++
		n := fmt.Sprintf("$t%d", e.nameCtr)
		e.solver.send(fmt.Sprintf("(define-fun %s () %s %s)", n, sort.String(), s))
		s = n
	}
	return &Term{sort: sort, s: s}
}

func (e *Exec) app(sort Sort, op string, args ...*Term) *Term {
	var sb strings.Builder
	sb.WriteByte('(')
	sb.WriteString(op)
	for _, a := range args {
		sb.WriteByte(' ')
		sb.WriteString(a.s)
	}
	sb.WriteByte(')')
	return e.mk(sort, sb.String())
}

func (e *Exec) fresh(sort Sort, hint string) *Term {
	if e.local != nil || e.ifc != nil {
		panic(localFail{"fresh symbol in summarised function"})
	}
	e.freshCtr++
	n := fmt.Sprintf("%s!%d", sanitize(hint), e.freshCtr)
	e.solver.send(fmt.Sprintf("(declare-const %s %s)", n, sort.String()))
	return &Term{sort: sort, s: n}
}

func sanitize(s string) string {
	var sb strings.Builder
	for _, r := range s {
		if r >= 'a' && r <= 'z' || r >= 'A' && r <= 'Z' || r >= '0' && r <= '9' || r == '_' || r == '.' {
			sb.WriteRune(r)
		} else {
			sb.WriteByte('_')
		}
	}
	if sb.Len() == 0 {
		return "v"
	}
	return sb.String()
}

// ---- bool ----

func (e *Exec) not(a *Term) *Term {
	if a.konst {
		return mkBool(a.c == 0)
	}
	if a.neg != nil {
		return a.neg
	}
	r := e.app(sBool, "not", a)
	r.neg = a
	a.neg = r
	return r
}

func (e *Exec) and(a, b *Term) *Term {
	if a.konst {
		if a.c == 0 {
			return tFalse
		}
		return b
	}
	if b.konst {
		if b.c == 0 {
			return tFalse
		}
		return a
	}
	if a.s == b.s {
		return a
	}
	return e.app(sBool, "and", a, b)
}

func (e *Exec) or(a, b *Term) *Term {
	if a.konst {
		if a.c == 1 {
			return tTrue
		}
		return b
	}
	if b.konst {
		if b.c == 1 {
			return tTrue
		}
		return a
	}
	if a.s == b.s {
		return a
	}
	return e.app(sBool, "or", a, b)
}

func (e *Exec) ite(c, a, b *Term) *Term {
	if c.konst {
		if c.c == 1 {
			return a
		}
		return b
	}
	if a.s == b.s && a.sort == b.sort {
		return a
	}
	if a.sort.k == kBool {
		if a.konst && b.konst {
			if a.c == 1 {
				return c
			}
			return e.not(c)
		}
	}
	return e.app(a.sort, "ite", c, a, b)
}

func (e *Exec) eq(a, b *Term) *Term {
	if a.sort != b.sort {
		panic(fmt.Sprintf("eq sort mismatch %v %v (%s, %s)", a.sort, b.sort, a.s, b.s))
	}
	switch a.sort.k {
	case kF64, kF32:
		return e.fcmp("fp.eq", a, b)
	}
	if a.konst && b.konst {
		return mkBool(a.c == b.c)
	}
	if a.s == b.s {
		return tTrue
	}
	if a.sort.k == kBool {
		if a.konst {
			if a.c == 1 {
				return b
			}
			return e.not(b)
		}
		if b.konst {
			if b.c == 1 {
				return a
			}
			return e.not(a)
		}
	}
	return e.app(sBool, "=", a, b)
}

// ---- bit-vectors ----

func (e *Exec) bvbin(op string, a, b *Term) *Term {
	if a.sort != b.sort {
		panic(fmt.Sprintf("bvbin %s sort mismatch %v %v", op, a.sort, b.sort))
	}
	w := a.sort.w
	if a.konst && b.konst {
		x, y := a.c, b.c
		switch op {
		case "bvadd":
			return mkBV(w, x+y)
		case "bvsub":
			return mkBV(w, x-y)
		case "bvmul":
			return mkBV(w, x*y)
		case "bvand":
			return mkBV(w, x&y)
		case "bvor":
			return mkBV(w, x|y)
		case "bvxor":
			return mkBV(w, x^y)
		case "bvudiv":
			if y != 0 {
				return mkBV(w, x/y)
			}
		case "bvurem":
			if y != 0 {
				return mkBV(w, x%y)
			}
		case "bvsdiv":
			if y != 0 {
				sx, sy := a.sval(), b.sval()
				if sy == -1 {
					return mkBV(w, uint64(-sx))
				}
				return mkBV(w, uint64(sx/sy))
			}
		case "bvsrem":
			if y != 0 {
				sx, sy := a.sval(), b.sval()
				if sy == -1 {
					return mkBV(w, 0)
				}
				return mkBV(w, uint64(sx%sy))
			}
		case "bvshl":
			if y >= uint64(w) {
				return mkBV(w, 0)
			}
			return mkBV(w, x<<y)
		case "bvlshr":
			if y >= uint64(w) {
				return mkBV(w, 0)
			}
			return mkBV(w, x>>y)
		case "bvashr":
			sx := a.sval()
			if y >= uint64(w) {
				y = uint64(w) - 1
			}
			return mkBV(w, uint64(sx>>y))
		}
	}
	// light identities
	switch op {
	case "bvadd", "bvor", "bvxor":
		if a.konst && a.c == 0 {
			return b
		}
		if b.konst && b.c == 0 {
			return a
		}
	case "bvsub", "bvshl", "bvlshr", "bvashr":
		if b.konst && b.c == 0 {
			return a
		}
	case "bvand":
		if a.konst && a.c == 0 || b.konst && b.c == 0 {
			return mkBV(w, 0)
		}
		if a.konst && a.c == mask(w) {
			return b
		}
		if b.konst && b.c == mask(w) {
			return a
		}
	case "bvmul":
		if a.konst && a.c == 1 {
			return b
		}
		if b.konst && b.c == 1 {
			return a
		}
		if a.konst && a.c == 0 || b.konst && b.c == 0 {
			return mkBV(w, 0)
		}
	}
	return e.app(a.sort, op, a, b)
}

func (e *Exec) bvneg(a *Term) *Term {
	if a.konst {
		return mkBV(a.sort.w, -a.c)
	}
	return e.app(a.sort, "bvneg", a)
}

func (e *Exec) bvnot(a *Term) *Term {
	if a.konst {
		return mkBV(a.sort.w, ^a.c)
	}
	return e.app(a.sort, "bvnot", a)
}

func (e *Exec) bvcmp(op string, a, b *Term) *Term {
	if a.sort != b.sort {
		panic(fmt.Sprintf("bvcmp %s sort mismatch %v %v", op, a.sort, b.sort))
	}
	if a.konst && b.konst {
		switch op {
		case "bvult":
			return mkBool(a.c < b.c)
		case "bvule":
			return mkBool(a.c <= b.c)
		case "bvugt":
			return mkBool(a.c > b.c)
		case "bvuge":
			return mkBool(a.c >= b.c)
		case "bvslt":
			return mkBool(a.sval() < b.sval())
		case "bvsle":
			return mkBool(a.sval() <= b.sval())
		case "bvsgt":
			return mkBool(a.sval() > b.sval())
		case "bvsge":
			return mkBool(a.sval() >= b.sval())
		}
	}
	return e.app(sBool, op, a, b)
}

func (e *Exec) extract(hi, lo int, a *Term) *Term {
	if hi == a.sort.w-1 && lo == 0 {
		return a
	}
	w := hi - lo + 1
	if a.konst {
		return mkBV(w, a.c>>uint(lo))
	}
	return e.mk(sBV(w), fmt.Sprintf("((_ extract %d %d) %s)", hi, lo, a.s))
}

func (e *Exec) zext(a *Term, w int) *Term {
	if a.sort.w == w {
		return a
	}
	if a.sort.w > w {
		return e.extract(w-1, 0, a)
	}
	if a.konst {
		return mkBV(w, a.c)
	}
	return e.mk(sBV(w), fmt.Sprintf("((_ zero_extend %d) %s)", w-a.sort.w, a.s))
}

func (e *Exec) sext(a *Term, w int) *Term {
	if a.sort.w == w {
		return a
	}
	if a.sort.w > w {
		return e.extract(w-1, 0, a)
	}
	if a.konst {
		return mkBV(w, uint64(a.sval()))
	}
	return e.mk(sBV(w), fmt.Sprintf("((_ sign_extend %d) %s)", w-a.sort.w, a.s))
}

func (e *Exec) concat(hi, lo *Term) *Term {
	w := hi.sort.w + lo.sort.w
	if hi.konst && lo.konst && w <= 64 {
		return mkBV(w, hi.c<<uint(lo.sort.w)|lo.c)
	}
	return e.app(sBV(w), "concat", hi, lo)
}

func (e *Exec) boolToBV(b *Term, w int) *Term {
	return e.ite(b, mkBV(w, 1), mkBV(w, 0))
}

// ---- floating point ----

func fsort(a *Term) (eb, sb int) {
	if a.sort.k == kF32 {
		return 8, 24
	}
	return 11, 53
}

func (e *Exec) fbin(op string, a, b *Term) *Term {
	if a.sort != b.sort {
		panic("fbin sort mismatch")
	}
	if a.konst && b.konst {
		if a.sort.k == kF64 {
			x, y := a.f64(), b.f64()
			var r float64
			ok := true
			switch op {
			case "fp.add":
				r = x + y
			case "fp.sub":
				r = x - y
			case "fp.mul":
				r = x * y
			case "fp.div":
				r = x / y
			default:
				ok = false
			}
			if ok {
				return mkF64(r)
			}
		} else {
			x, y := a.f32(), b.f32()
			var r float32
			ok := true
			switch op {
			case "fp.add":
				r = x + y
			case "fp.sub":
				r = x - y
			case "fp.mul":
				r = x * y
			case "fp.div":
				r = x / y
			default:
				ok = false
			}
			if ok {
				return mkF32(r)
			}
		}
	}
	if e.fpAbstraction {
		e.note("abstraction: results of floating-point + - * / on symbolic operands replaced by arbitrary doubles (IEEE arithmetic itself is outside the claim)")
		return e.fFromBits(e.fresh(sBV(a.sort.w), "fpabs"))
	}
	return e.mk(a.sort, fmt.Sprintf("(%s RNE %s %s)", op, a.s, b.s))
}

func (e *Exec) fneg(a *Term) *Term {
	if a.konst {
		if a.sort.k == kF64 {
			return mkF64bits(a.c ^ (1 << 63))
		}
		return mkF32(-a.f32())
	}
	return e.app(a.sort, "fp.neg", a)
}

func (e *Exec) fabs(a *Term) *Term {
	if a.konst && a.sort.k == kF64 {
		return mkF64bits(a.c &^ (1 << 63))
	}
	return e.app(a.sort, "fp.abs", a)
}

func (e *Exec) fcmp(op string, a, b *Term) *Term {
	if a.konst && b.konst {
		var x, y float64
		if a.sort.k == kF64 {
			x, y = a.f64(), b.f64()
		} else {
			x, y = float64(a.f32()), float64(b.f32())
		}
		switch op {
		case "fp.eq":
			return mkBool(x == y)
		case "fp.lt":
			return mkBool(x < y)
		case "fp.leq":
			return mkBool(x <= y)
		case "fp.gt":
			return mkBool(x > y)
		case "fp.geq":
			return mkBool(x >= y)
		}
	}
	return e.app(sBool, op, a, b)
}

func (e *Exec) fpred(op string, a *Term) *Term {
	if a.konst {
		var x float64
		if a.sort.k == kF64 {
			x = a.f64()
		} else {
			x = float64(a.f32())
		}
		switch op {
		case "fp.isNaN":
			return mkBool(x != x)
		case "fp.isInfinite":
			return mkBool(math.IsInf(x, 0))
		case "fp.isNegative":
			return mkBool(math.Signbit(x) && x == x)
		case "fp.isZero":
			return mkBool(x == 0)
		}
	}
	return e.app(sBool, op, a)
}

func (e *Exec) fround(mode string, a *Term) *Term {
	if a.konst && a.sort.k == kF64 {
		x := a.f64()
		switch mode {
		case "RTZ":
			return mkF64(math.Trunc(x))
		case "RTN":
			return mkF64(math.Floor(x))
		case "RTP":
			return mkF64(math.Ceil(x))
		case "RNE":
			return mkF64(math.RoundToEven(x))
		}
	}
	return e.mk(a.sort, fmt.Sprintf("(fp.roundToIntegral %s %s)", mode, a.s))
}

func (e *Exec) fsqrt(a *Term) *Term {
	if a.konst && a.sort.k == kF64 {
		return mkF64(math.Sqrt(a.f64()))
	}
	return e.mk(a.sort, fmt.Sprintf("(fp.sqrt RNE %s)", a.s))
}

// float from raw bits (keeps the bit view)
func (e *Exec) fFromBits(b *Term) *Term {
	if b.konst {
		if b.sort.w == 64 {
			return mkF64bits(b.c)
		}
		return mkF32(math.Float32frombits(uint32(b.c)))
	}
	var t *Term
	if b.sort.w == 64 {
		t = e.mk(sF64, fmt.Sprintf("((_ to_fp 11 53) %s)", b.s))
	} else {
		t = e.mk(sF32, fmt.Sprintf("((_ to_fp 8 24) %s)", b.s))
	}
	t.bits = b
	return t
}

// bits of a float. For NaN results of arithmetic the payload is unconstrained
// (hardware picks one; recorded as an abstraction).
func (e *Exec) fToBits(a *Term) *Term {
	if a.konst {
		return mkBV(a.sort.w, a.c)
	}
	if a.bits != nil {
		return a.bits
	}
	b := e.fresh(sBV(a.sort.w), "fbits")
	var conv string
	if a.sort.k == kF64 {
		conv = fmt.Sprintf("((_ to_fp 11 53) %s)", b.s)
	} else {
		conv = fmt.Sprintf("((_ to_fp 8 24) %s)", b.s)
	}
	e.assume(e.mk(sBool, fmt.Sprintf("(= %s %s)", conv, a.s)))
	a.bits = b
	e.note("abstraction: NaN payload of computed floats unconstrained in Float64bits")
	return b
}

// int -> float
func (e *Exec) intToFloat(a *Term, signed bool, dst Sort) *Term {
	if a.konst {
		var f float64
		if signed {
			f = float64(a.sval())
		} else {
			f = float64(a.c)
		}
		if dst.k == kF64 {
			return mkF64(f)
		}
		if signed {
			return mkF32(float32(a.sval()))
		}
		return mkF32(float32(a.c))
	}
	eb, sb := 11, 53
	if dst.k == kF32 {
		eb, sb = 8, 24
	}
	op := "to_fp"
	if !signed {
		op = "to_fp_unsigned"
	}
	return e.mk(dst, fmt.Sprintf("((_ %s %d %d) RNE %s)", op, eb, sb, a.s))
}

func (e *Exec) floatToFloat(a *Term, dst Sort) *Term {
	if a.sort == dst {
		return a
	}
	if a.konst {
		if dst.k == kF64 {
			return mkF64(float64(a.f32()))
		}
		return mkF32(float32(a.f64()))
	}
	eb, sb := 11, 53
	if dst.k == kF32 {
		eb, sb = 8, 24
	}
	return e.mk(dst, fmt.Sprintf("((_ to_fp %d %d) RNE %s)", eb, sb, a.s))
}

// float -> int following the amd64 code the Go compiler emits.
// cvtt to 64-bit signed: in range => truncation, otherwise 0x8000000000000000.
func (e *Exec) cvtt(a *Term, w int) *Term {
	// a is F64 (F32 widened first)
	if a.sort.k == kF32 {
		a = e.floatToFloat(a, sF64)
	}
	indef := mkBV(w, uint64(1)<<uint(w-1))
	if a.konst {
		f := a.f64()
		lim := math.Ldexp(1, w-1)
		if f != f || f >= lim || f < -lim {
			return indef
		}
		return mkBV(w, uint64(int64(f)))
	}
	lim := mkF64(math.Ldexp(1, w-1))
	nlim := mkF64(-math.Ldexp(1, w-1))
	inr := e.and(e.fcmp("fp.lt", a, lim), e.fcmp("fp.geq", a, nlim))
	conv := e.mk(sBV(w), fmt.Sprintf("((_ fp.to_sbv %d) RTZ %s)", w, a.s))
	return e.ite(inr, conv, indef)
}

func (e *Exec) floatToInt(a *Term, dstW int, dstSigned bool) *Term {
	e.stats.floatToInt++
	switch {
	case dstSigned && dstW == 64:
		return e.cvtt(a, 64)
	case dstSigned && dstW <= 32:
		return e.extract(dstW-1, 0, e.cvtt(a, 32))
	case !dstSigned && dstW <= 16:
		return e.extract(dstW-1, 0, e.cvtt(a, 32))
	case !dstSigned && dstW == 32:
		return e.extract(31, 0, e.cvtt(a, 64))
	default: // uint64 / uintptr / uint
		if a.sort.k == kF32 {
			a = e.floatToFloat(a, sF64)
		}
		two63 := mkF64(math.Ldexp(1, 63))
		lt := e.fcmp("fp.lt", a, two63)
		lo := e.cvtt(a, 64)
		hi := e.bvbin("bvor", e.cvtt(e.fbin("fp.sub", a, two63), 64), mkBV(64, 1<<63))
		return e.ite(lt, lo, hi)
	}
}

// popcount etc. for constants only helper
func bitsLen64(x uint64) int { return bits.Len64(x) }
