package main

import (
	"fmt"
	"go/types"

	"golang.org/x/tools/go/ssa"
)

// Value kinds:
//   *Term      scalar (bool, ints as BV, floats)
//   *Cell      pointer to a memory cell (nil pointer: (*Cell)(nil))
//   *SymPtr    pointer to an element of an array at a symbolic index
//   *UPtr      unsafe pointer (array object + byte offset)
//   StructV    struct value
//   ArrayV     array value
//   SliceV     slice
//   StrV       string
//   IfaceV     interface value
//   *FuncV     function value / closure (nil func: (*FuncV)(nil))
//   *MapV      map (nil map: (*MapV)(nil))
//   TupleV     multiple results
//   *RangeIter iterator for Range/Next

type Value interface{}

type Cell struct {
	v      Value
	id     int   // allocation order, for debugging / determinism
	parent *ArrM // containing array, if an array element
	pidx   int
	ro     bool // element of a read-only reinterpretation snapshot
}

type StructM struct{ fields []*Cell }
type ArrM struct {
	elems []*Cell
	et    types.Type
	id    int
}

type SymPtr struct {
	cells []*Cell // window
	idx   *Term   // BV64 index into cells, known in range under the path condition
}

// unsafe pointer into the element storage of an array of fixed-size scalars
type UPtr struct {
	arr  *ArrM
	base int   // element index of the slice start inside arr
	off  *Term // byte offset from base element (BV64)
	lim  int   // number of elements of arr (from base) that belong to the originating slice/array
	cell *Cell // pointer to a stand-alone (non-array) cell instead of arr
	// typed view (set by Convert from unsafe.Pointer to *T)
	t  types.Type
	ro bool
}

type StructV struct{ fields []Value }
type ArrayV struct{ elems []Value }
type SliceV struct {
	arr           *ArrM
	off, len, cap int
}
type StrV struct {
	s   string  // concrete content when sym == nil
	sym []*Term // symbolic bytes (BV8) otherwise
}
type IfaceV struct {
	t types.Type // nil => nil interface
	v Value
}
type FuncV struct {
	fn       *ssa.Function
	bindings []Value
	builtin  *ssa.Builtin
	bound    Value // receiver for bound method closures created by engine (unused)
}
type MapV struct {
	keys []Value
	vals []*Cell
	kt   types.Type
	vt   types.Type
}
type TupleV []Value

type RangeIter struct {
	isStr bool
	str   StrV
	pos   int
	m     *MapV
	keys  []Value
	vals  []Value
}

func (s StrV) length() int {
	if s.sym != nil {
		return len(s.sym)
	}
	return len(s.s)
}

func (s StrV) at(i int) *Term {
	if s.sym != nil {
		return s.sym[i]
	}
	return mkBV(8, uint64(s.s[i]))
}

func (s StrV) concrete() bool {
	if s.sym == nil {
		return true
	}
	for _, t := range s.sym {
		if !t.konst {
			return false
		}
	}
	return true
}

func (s StrV) goString() string {
	if s.sym == nil {
		return s.s
	}
	b := make([]byte, len(s.sym))
	for i, t := range s.sym {
		b[i] = byte(t.c)
	}
	return string(b)
}

func (s StrV) slice(lo, hi int) StrV {
	if s.sym != nil {
		if lo == hi {
			return StrV{}
		}
		return StrV{sym: s.sym[lo:hi]}
	}
	return StrV{s: s.s[lo:hi]}
}

func strFromTerms(ts []*Term) StrV {
	all := true
	for _, t := range ts {
		if !t.konst {
			all = false
			break
		}
	}
	if all {
		b := make([]byte, len(ts))
		for i, t := range ts {
			b[i] = byte(t.c)
		}
		return StrV{s: string(b)}
	}
	return StrV{sym: ts}
}

func (s StrV) terms() []*Term {
	if s.sym != nil {
		return s.sym
	}
	r := make([]*Term, len(s.s))
	for i := 0; i < len(s.s); i++ {
		r[i] = mkBV(8, uint64(s.s[i]))
	}
	return r
}

func isNilPtr(v Value) bool {
	switch p := v.(type) {
	case *Cell:
		return p == nil
	case *UPtr:
		return p == nil
	case nil:
		return true
	}
	return false
}

// ---- types helpers ----

func under(t types.Type) types.Type {
	for {
		switch tt := t.(type) {
		case *types.Named:
			t = tt.Underlying()
		case *types.Alias:
			t = types.Unalias(tt)
		default:
			return t.Underlying()
		}
	}
}

func basicInfo(t types.Type) (sort Sort, signed bool, ok bool) {
	b, isB := under(t).(*types.Basic)
	if !isB {
		return Sort{}, false, false
	}
	switch b.Kind() {
	case types.Bool, types.UntypedBool:
		return sBool, false, true
	case types.Int, types.Int64, types.UntypedInt:
		return sBV(64), true, true
	case types.Int32, types.UntypedRune:
		return sBV(32), true, true
	case types.Int16:
		return sBV(16), true, true
	case types.Int8:
		return sBV(8), true, true
	case types.Uint, types.Uint64, types.Uintptr:
		return sBV(64), false, true
	case types.Uint32:
		return sBV(32), false, true
	case types.Uint16:
		return sBV(16), false, true
	case types.Uint8:
		return sBV(8), false, true
	case types.Float64, types.UntypedFloat:
		return sF64, true, true
	case types.Float32:
		return sF32, true, true
	}
	return Sort{}, false, false
}

func isString(t types.Type) bool {
	b, ok := under(t).(*types.Basic)
	return ok && b.Info()&types.IsString != 0
}

func isUnsafePointer(t types.Type) bool {
	b, ok := under(t).(*types.Basic)
	return ok && b.Kind() == types.UnsafePointer
}

func zeroTerm(s Sort) *Term {
	switch s.k {
	case kBool:
		return tFalse
	case kBV:
		return mkBV(s.w, 0)
	case kF64:
		return mkF64bits(0)
	default:
		return mkF32(0)
	}
}

// zero value (register form)
func (e *Exec) zero(t types.Type) Value {
	switch u := under(t).(type) {
	case *types.Basic:
		if u.Info()&types.IsString != 0 {
			return StrV{}
		}
		if u.Kind() == types.UnsafePointer {
			return (*UPtr)(nil)
		}
		if u.Kind() == types.UntypedNil {
			return nil
		}
		s, _, ok := basicInfo(u)
		if !ok {
			e.abort("zero: unsupported basic type " + u.String())
		}
		return zeroTerm(s)
	case *types.Pointer:
		return (*Cell)(nil)
	case *types.Struct:
		f := make([]Value, u.NumFields())
		for i := range f {
			f[i] = e.zero(u.Field(i).Type())
		}
		return StructV{f}
	case *types.Array:
		n := int(u.Len())
		el := make([]Value, n)
		for i := range el {
			el[i] = e.zero(u.Elem())
		}
		return ArrayV{el}
	case *types.Slice:
		return SliceV{}
	case *types.Interface:
		return IfaceV{}
	case *types.Signature:
		return (*FuncV)(nil)
	case *types.Map:
		return (*MapV)(nil)
	case *types.Chan:
		return nil
	case *types.Tuple:
		r := make(TupleV, u.Len())
		for i := range r {
			r[i] = e.zero(u.At(i).Type())
		}
		return r
	}
	e.abort(fmt.Sprintf("zero: unsupported type %v", t))
	return nil
}

// new memory cell holding zero value of t
func (e *Exec) newCell(t types.Type) *Cell {
	e.cellCtr++
	c := &Cell{id: e.cellCtr}
	switch u := under(t).(type) {
	case *types.Struct:
		sm := &StructM{fields: make([]*Cell, u.NumFields())}
		for i := range sm.fields {
			sm.fields[i] = e.newCell(u.Field(i).Type())
		}
		c.v = sm
	case *types.Array:
		c.v = e.newArr(u.Elem(), int(u.Len()))
	default:
		c.v = e.zero(t)
	}
	return c
}

func (e *Exec) newArr(et types.Type, n int) *ArrM {
	if n > 1<<22 {
		e.abort(fmt.Sprintf("allocation of %d elements exceeds engine limit", n))
	}
	am := &ArrM{elems: make([]*Cell, n), et: et}
	// fast path for scalar elements
	if s, _, ok := basicInfo(et); ok {
		z := zeroTerm(s)
		cells := make([]Cell, n)
		for i := range am.elems {
			e.cellCtr++
			cells[i].id = e.cellCtr
			cells[i].v = z
			cells[i].parent = am
			cells[i].pidx = i
			am.elems[i] = &cells[i]
		}
		return am
	}
	for i := range am.elems {
		c := e.newCell(et)
		c.parent = am
		c.pidx = i
		am.elems[i] = c
	}
	return am
}

func (e *Exec) load(c *Cell) Value {
	switch m := c.v.(type) {
	case *StructM:
		f := make([]Value, len(m.fields))
		for i, fc := range m.fields {
			f[i] = e.load(fc)
		}
		return StructV{f}
	case *ArrM:
		el := make([]Value, len(m.elems))
		for i, ec := range m.elems {
			el[i] = e.load(ec)
		}
		return ArrayV{el}
	}
	if e.race != nil {
		e.raceOnAccess(c, false)
	}
	return c.v
}

func (e *Exec) store(c *Cell, v Value) {
	switch m := c.v.(type) {
	case *StructM:
		sv, ok := v.(StructV)
		if !ok {
			e.abort(fmt.Sprintf("store: struct cell gets %T", v))
		}
		for i, fc := range m.fields {
			e.store(fc, sv.fields[i])
		}
		return
	case *ArrM:
		av, ok := v.(ArrayV)
		if !ok {
			e.abort(fmt.Sprintf("store: array cell gets %T", v))
		}
		for i, ec := range m.elems {
			e.store(ec, av.elems[i])
		}
		return
	}
	if c.ro {
		e.abort("store into a read-only reinterpretation snapshot")
	}
	if e.ifc != nil {
		e.ifcStore(c, v)
		return
	}
	if e.race != nil {
		e.raceOnAccess(c, true)
	}
	c.v = v
}
