#!/usr/bin/env python3
"""Writes tools/thorough_results.json from the summary log of tools/run_thorough_final.sh (last run of each
property wins) and sets thorough_ok in tools/claims.json for the properties whose thorough command exited 0
with no violation and nothing inconclusive."""
import json, re, sys, os
V = os.path.dirname(os.path.dirname(os.path.abspath(__file__)))
log = sys.argv[1] if len(sys.argv) > 1 else "/tmp/thorough_summary.log"
res = {}
for l in open(log):
    m = re.match(r"(C\d\d) exit=(\d+) wall=(\d+)s (\d+) viol (\d+) known (\d+) incon", l)
    if m:
        res[m.group(1)] = {"exit": int(m.group(2)), "wall_s": int(m.group(3)), "violations": int(m.group(4)), "known_finding_lines": int(m.group(5)), "inconclusive_lines": int(m.group(6))}
json.dump(res, open(os.path.join(V, "tools", "thorough_results.json"), "w"), indent=1, sort_keys=True)
cp = os.path.join(V, "tools", "claims.json")
claims = json.load(open(cp))
for pid, c in claims.items():
    r = res.get(pid)
    ok = bool(r and r["exit"] == 0 and r["violations"] == 0 and r["inconclusive_lines"] == 0)
    if c.get("claimed"):
        c["thorough_ok"] = ok
json.dump(claims, open(cp, "w"), indent=1)
print({p: ("ok" if claims[p].get("thorough_ok") else "-") for p in sorted(claims)})
