#!/usr/bin/env python3
"""For every 'fix:' commit in /repo create /verif/seeded/self_<prop>_<sha>/ = the reverted fix.
A check that passes on the repaired tree must report the violation again when the fix is reverted."""
import json, os, subprocess, re
PROP = {  # substring of the commit subject -> property whose check must catch the reverted fix
 "tagged-template strings array": "C16", "Object(Symbol())": "C19", "space >= 2^63": "C19", "10 UTF-8 bytes": "C19", "all-ASCII flag": "C19", "array replacer lost keys": "C19", "JSON.parse(text, null)": "C19", "PromiseResolve must test IsPromise": "C10", "onFinally must be called with this=undefined": "C10",
 "ToInt32/ToUint32": "C05", "intToValue": "C05", "unary minus": "C05",
 "handleThrow kept a pointer": "C03", "unwinding an uncatchable error": "C03",
 "parseInt(": "C12", "JSON.stringify with an indent": "C19",
 'property key "-"': "C01", "rejected every 10/19-digit": "C01", "10FFFF": "C01", "repeat(2**62)": "C01",
 "wrapped Go slice": "C13", "invalid UTF-8": "C18", "proxy invariant check": "C11",
 "change between data and accessor kind": "C04", "kept its old writable": "C04", "Reflect.set with a symbol key": "C04",
 "shrinking a sparse array": "C07", "did not un-count the removed elements": "C07", "miscounted elements": "C07", "took the dense fast path": "C07",
 "generator return() kept a pointer": "C09", "inside a generator resumption": "C09", "finally block after the try block completed normally": "C08",
 "host strings (lazily scanned": "C16",
 "sloppy-mode delete of a non-configurable": "C07",
 "on Float32Array/Float64Array compared raw bits": "C17",
 "trim/trimStart/trimEnd replaced lone surrogates": "C06", "toLowerCase/toUpperCase (and their locale variants)": "C06",
 "sorts a standard array in place": "C07",
 "global+sticky match/replace on the fast path": "C20",
 "split with a RegExp emitted an extra": "C20",
 "String objects ignored own properties": "C04", "character index of a String object": "C04", "getOwnPropertyDescriptor trap returning an accessor": "C11",
 "set with an empty typed-array source": "C17", "new DataView(buffer, offset, length)": "C17", "ArrayBuffer.prototype.slice did not throw": "C17",
 "searching for the empty string beyond the end": "C06", "ToFloat/ToInteger of strings disagreed": "C05", "a sign after a radix prefix": "C05", "U+0085 (NEL) is not ECMAScript": "C05", "[-0].includes(0) was false": "C07",
 "copyWithin did not clamp": "C17", "set(arrayLike)": "C17", "ignored the match limit": "C20", "carried into the sign": "C12",
}
log = subprocess.run("git -C /repo log --format='%h %s' --grep='^fix:'", shell=True, capture_output=True, text=True).stdout.splitlines()
out = []
for l in log:
    sha, subj = l.split(" ", 1)
    prop = next((p for k, p in PROP.items() if k in subj), None)
    if not prop:
        print("unmapped:", l); continue
    name = f"self_{prop}_{sha}"
    d = f"/verif/seeded/{name}"
    os.makedirs(d, exist_ok=True)
    mp = d + "/meta.json"
    if os.path.exists(mp) and json.load(open(mp)).get("rebased"):
        out.append((name, prop))  # hand-made semantic revert: keep
        continue
    diff = subprocess.run(f"git -C /repo diff {sha} {sha}~1", shell=True, capture_output=True, text=True).stdout
    open(d + "/patch.diff", "w").write(diff)
    json.dump({"id": name, "breaks_property": prop, "origin": "reverted fix commit " + sha + " of /repo (not produced by a sub-agent)",
               "needs_to_manifest": subj, "what_was_run": "tools/run_seed.sh " + name + " " + prop}, open(d + "/meta.json", "w"), indent=1)
    out.append((name, prop))
json.dump(out, open("/verif/seeded/self_seeds.json", "w"), indent=1)
print(len(out), "self seeds")
