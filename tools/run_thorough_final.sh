#!/bin/sh
# Final thorough pass: the registered thorough command of every property (same flags as bin/check <P> thorough)
# but with -noevidence, so that the committed evidence stays the quick-tier one and replay dirs do not clash
# with concurrently running quick checks. Summary: /verif/thorough_summary.log (ignored by git).
V=$(cd "$(dirname "$0")/.." && pwd)
cd $V
for p in ${PROPS:-C16 C10 C09 C15 C02 C19 C11 C04 C18 C20 C12 C13 C03 C08 C14 C07 C06 C01 C17 C05}; do
  s=$(date +%s)
  timeout ${THOROUGH_TIMEOUT:-3000} ./bin/symgo -verif $V -prop $p -tier thorough -crosscheck z3-new -noevidence -workers ${THOROUGH_WORKERS:-10} > /tmp/thorough_$p.log 2>&1
  rc=$?
  e=$(date +%s)
  echo "$p exit=$rc wall=$((e-s))s $(grep -c '^VIOLATION' /tmp/thorough_$p.log) viol $(grep -c KNOWN-FINDING /tmp/thorough_$p.log) known $(grep -c 'INCONCLUSIVE\|MISMATCH\|DISAGREE\|UNCONF' /tmp/thorough_$p.log) incon" | tee -a /tmp/thorough_summary.log
done
