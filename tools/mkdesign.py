#!/usr/bin/env python3
"""Regenerates the generated appendices (C: harnesses, D: findings, E: seeded changes) at the end of DESIGN.md."""
import json, glob, os
V = os.path.dirname(os.path.dirname(os.path.abspath(__file__)))
d = open(os.path.join(V, "DESIGN.md")).read()
MARK = "\n<!-- GENERATED APPENDICES BELOW: python3 tools/mkdesign.py -->\n"
if MARK in d:
    d = d[:d.index(MARK)]
out = [MARK, "## Appendix C — harnesses (generated from harness/*.json)\n",
       "| property | harness | entry function | quick bounds | thorough bounds | what it checks |", "|---|---|---|---|---|---|"]
hs = []
for f in sorted(glob.glob(os.path.join(V, "harness", "*.json"))):
    hs += json.load(open(f))
hs.sort(key=lambda h: (h["property"], h["id"]))
def b(t):
    if not t: return "—"
    s = ",".join(f"{k}={v}" for k, v in sorted((t.get("bounds") or {}).items()))
    if t.get("unwind"): s += f" unwind={t['unwind']}"
    if t.get("skip"): s = "skipped"
    return s or "—"
for h in hs:
    pk = h.get("pkg") or "goja"
    out.append(f"| {h['property']} | {h['id']} | {pk}.{h['func']} | {b(h.get('tiers',{}).get('quick'))} | {b(h.get('tiers',{}).get('thorough'))} | {(h.get('desc') or '').replace('|','/')} |")
out.append(f"\n{len(hs)} harness registrations.\n")
out += ["## Appendix D — findings (generated from known_findings.json and known_findings.d/*.json)\n", "| id | property | status | commit | what |", "|---|---|---|---|---|"]
ks = []
for f in [os.path.join(V, "known_findings.json")] + sorted(glob.glob(os.path.join(V, "known_findings.d", "*.json"))):
    ks += json.load(open(f))
for k in ks:
    t = k["text"].replace("|", "/").replace("\n", " ")
    if len(t) > 420: t = t[:420] + "…"
    out.append(f"| {k['id']} | {k['property']} | {k['status']} | {k.get('commit') or ''} | {t} |")
out.append("")
claims = json.load(open(os.path.join(V, "tools", "claims.json")))
# Appendix F: cost of the registered commands (quick: from the committed evidence; thorough: from
# tools/thorough_results.json, written from the final thorough pass)
out += ["## Appendix F — measured cost of the registered commands (generated)\n"]
tr = {}
tf = os.path.join(V, "tools", "thorough_results.json")
if os.path.exists(tf):
    tr = json.load(open(tf))
out += ["| property | quick wall (s) | quick paths | quick solver queries | thorough | ", "|---|---|---|---|---|"]
for pid in sorted(claims):
    ef = os.path.join(V, "evidence", pid + ".json")
    if not os.path.exists(ef): continue
    ev = json.load(open(ef))
    cov = ev.get("coverage", {})
    t = tr.get(pid)
    tt = "not registered (did not finish within the cap)" if not t or t.get("exit") != 0 else f"exit 0 in {t['wall_s']} s (10 workers, machine shared with other runs; includes the z3 5.1.0 cross-check)"
    out.append(f"| {pid} | {round(ev.get('wall_s', 0))} | {cov.get('states', '')} | {cov.get('queries', '')} | {tt} |")
out.append("")
rf = os.path.join(V, "seeded", "RESULTS.json")
out += ["## Appendix E — seeded changes and which check reports them (generated from seeded/RESULTS.json)\n"]
if os.path.exists(rf):
    res = json.load(open(rf))
    out += ["| seed | breaks | detected | by (harness:assertion) | checks run |", "|---|---|---|---|---|"]
    for r in res:
        by = "; ".join(x for run in r["runs"] for x in run["by"][:3]) or "—"
        out.append(f"| {r['seed']} | {r['breaks']} | {'obsolete (mutated code removed by a later fix)' if r.get('obsolete') else ('yes' if r['detected'] else 'NO')} | {by} | {', '.join(run['check'] + (' [only ' + run['targeted'] + ']' if run.get('targeted') else '') + ('(n/a patch)' if not run['applies'] else '') for run in r['runs'])} |")
    n = sum(1 for r in res if r["detected"])
    live = sum(1 for r in res if not r.get("obsolete"))
    out.append(f"\n{n} of {live} applicable seeded changes reported ({len(res) - live} obsolete).\n")
else:
    out.append("(not evaluated yet)\n")
open(os.path.join(V, "DESIGN.md"), "w").write(d + "\n".join(out) + "\n")
print("DESIGN.md appendices regenerated:", len(hs), "harnesses,", len(ks), "findings")
