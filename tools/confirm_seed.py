#!/usr/bin/env python3
"""Confirm a seeded mutation in a scratch worktree of /repo's HEAD and file it under /verif/seeded/<prop>_<n>/.
usage: confirm_seed.py <prop> <srcdir> <name>"""
import json, os, re, shutil, subprocess, sys
prop, src, name = sys.argv[1], sys.argv[2], sys.argv[3]
WT = f"/tmp/wt_confirm_{prop}"
env = dict(os.environ, GOFLAGS="-mod=mod", GOPROXY="off")
env.pop("GOTOOLCHAIN", None); env.pop("GOSUMDB", None)
def sh(cmd, cwd=WT, timeout=1800):
    p = subprocess.run(cmd, shell=True, cwd=cwd, env=env, capture_output=True, text=True, timeout=timeout)
    return p.returncode, (p.stdout + p.stderr)
if not os.path.isdir(WT):
    subprocess.run(f"git -C /repo worktree add -q --detach {WT} HEAD", shell=True, check=True)
sh("git checkout -q --detach $(git -C /repo rev-parse HEAD) && git checkout -- . && git clean -fdq")
patch = os.path.join(src, "patch.diff")
demo = open(os.path.join(src, "demo_test.go")).read()
m = re.search(r"^package\s+(\w+)", demo, re.M)
pkg = m.group(1)
sub = {"goja": ".", "parser": "parser", "ftoa": "ftoa", "unistring": "unistring", "goja_test": "."}.get(pkg, ".")
res = {"property": prop, "name": name}
rc, out = sh(f"git apply --check {patch} && git apply {patch}")
res["applies_to_head"] = rc == 0
if rc != 0:
    print("patch does not apply:", out); print(json.dumps(res)); sys.exit(1)
rc, out = sh("go build ./...")
res["builds"] = rc == 0
rc, out = sh("go test -vet=off -count=1 -timeout 25m ./... 2>&1 | tail -15")
res["suite_passes_with_mutation"] = ("FAIL" not in out) and rc == 0
res["suite_tail"] = out[-600:]
demo_path = os.path.join(WT, sub, "zz_seed_demo_test.go")
open(demo_path, "w").write(demo)
rc, out = sh(f"go test -vet=off -count=1 -run 'TestSeedDemo' ./{sub} 2>&1 | tail -12")
res["demo_fails_with_mutation"] = "FAIL" in out
res["demo_with_mutation_tail"] = out[-500:]
sh(f"git apply -R {patch}")
rc, out = sh(f"go test -vet=off -count=1 -run 'TestSeedDemo' ./{sub} 2>&1 | tail -6")
res["demo_passes_without_mutation"] = ("FAIL" not in out) and ("ok" in out)
os.remove(demo_path)
sh("git checkout -- . && git clean -fdq")
ok = all(res[k] for k in ("applies_to_head", "builds", "suite_passes_with_mutation", "demo_fails_with_mutation", "demo_passes_without_mutation"))
res["confirmed"] = ok
print(json.dumps({k: v for k, v in res.items() if not k.endswith("tail")}))
if ok:
    dst = f"/verif/seeded/{name}"
    os.makedirs(dst, exist_ok=True)
    shutil.copy(patch, os.path.join(dst, "patch.diff"))
    shutil.copy(os.path.join(src, "demo_test.go"), os.path.join(dst, "demo_test.go"))
    meta = {"id": name, "breaks_property": prop, "needs_to_manifest": open(os.path.join(src, "meta.txt")).read() if os.path.exists(os.path.join(src, "meta.txt")) else json.load(open(os.path.join(src, "meta.json"))).get("needs_to_manifest", ""),
            "confirmed_by": {"worktree": "scratch worktree of /repo HEAD " + subprocess.run("git -C /repo rev-parse --short HEAD", shell=True, capture_output=True, text=True).stdout.strip(),
                             "ran": ["git apply patch.diff", "go build ./...", "go test -vet=off -count=1 -timeout 25m ./...  (suite passes)",
                                     "go test -run TestSeedDemo (fails with patch)", "git apply -R; go test -run TestSeedDemo (passes)"], "results": {k: v for k, v in res.items() if not k.endswith("tail")}},
            "detected_by": "see DESIGN.md seeded-change table"}
    json.dump(meta, open(os.path.join(dst, "meta.json"), "w"), indent=1)
sys.exit(0 if ok else 1)
