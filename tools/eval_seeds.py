#!/usr/bin/env python3
"""Runs every seeded change (sub-agent seeds and reverted fixes) against the quick check of the property
it breaks and records which harness/assertion reports it. Output: seeded/RESULTS.json + RESULTS.md"""
import json, os, re, subprocess, sys, time, glob
V = os.path.dirname(os.path.dirname(os.path.abspath(__file__)))
claims = json.load(open(os.path.join(V, "tools", "claims.json")))
only = sys.argv[1:]
from concurrent.futures import ThreadPoolExecutor
PAR = int(os.environ.get("EVAL_PAR", "3"))       # seeds evaluated concurrently (each in its own worktree/replay dir)
WORKERS = os.environ.get("EVAL_WORKERS", "6")   # symgo workers per seed
extra = {"C08": ["C03"], "C14": ["C03"], "C15": ["C03"], "C10": ["C03"], "C09": ["C03"], "C16": ["C06", "C18"], "C01": ["C09", "C03", "C07"], "C02": []}

# A hint names the harness that reported the seed in an earlier evaluation (or that the seed's author names):
# that harness is run first, alone; a VIOLATION there is a VIOLATION of the whole check (which runs every
# harness). Only when the targeted run reports nothing is the whole quick check of the property run.
try:
    HINTS = json.load(open(os.path.join(V, "tools", "seed_hints.json")))
except Exception:
    HINTS = {}
try:
    DONE = {e["seed"]: e for e in json.load(open(os.path.join(V, "seeded", "RESULTS.json")))} if os.environ.get("EVAL_RESUME") else {}
except Exception:
    DONE = {}

def run_one(name, p, extra_args):
    t0 = time.time()
    out = subprocess.run([os.path.join(V, "tools", "run_seed.sh"), name, p, "-workers", WORKERS] + extra_args, capture_output=True, text=True, env=dict(os.environ, TAILN="400")).stdout
    viol = re.findall(r"^  harness=(\S+) assert=(\S+)", out, re.M)
    return {"check": p, "wall_s": round(time.time() - t0), "detected": "VIOLATION property=" in out,
            "by": sorted(set(f"{h}:{a}" for h, a in viol))[:6], "inconclusive": "inconclusive=true" in out,
            "applies": "PATCH-DOES-NOT-APPLY" not in out, **({"targeted": extra_args[1]} if extra_args else {})}

def evaluate(d):
    name = os.path.basename(d)
    if name in DONE and not only:
        return DONE[name]
    meta = json.load(open(os.path.join(d, "meta.json")))
    prop = meta["breaks_property"]
    entry = {"seed": name, "breaks": prop, "runs": []}
    if meta.get("obsolete_on_repaired_tree"):
        entry["obsolete"] = meta["obsolete_on_repaired_tree"]
        entry["detected"] = False
        return entry
    hint = HINTS.get(name)
    if hint:
        hp = "C" + hint[1:3]
        if claims.get(hp, {}).get("claimed"):
            r = run_one(name, hp, ["-harness", hint])
            entry["runs"].append(r)
            if r["detected"]:
                entry["detected"] = True
                return entry
    # a change may be visible to the checks of related properties too (VM group)
    for p in [prop] + extra.get(prop, []):
        if not claims.get(p, {}).get("claimed"): continue
        t0 = time.time()
        out = subprocess.run([os.path.join(V, "tools", "run_seed.sh"), name, p, "-workers", WORKERS], capture_output=True, text=True, env=dict(os.environ, TAILN="400")).stdout
        viol = re.findall(r"^  harness=(\S+) assert=(\S+)", out, re.M)
        entry["runs"].append({"check": p, "wall_s": round(time.time() - t0), "detected": "VIOLATION property=" in out,
                              "by": sorted(set(f"{h}:{a}" for h, a in viol))[:6], "inconclusive": "inconclusive=true" in out,
                              "applies": "PATCH-DOES-NOT-APPLY" not in out})
        if entry["runs"][-1]["detected"]: break
    entry["detected"] = any(r["detected"] for r in entry["runs"])
    return entry

dirs = [d for d in sorted(glob.glob(os.path.join(V, "seeded", "*"))) if os.path.isdir(d) and (not only or any(o in os.path.basename(d) for o in only))]
res = []
with ThreadPoolExecutor(PAR) as ex:
    for entry in ex.map(evaluate, dirs):
        res.append(entry)
        tag = "obsolete" if entry.get("obsolete") else ("DETECTED" if entry["detected"] else ("DOES-NOT-APPLY" if any(not r["applies"] for r in entry["runs"]) else "missed"))
        print(entry["seed"], tag, [r["by"][:2] for r in entry["runs"] if r["detected"]], flush=True)
        merged = {**{k: v for k, v in DONE.items() if os.path.isdir(os.path.join(V, "seeded", k))}, **{e["seed"]: e for e in res}}
        json.dump(sorted(merged.values(), key=lambda e: e["seed"]), open(os.path.join(V, "seeded", "RESULTS.json"), "w"), indent=1)

