#!/usr/bin/env python3
"""Runs every seeded change (sub-agent seeds and reverted fixes) against the quick check of the property
it breaks and records which harness/assertion reports it. Output: seeded/RESULTS.json + RESULTS.md"""
import json, os, re, subprocess, sys, time, glob
V = os.path.dirname(os.path.dirname(os.path.abspath(__file__)))
claims = json.load(open(os.path.join(V, "tools", "claims.json")))
only = sys.argv[1:]
res = []
for d in sorted(glob.glob(os.path.join(V, "seeded", "*"))):
    if not os.path.isdir(d): continue
    name = os.path.basename(d)
    if only and not any(o in name for o in only): continue
    meta = json.load(open(os.path.join(d, "meta.json")))
    prop = meta["breaks_property"]
    # a change may be visible to the checks of related properties too (VM group)
    props = [prop]
    extra = {"C08": ["C03"], "C14": ["C03"], "C15": ["C03"], "C10": ["C03"], "C09": ["C03"], "C16": ["C06", "C18"], "C01": ["C03", "C07"]}
    props += extra.get(prop, [])
    entry = {"seed": name, "breaks": prop, "runs": []}
    for p in props:
        if not claims.get(p, {}).get("claimed"): continue
        t0 = time.time()
        out = subprocess.run([os.path.join(V, "tools", "run_seed.sh"), name, p, "-workers", "12"], capture_output=True, text=True, env=dict(os.environ, TAILN="400")).stdout
        viol = re.findall(r"^  harness=(\S+) assert=(\S+)", out, re.M)
        entry["runs"].append({"check": p, "wall_s": round(time.time() - t0), "detected": "VIOLATION property=" in out,
                              "by": sorted(set(f"{h}:{a}" for h, a in viol))[:6], "inconclusive": "inconclusive=true" in out,
                              "applies": "PATCH-DOES-NOT-APPLY" not in out})
        if entry["runs"][-1]["detected"]: break
    entry["detected"] = any(r["detected"] for r in entry["runs"])
    res.append(entry)
    print(name, "DETECTED" if entry["detected"] else "missed", [r["by"][:2] for r in entry["runs"] if r["detected"]], flush=True)
    json.dump(res, open(os.path.join(V, "seeded", "RESULTS.json"), "w"), indent=1)
