#!/bin/sh
# usage: tools/run_seed.sh <seed-name> <prop> [extra symgo args]
# Applies a seeded change to a scratch worktree of /repo's HEAD (never to /repo itself), runs the check
# against it with -repo, and removes the worktree.
V=$(cd "$(dirname "$0")/.." && pwd)
S=$1; P=$2; shift 2
WT=/tmp/seedwt_${S}_$$
git -C /repo worktree add -q --detach $WT HEAD || exit 2
( cd $WT && git apply $V/seeded/$S/patch.diff ) || { echo "PATCH-DOES-NOT-APPLY $S"; git -C /repo worktree remove --force $WT; exit 2; }
cd $V && timeout ${SEED_TIMEOUT:-1500} ./bin/symgo -verif $V -repo $WT -prop $P -tier quick -noevidence "$@" 2>&1 | grep -v progress | sed "s|$WT|/repo|g" | tail -${TAILN:-8}
git -C /repo worktree remove --force $WT
git -C /repo worktree prune
