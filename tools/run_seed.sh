#!/bin/sh
# usage: tools/run_seed.sh <seed-name> <prop> [extra symgo args]  — applies a seeded change to /repo, runs the check, reverts.
S=$1; P=$2; shift 2
cd /repo && git diff --quiet || { echo "/repo dirty"; exit 2; }
git -C /repo apply /verif/seeded/$S/patch.diff || exit 2
cd /verif && timeout ${SEED_TIMEOUT:-1500} ./bin/symgo -prop $P -tier quick -noevidence "$@" 2>&1 | grep -v progress | tail -${TAILN:-8}
echo "exit=$?"
git -C /repo checkout -- .
