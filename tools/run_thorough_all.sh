#!/bin/sh
# runs the thorough tier of every claimed property once (background use via `vp run`)
V=$(cd "$(dirname "$0")/.." && pwd)
cd $V
for p in ${PROPS:-C16 C10 C15 C09 C13 C11 C19 C04 C08 C14 C03 C18 C12 C20 C07 C01 C06 C17 C05}; do
  s=$(date +%s)
  timeout ${THOROUGH_TIMEOUT:-5400} ./bin/check $p thorough > thorough_$p.log 2>&1
  rc=$?
  e=$(date +%s)
  echo "$p exit=$rc wall=$((e-s))s $(grep -c VIOLATION thorough_$p.log) viol $(grep -c KNOWN-FINDING thorough_$p.log) known $(grep -c 'INCONCLUSIVE\|MISMATCH\|DISAGREE\|UNCONF' thorough_$p.log) incon" | tee -a thorough_summary.log
done
