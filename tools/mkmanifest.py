#!/usr/bin/env python3
"""Regenerates /verif/MANIFEST.json from tools/claims.json (one entry per property)."""
import json, os
D = os.path.dirname(os.path.dirname(os.path.abspath(__file__)))
claims = json.load(open(os.path.join(D, "tools", "claims.json")))
props = [json.loads(l)["id"] for l in open(os.path.join(D, "properties.jsonl"))]
checks, na = [], []
for pid in props:
    c = claims.get(pid, {})
    if c.get("claimed"):
        checks.append({
            "property_id": pid,
            "quick_cmd": f"bin/check {pid} quick",
            "evidence_file": f"/verif/evidence/{pid}.json",
            "replay_cmd_template": "bin/replay {path}",
            "engine": "symgo",
            "level_claimed": {"category": "model_checking", "text": c["text"], "design_ref": c.get("design_ref", "DESIGN.md §3 " + pid)},
            "level_note": c["note"],
            **({"thorough_cmd": f"bin/check {pid} thorough"} if c.get("thorough_ok") else {}),
            "technique": c.get("technique", "bounded symbolic execution of the real Go code (go/ssa -> SMT-LIB2, z3); solver verdict per path obligation; native replay of counterexamples"),
        })
    else:
        na.append({"property_id": pid, "reason": c.get("reason", "no solver-based check built yet for this property")})
m = {
    "version": 1,
    "setup_cmd": "sh bin/setup",
    "hooks": {"guard": "verif", "enable": "no source hooks: harness files are injected into the build by overlay (packages.Config.Overlay for the encoder, go test -overlay -tags verif for native replay)",
              "baseline_off_cmd": "cd /repo && GOFLAGS=-mod=mod go test -json -vet=off -count=1 -timeout 25m ./...",
              "source_commits": [], "add_only": True},
    "engines": [{"name": "symgo", "path": "engine", "serves_properties": [c["property_id"] for c in checks],
                 "kind_free_text": "forking symbolic interpreter over go/ssa of /repo's working tree; path conditions and obligations discharged by z3 -in; counterexamples replayed natively with go test -overlay"}],
    "checks": checks,
    "not_applicable": na,
    "notes": "Every check re-loads /repo from source on every run (no cached encoding). Exit 0 = all obligations unsat on all feasible paths within the stated bounds (KNOWN-FINDING lines allowed); exit 1 = VIOLATION confirmed by native replay; exit 3 = inconclusive (solver unknown, unwinding assertion, unsupported construct, vacuity, unconfirmed counterexample).",
}
json.dump(m, open(os.path.join(D, "MANIFEST.json"), "w"), indent=1)
print("claimed:", [c["property_id"] for c in checks])
