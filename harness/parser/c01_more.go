package parser

import "github.com/dop251/goja/token"

// ---------------------------------------------------------------------
// C01 (third wave) / H01.9 — more lexer kernels on symbolic bodies of at most N bytes: scanIdentifier (with its
// \uXXXX and \u{...} escapes, re-parsed by parseStringLiteral which panics deliberately when its length
// disagrees with the scanner's), parseTemplateCharacters (template literal chunks, CR/LF normalisation, escapes)
// and scanNumericLiteral (offset arithmetic on the source string). For every body no Go panic of any kind may
// escape: the outcome is a token/literal or an error string (ECMA-262 12.7, 12.9.3, 12.9.6: every source text is
// either the token or an early SyntaxError).

func vC01Body(name string) []byte {
	n := vChoice(name+".len", vBound("N")+1)
	b := vNondetBytes(name, n)
	if vBound("ascii") != 0 {
		vC01ASCII(b)
	}
	return b
}

// scanIdentifier is entered by scan() when isIdentifierStart(chr): shapes `<start> body`, `\ body`, `a\ body`,
// `\u{ body`, `a\u{ body`
func H_C01_scanIdentifier() {
	body := vC01Body("b")
	var pre []byte
	switch vChoice("shape", 5) {
	case 0:
		pre = []byte{'a'}
	case 1:
		pre = []byte{'\\'}
	case 2:
		pre = []byte{'$', '\\'}
	case 3:
		pre = []byte{'\\', 'u', '{'}
	default:
		pre = []byte{'_', '\\', 'u', '{'}
	}
	src := append(append([]byte{}, pre...), body...)
	p := newParser("", string(src))
	p.read()
	var literal string
	var errStr string
	panicked := vC01Guard(func() { literal, _, _, errStr = p.scanIdentifier() })
	vAssert("scanIdentifier:no-go-panic", !panicked)
	if panicked {
		return
	}
	// the literal is a prefix of the source (offset arithmetic), empty exactly on error
	good := len(literal) <= len(src) && (errStr == "") == (len(literal) > 0)
	for i := 0; good && i < len(literal); i++ {
		if literal[i] != src[i] {
			good = false
		}
	}
	vAssert("scanIdentifier:literal-is-source-prefix-or-error", good)
}

// parseTemplateCharacters is entered after the opening backquote: shapes `body`, `\ body`, each optionally closed
func H_C01_template() {
	body := vC01Body("b")
	src := []byte{'`'}
	if vChoice("escape", 2) == 1 {
		src = append(src, '\\')
	}
	src = append(src, body...)
	switch vChoice("close", 3) {
	case 1:
		src = append(src, '`')
	case 2:
		src = append(src, '$', '{')
	}
	p := newParser("", string(src))
	p.read() // chr = backquote
	p.read() // chr = first byte after it
	var literal string
	var finished bool
	var errStr string
	panicked := vC01Guard(func() { literal, _, finished, _, errStr = p.parseTemplateCharacters() })
	vAssert("template:no-go-panic", !panicked)
	if panicked {
		return
	}
	vAssert("template:chunk-within-source,unterminated=>finished", len(literal) <= len(src) && (errStr == "" || finished))
}

// scanNumericLiteral is entered at a decimal digit (decimalPoint=false) or at the digit after a '.' (true)
func H_C01_numeric() {
	body := vC01Body("b")
	dot := vChoice("decimalPoint", 2) == 1
	first := vNondetUint8("first")
	vAssume(first >= '0' && first <= '9')
	var src []byte
	if dot {
		src = []byte{'.', first}
	} else {
		src = []byte{first}
	}
	src = append(src, body...)
	p := newParser("", string(src))
	p.read()
	if dot {
		p.read()
	}
	var tkn token.Token
	var literal string
	panicked := vC01Guard(func() { tkn, literal = p.scanNumericLiteral(dot) })
	vAssert("numeric:no-go-panic", !panicked)
	if panicked {
		return
	}
	good := (tkn == token.NUMBER || tkn == token.ILLEGAL) && len(literal) >= 1 && len(literal) <= len(src)
	for i := 0; good && i < len(literal); i++ {
		if literal[i] != src[i] {
			good = false
		}
	}
	vAssert("numeric:NUMBER-or-ILLEGAL,literal-is-source-prefix", good)
}
