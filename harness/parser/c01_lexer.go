package parser

import "strings"

// ---------------------------------------------------------------------
// C01 / H01.1 — string-literal scan/parse agreement. scanString (+scanEscape) walks the source bytes and
// predicts the UTF-16 length of the literal; parseStringLiteral walks the same bytes again and panics
// ("unexpected length" / "unexpected unicode length") if its result disagrees. For every literal
// quote+body+quote, body drawn from the shapes below, no Go panic of any kind may escape: the outcome is
// either (literal, parsed) or an error string / recorded parser error (ECMA-262 12.9.4: every source text
// is either a StringLiteral or an early SyntaxError).

type vC01AssumeMarker interface{ vIsAssumeFailed() }

func vC01Guard(f func()) (panicked bool) {
	defer func() {
		if x := recover(); x != nil {
			if _, ok := x.(vC01AssumeMarker); ok {
				panic(x)
			}
			panicked = true
		}
	}()
	f()
	return
}

// vC01Scan: lex `quote body quote` exactly as (*_parser).scan does for a string token
func vC01Scan(body []byte) (panicked bool, literal string, err string) {
	q := byte('"')
	if vNondetBool("singleQuote") {
		q = '\''
	}
	src := make([]byte, 0, len(body)+2)
	src = append(src, q)
	src = append(src, body...)
	src = append(src, q)
	p := newParser("", string(src))
	p.read() // chr = quote
	p.read() // chr = first byte of the body (scan() has consumed the quote)
	panicked = vC01Guard(func() {
		literal, _, err = p.scanString(0, true)
	})
	return
}

func vC01ASCII(b []byte) {
	for _, c := range b {
		vAssume(c < 0x80)
	}
}

// refC01HitsMaxRune: class of the known finding F-C01-lexer-u10FFFF: the hex digits after `\u{` reach the
// value 0x10FFFF exactly (scanEscape's loop condition `value < utf8.MaxRune` then leaves the closing brace
// unconsumed and counts it as a character of its own)
func refC01HitsMaxRune(d []byte) bool {
	var v uint32
	hit := false
	alive := true
	for _, c := range d {
		var dv uint32 = 16
		if c >= '0' && c <= '9' {
			dv = uint32(c - '0')
		}
		if c >= 'a' && c <= 'f' {
			dv = uint32(c-'a') + 10
		}
		if c >= 'A' && c <= 'F' {
			dv = uint32(c-'A') + 10
		}
		if dv >= 16 {
			alive = false
		}
		if v > 0x10FFFF {
			alive = false
		}
		v = v*16 + dv
		if alive && v == 0x10FFFF {
			hit = true
		}
	}
	return hit
}

// shape 1: any N bytes (ASCII in the quick tier)
func H_C01_scanString_plain() {
	b := vNondetBytes("b", vBound("N"))
	if vBound("ascii") != 0 {
		vC01ASCII(b)
	}
	p, _, _ := vC01Scan(b)
	vAssert("plain:no-go-panic", !p)
}

// shape 2: backslash + any N bytes
func H_C01_scanString_escape() {
	b := vNondetBytes("b", vBound("N"))
	if vBound("ascii") != 0 {
		vC01ASCII(b)
	}
	body := append([]byte{'\\'}, b...)
	p, _, _ := vC01Scan(body)
	vAssert("escape:no-go-panic", !p)
}

// shape 3: \x / \u + N bytes
func H_C01_scanString_hex() {
	b := vNondetBytes("b", vBound("N"))
	vC01ASCII(b)
	e := byte('x')
	if vNondetBool("u") {
		e = 'u'
	}
	body := append([]byte{'\\', e}, b...)
	p, _, _ := vC01Scan(body)
	vAssert("hex:no-go-panic", !p)
}

// shape 4: \u{ + N bytes + } + T bytes
func H_C01_scanString_ubrace() {
	d := vNondetBytes("d", vBound("N"))
	t := vNondetBytes("t", vBound("T"))
	vC01ASCII(d)
	vC01ASCII(t)
	if vBound("hexonly") != 0 {
		for _, c := range d {
			vAssume((c >= '0' && c <= '9') || (c >= 'A' && c <= 'F'))
		}
	}
	body := append([]byte{'\\', 'u', '{'}, d...)
	body = append(body, '}')
	body = append(body, t...)
	p, _, _ := vC01Scan(body)
	vAssertK("ubrace:no-go-panic", !p, refC01HitsMaxRune(d), "F-C01-lexer-u10FFFF")
}

// symbolic-mode stand-in for strings.Builder.Grow (its body allocates through a runtime intrinsic): only
// the documented panic is kept, capacity is not observable
func vC01StubGrow(b *strings.Builder, n int) {
	if n < 0 {
		panic("strings.Builder.Grow: negative count")
	}
}

// symbolic-mode stand-in for fmt.Errorf (message text is not part of the claim; the value must be non-nil,
// it is used as a panic payload)
type vC01Err struct{}

func (vC01Err) Error() string { return "<fmt.Errorf>" }

func vC01StubErrorf(format string, a ...interface{}) error { return vC01Err{} }
