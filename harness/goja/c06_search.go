package goja

import "math"

// C06 H06.4 — substring search is a function of the UTF-16 code units only.
//
// Reference model, written from ECMA-262 (not from goja):
//   StringIndexOf(string, searchValue, fromIndex) (6.1.4.1): the smallest i >= fromIndex with
//   i + searchLen <= len and string[i .. i+searchLen) == searchValue; an empty searchValue is found at
//   fromIndex iff fromIndex <= len; otherwise -1.
//   String.prototype.lastIndexOf (22.1.3.10) steps 9-12: the largest i with 0 <= i <= start,
//   i + searchLen <= len and a match at i (an empty search string is found at start).
//   String.prototype.indexOf / includes: start = clamp(ToIntegerOrInfinity(position), 0, len);
//   lastIndexOf: ToNumber(position) NaN => +Infinity, then the same clamp.
//
// Helper functions are deliberately not named ref*: the engine if-converts their simple conditional
// assignments into one term.

// vC06SrchMatchAt: s[i .. i+len(sep)) == sep (i concrete, in range)
func vC06SrchMatchAt(s, sep []uint16, i int) bool {
	m := true
	for j := range sep {
		if s[i+j] != sep[j] {
			m = false
		}
	}
	return m
}

// vC06RefIndexOf: StringIndexOf for fromIndex >= 0
func vC06RefIndexOf(s, sep []uint16, from int) int {
	res := -1
	for i := len(s) - len(sep); i >= 0; i-- {
		m := vC06SrchMatchAt(s, sep, i)
		if m && i >= from {
			res = i
		}
	}
	return res
}

// vC06RefLastIndexOf: largest match position <= start
func vC06RefLastIndexOf(s, sep []uint16, start int) int {
	res := -1
	for i := 0; i+len(sep) <= len(s); i++ {
		m := vC06SrchMatchAt(s, sep, i)
		if m && i <= start {
			res = i
		}
	}
	return res
}

// ---------------------------------------------------------------------
// contract stubs (symbolic mode only; natively the real functions run and the translator validation
// replays sampled paths against them)

func vC06SrchBytesMatchAt(s, sep []byte, i int) bool {
	m := true
	for j := range sep {
		if s[i+j] != sep[j] {
			m = false
		}
	}
	return m
}

// bytes.Index: "index of the first instance of sep in s, or -1 if sep is not present in s"
func vC06StubBytesIndex(s, sep []byte) int {
	res := -1
	for i := len(s) - len(sep); i >= 0; i-- {
		if vC06SrchBytesMatchAt(s, sep, i) {
			res = i
		}
	}
	return res
}

// bytes.LastIndex: "index of the last instance of sep in s, or -1 if sep is not present in s"
func vC06StubBytesLastIndex(s, sep []byte) int {
	res := -1
	for i := 0; i+len(sep) <= len(s); i++ {
		if vC06SrchBytesMatchAt(s, sep, i) {
			res = i
		}
	}
	return res
}

func vC06SrchStrMatchAt(s, sep string, i int) bool {
	m := true
	for j := 0; j < len(sep); j++ {
		if s[i+j] != sep[j] {
			m = false
		}
	}
	return m
}

// strings.Index / strings.LastIndex: same contracts on strings
func vC06StubStringsIndex(s, sep string) int {
	res := -1
	for i := len(s) - len(sep); i >= 0; i-- {
		if vC06SrchStrMatchAt(s, sep, i) {
			res = i
		}
	}
	return res
}

func vC06StubStringsLastIndex(s, sep string) int {
	res := -1
	for i := 0; i+len(sep) <= len(s); i++ {
		if vC06SrchStrMatchAt(s, sep, i) {
			res = i
		}
	}
	return res
}

// ---------------------------------------------------------------------
// H06.4.kernels: the four slice kernels called directly (both sides of the 32-unit crossover use the
// same two algorithms; below the crossover goja only calls the naive ones, above it the byte-based ones)

func vC06SrchUnits(name string, max int) []uint16 {
	n := vChoice(name+".n", max+1)
	return vNondetUint16s(name, n)
}

func H_C06_searchKernels() {
	s := vC06SrchUnits("s", vBound("N"))
	sep := vC06SrchUnits("sep", vBound("M"))
	wantFirst := vC06RefIndexOf(s, sep, 0)
	wantLast := vC06RefLastIndexOf(s, sep, len(s))
	naive := utf16IndexNaive(s, sep)
	byt := utf16IndexBytes(s, sep)
	vAssert("utf16IndexNaive==StringIndexOf(s,sep,0)", naive == wantFirst)
	vAssert("utf16IndexBytes==StringIndexOf(s,sep,0)", byt == wantFirst)
	vAssert("utf16IndexBytes==utf16IndexNaive", byt == naive)
	lnaive := utf16LastIndexNaive(s, sep)
	lbyt := utf16LastIndexBytes(s, sep)
	vAssert("utf16LastIndexNaive==last match", lnaive == wantLast)
	vAssert("utf16LastIndexBytes==last match", lbyt == wantLast)
	vAssert("utf16LastIndexBytes==utf16LastIndexNaive", lbyt == lnaive)
	// the dispatchers (below the crossover for these lengths)
	vAssert("utf16Index==StringIndexOf(s,sep,0)", utf16Index(s, sep) == wantFirst)
	vAssert("utf16LastIndex==last match", utf16LastIndex(s, sep) == wantLast)
}

// ---------------------------------------------------------------------
// H06.4.methods: String.index / String.lastIndex of every representation against every representation

// vC06SrchStr: like vC06NewStr but with explicit bounds and concrete choices
func vC06SrchStr(name string, rep, maxU, maxB int) *vC06Str {
	x := &vC06Str{rep: rep}
	switch rep {
	case vC06Ascii:
		n := vChoice(name+".n", maxU+1)
		x.utf8 = vNondetString(name+".a", n)
		x.units = make([]uint16, n)
		for i := 0; i < n; i++ {
			vAssume(x.utf8[i] < 0x80)
			x.units[i] = uint16(x.utf8[i])
		}
	case vC06Unicode:
		n := 1 + vChoice(name+".n", maxU)
		x.units = vNondetUint16s(name+".u", n)
		vAssume(vC06HasNonASCII(x.units))
	default:
		x.utf8, x.units = vC06ValidUTF8(name+".s", maxB, maxU)
	}
	return x
}

// receiver representation in [RL,RH] (json bounds), at most N units (imported: at most B bytes);
// search string in the first SR representations (ascii, unicode, imported unscanned, imported scanned), at
// most M units (imported: at most MB bytes)
func vC06SrchPair() (a, b *vC06Str) {
	lo, hi := vBound("RL"), vBound("RH")
	a = vC06SrchStr("s", lo+vChoice("s.rep", hi-lo+1), vBound("N"), vBound("B"))
	b = vC06SrchStr("sep", vChoice("sep.rep", vBound("SR")), vBound("M"), vBound("MB"))
	return
}

func vC06SrchIsUnicodeBacked(x *vC06Str) bool {
	return x.rep == vC06Unicode || (x.rep != vC06Ascii && vC06HasNonASCII(x.units))
}

func H_C06_searchIndex() {
	a, b := vC06SrchPair()
	n := len(a.units)
	// callers: includes/indexOf clamp to [0,len]; replaceAll passes pos+max(1,searchLen) <= len+1
	start := vNondetInt("start")
	vAssume(start >= 0 && start <= n+1)
	start = vConcretize(start)
	want := vC06RefIndexOf(a.units, b.units, start)
	got := a.value().index(b.value(), start)
	// known: a UTF-16 backed receiver "finds" the empty string at len+1 (String.prototype.replaceAll
	// never terminates)
	known := vC06SrchIsUnicodeBacked(a) && len(b.units) == 0 && start == n+1
	vAssertK("index==StringIndexOf(s,sep,start)", got == want, known, "F-C06-index-empty-beyond-end")
}

func H_C06_searchLastIndex() {
	a, b := vC06SrchPair()
	n := len(a.units)
	pos := vNondetInt("pos")
	vAssume(pos >= 0 && pos <= n) // lastIndexOf clamps to [0,len]
	pos = vConcretize(pos)
	want := vC06RefLastIndexOf(a.units, b.units, pos)
	got := a.value().lastIndex(b.value(), pos)
	vAssert("lastIndex==last match <= pos", got == want)
}

// ---------------------------------------------------------------------
// H06.4.builtins: String.prototype.indexOf / lastIndexOf / includes for EVERY Number position (and
// undefined), i.e. the clamping of ToIntegerOrInfinity(position) in front of the kernels

// refC06ClampPos: clamp(ToIntegerOrInfinity(x), 0, n) for the double with these bits; NaN -> nanTo
func refC06ClampPos(bits uint64, n int, nanIsInf bool) int {
	exp := int((bits >> 52) & 0x7ff)
	man := bits & (1<<52 - 1)
	if exp == 0x7ff && man != 0 {
		if nanIsInf {
			return n
		}
		return 0
	}
	i := refToIntegerClamp(bits)
	if i < 0 {
		return 0
	}
	if i > int64(n) {
		return n
	}
	return int(i)
}

func vC06SrchNumberOf(v Value) (f float64, ok bool) {
	switch x := v.(type) {
	case valueInt:
		return float64(x), true
	case valueFloat:
		return float64(x), true
	}
	return 0, false
}

func H_C06_searchBuiltins() {
	a, b := vC06SrchPair()
	n := len(a.units)
	r := vRuntime()
	args := []Value{b.value()}
	posBits := uint64(0) // undefined -> ToNumber = NaN for lastIndexOf, ToIntegerOrInfinity = 0 for indexOf
	undef := vChoice("pos.undefined", 2) == 1
	if undef {
		posBits = math.Float64bits(math.NaN())
	} else {
		p := vNumber("pos")
		posBits = vNumberBits(p)
		args = append(args, p)
	}
	which := vChoice("method", 3)
	switch which {
	case 0:
		start := refC06ClampPos(posBits, n, false)
		want := vC06RefIndexOf(a.units, b.units, start)
		res := r.stringproto_indexOf(FunctionCall{This: a.value(), Arguments: args})
		f, isNum := vC06SrchNumberOf(res)
		vAssert("indexOf:number", isNum)
		vAssert("indexOf==StringIndexOf(S,searchStr,clamp(ToIntegerOrInfinity(position)))", f == float64(want))
	case 1:
		start := refC06ClampPos(posBits, n, true)
		want := vC06RefLastIndexOf(a.units, b.units, start)
		res := r.stringproto_lastIndexOf(FunctionCall{This: a.value(), Arguments: args})
		f, isNum := vC06SrchNumberOf(res)
		vAssert("lastIndexOf:number", isNum)
		vAssert("lastIndexOf==last match <= clamp(position), NaN as +Infinity", f == float64(want))
	default:
		start := refC06ClampPos(posBits, n, false)
		want := vC06RefIndexOf(a.units, b.units, start) != -1
		res := r.stringproto_includes(FunctionCall{This: a.value(), Arguments: args})
		vAssert("includes==(StringIndexOf != -1)", res == valueBool(want))
	}
}
