package goja

import "github.com/dop251/goja/unistring"

// ---------------------------------------------------------------------
// C04 (second wave) — exotic object kinds and symbol keys.
//
//   H04.5.*  String exotic objects (ECMA-262 10.4.3) : string.go `stringObject`
//   H04.6.*  mapped arguments objects (10.4.4)       : object_args.go `argumentsObject`
//   H04.7.*  symbol keys of ordinary objects agree with string keys; non-extensible keeps its prototype
//
// The reference for every operation is the ORDINARY algorithm (10.1.x) applied to the property the exotic
// [[GetOwnProperty]] of the spec reports for the key (`cur`), plus the documented exotic twist.

// ---- String exotic object built by hand (no global object needed; prototype null) ----

func vC04mString(r *Runtime, str string, ext bool) *stringObject {
	o := &Object{runtime: r}
	s := &stringObject{}
	s.val = o
	s.class = classString
	s.extensible = ext
	s.value = asciiString(str)
	s.init()
	o.self = s
	return s
}

// integer-Number keys (presented to goja as valueInt AND as their decimal string)
var vC04mIntKeys = []struct {
	n unistring.String
	i int64
}{{"0", 0}, {"1", 1}, {"2", 2}, {"3", 3}, {"-1", -1}, {"4294967296", 1 << 32}}

const (
	vC04mOrdinary = 0 // key handled by the ordinary part of the object
	vC04mStrIndex = 1 // key is an integer index inside the string
	vC04mLength   = 2 // "length"
)

type vC04mCase struct {
	w      *vC04World
	L      int
	str    string
	ext    bool
	name   unistring.String
	hasIdx bool // the key is an integer Number: the *Idx entry points apply
	idx    valueInt
	idxGE  bool // integer key >= L (class of F-C04-string-getOwnPropIdx-beyond-length)
	where  int
	ci     int       // where == vC04mStrIndex: the index
	cur    *vC04Cur  // the own property 10.4.3.1 [[GetOwnProperty]] reports (kind 0: none)
	rec    *valueProperty
}

// vC04mSetup draws: string of length 0..N with arbitrary ASCII content, extensible flag, a key
// (integer Number key / arbitrary 1- or 2-byte string / "length"), and — when the key is not a string index —
// an arbitrary ordinary own property under that key (absent / plain / data record / accessor record).
// keyModes: bit 0 integer keys, bit 1 one-byte strings, bit 2 two-byte strings, bit 3 "length"
func vC04mSetup(keyModes int, richExtra bool) *vC04mCase { return vC04mSetupL(keyModes, richExtra, 0) }

func vC04mSetupL(keyModes int, richExtra bool, minL int) *vC04mCase {
	c := &vC04mCase{w: vC04NewWorld()}
	c.L = minL + vChoice("string.length", vBound("N")+1-minL)
	c.str = vNondetString("string.value", c.L)
	for i := 0; i < c.L; i++ {
		vAssume(c.str[i] < 0x80)
	}
	c.ext = vNondetBool("extensible")
	mode := vChoice("key.mode", 4)
	vAssume(keyModes&(1<<uint(mode)) != 0)
	strIdx := -1
	switch mode {
	case 0:
		k := vChoice("key.int", len(vC04mIntKeys))
		c.name = vC04mIntKeys[k].n
		c.hasIdx = true
		c.idx = valueInt(vC04mIntKeys[k].i)
		if vC04mIntKeys[k].i >= 0 {
			strIdx = int(vC04mIntKeys[k].i)
			c.idxGE = strIdx >= c.L
		}
	case 1, 2:
		ks := vNondetString("key.s", mode)
		for i := 0; i < mode; i++ {
			vAssume(ks[i] < 0x80)
		}
		c.name = unistring.String(ks)
		// 10.4.3.5 StringGetOwnProperty: CanonicalNumericIndexString(P) is a non-negative integer (not -0)
		cn := refC01Canon(ks)
		if cn.ok && !cn.neg {
			strIdx = int(cn.mag)
		}
	default:
		c.name = "length"
	}
	inRange := strIdx >= 0 && strIdx < c.L
	switch {
	case inRange:
		c.where = vC04mStrIndex
		c.ci = vConcretize(strIdx)
		c.cur = &vC04Cur{kind: 1, e: true, value: asciiString(c.str[c.ci : c.ci+1])}
	case mode == 3:
		c.where = vC04mLength
		c.cur = &vC04Cur{kind: 1, value: valueInt(int64(c.L))}
	default:
		c.where = vC04mOrdinary
		c.cur = c.w.mCurrent(richExtra)
		c.rec, _ = c.cur.repr.(*valueProperty)
	}
	return c
}

// an arbitrary ordinary own property (concrete shape choices, symbolic flags and value):
// absent / plain value / data record / accessor without functions / accessor with getter and setter f1
func (w *vC04World) mCurrent(accessors bool) *vC04Cur {
	cur := &vC04Cur{}
	n := 3
	if accessors {
		n = 5
	}
	shape := vChoice("extra.shape", n)
	if shape == 0 {
		return cur
	}
	cur.e, cur.c = true, true
	if shape >= 2 {
		cur.e = vNondetBool("extra.enumerable")
		cur.c = vNondetBool("extra.configurable")
	}
	if shape <= 2 {
		i := vNondetInt64("extra.value")
		vAssume(i >= -(1<<53) && i <= 1<<53)
		cur.kind, cur.value, cur.w = 1, valueInt(i), true
		cur.repr = cur.value
		if shape == 2 {
			cur.w = vNondetBool("extra.writable")
			cur.repr = &valueProperty{value: cur.value, writable: cur.w, enumerable: cur.e, configurable: cur.c}
		}
		return cur
	}
	cur.kind = 2
	if shape == 4 {
		cur.g, cur.s = 1, 1
	}
	cur.repr = &valueProperty{accessor: true, enumerable: cur.e, configurable: cur.c, getterFunc: w.fnOf(cur.g), setterFunc: w.fnOf(cur.s)}
	return cur
}

// a fresh object in the drawn state (records are copied: goja updates them in place)
func (c *vC04mCase) build() *stringObject {
	s := vC04mString(c.w.r, c.str, c.ext)
	if c.where == vC04mOrdinary && c.cur.kind != 0 {
		var v Value = c.cur.repr
		if c.rec != nil {
			cp := *c.rec
			v = &cp
		}
		s.values[c.name] = v
		s.propNames = append(s.propNames, c.name)
	}
	return s
}

// SameValue on the universe of these harnesses: undefined, safe-integer Numbers, ASCII strings, f1/f2
func vC04mSame(a, b Value) bool {
	if x, ok := a.(asciiString); ok {
		if y, ok := b.(asciiString); ok {
			return x == y
		}
		return false
	}
	if _, ok := b.(asciiString); ok {
		return false
	}
	return vC04SameValue(a, b)
}

// the own property as the object itself reports it (string form), decoded
func (c *vC04mCase) observe(s *stringObject) (present bool, got vC04Got) {
	v := s.getOwnPropStr(c.name)
	if v == nil {
		return false, vC04Got{}
	}
	return true, c.w.decode(v)
}

// got is exactly the property `cur` (cur.kind and present are concrete on every path)
func (c *vC04mCase) sameAsCur(present bool, got vC04Got) bool {
	cur := c.cur
	if cur.kind == 0 || !present {
		return cur.kind == 0 && !present
	}
	flags := refAnd(got.kind == cur.kind, refAnd(got.e == cur.e, got.c == cur.c))
	if cur.kind == 1 {
		return refAnd(flags, refAnd(got.w == cur.w, vC04mSame(got.value, cur.value)))
	}
	return refAnd(flags, refAnd(got.g == cur.g, got.s == cur.s))
}

// representation: the characters never leak into the ordinary property table, the value is untouched
func (c *vC04mCase) reprOK(s *stringObject) bool {
	if v, ok := s.value.(asciiString); !ok || string(v) != c.str || s.length != c.L {
		return false
	}
	if c.where == vC04mStrIndex {
		if _, exists := s.values[c.name]; exists {
			return false
		}
	}
	lp, _ := s.values["length"].(*valueProperty)
	return lp == &s.lengthProp && !lp.writable && !lp.enumerable && !lp.configurable && !lp.accessor
}

// ---- H04.5.read: [[GetOwnProperty]] / HasOwnProperty / [[Get]] ----

func H_C04_string_read() {
	c := vC04mSetup(15, true)
	s := c.build()
	vS := s.getOwnPropStr(c.name)
	hasS := s.hasOwnPropertyStr(c.name)
	getS := s.getStr(c.name, nil)
	var vI, getI Value
	hasI := false
	if c.hasIdx {
		vI = s.getOwnPropIdx(c.idx)
		hasI = s.hasOwnPropertyIdx(c.idx)
		getI = s.getIdx(c.idx, nil)
	}
	cur := c.cur
	// [[Get]]: data -> the value; accessor -> the getter's result (f1 returns undefined); absent -> undefined (nil)
	wantGet := func(v Value) bool {
		if cur.kind == 1 {
			return v != nil && vC04mSame(v, cur.value)
		}
		return v == nil || v == _undefined
	}
	gs := vC04Got{}
	if vS != nil {
		gs = c.w.decode(vS)
	}
	vAssert("read.str:getOwnProperty==StringGetOwnProperty", c.sameAsCur(vS != nil, gs))
	vAssert("read.str:hasOwnProperty", hasS == (cur.kind != 0))
	vAssert("read.str:get", wantGet(getS))
	if c.where == vC04mStrIndex {
		vReach("read:string-index")
		vAssert("inv:string-index-is-nonwritable-nonconfigurable-enumerable", vS != nil && !gs.w && !gs.c && gs.e && gs.kind == 1)
	}
	if c.hasIdx {
		gi := vC04Got{}
		if vI != nil {
			gi = c.w.decode(vI)
		}
		known := c.where == vC04mOrdinary && c.idxGE && cur.kind != 0
		vAssertK("read.idx:getOwnProperty==StringGetOwnProperty", c.sameAsCur(vI != nil, gi), known, "F-C04-string-getOwnPropIdx-beyond-length")
		vAssert("read.idx:hasOwnProperty", hasI == (cur.kind != 0))
		vAssert("read.idx:get", wantGet(getI))
	}
	vAssert("read:representation-unchanged", c.reprOK(s))
}

// ---- H04.5.delete: [[Delete]] (ordinary 10.1.10 over the exotic [[GetOwnProperty]]) ----

func H_C04_string_delete() {
	c := vC04mSetup(15, true)
	throw := vNondetBool("throw")
	cur := c.cur
	expOK := cur.kind == 0 || cur.c
	run := func(idxForm bool) (out vOutcome, res bool, s *stringObject) {
		s = c.build()
		out = vCatch(func() {
			if idxForm {
				res = s.deleteIdx(c.idx, throw)
			} else {
				res = s.deleteStr(c.name, throw)
			}
		})
		return
	}
	outS, resS, sS := run(false)
	presS, gotS := c.observe(sS)
	okS := outS.panicked == refAnd(!expOK, throw) && refOr(outS.panicked, resS == expOK) && refImp(outS.panicked, outS.kind == "TypeError")
	vAssert("delete.str:result==OrdinaryDelete", okS)
	vAssert("delete.str:gone-iff-configurable", refImp(expOK, !presS) && refImp(!expOK, c.sameAsCur(presS, gotS)))
	vAssert("inv:nonconfigurable-not-deleted(str)", refImp(cur.kind != 0 && !cur.c, presS))
	vAssert("delete.str:representation", c.reprOK(sS))
	if c.hasIdx {
		outI, resI, sI := run(true)
		presI, gotI := c.observe(sI)
		okI := outI.panicked == refAnd(!expOK, throw) && refOr(outI.panicked, resI == expOK) && refImp(outI.panicked, outI.kind == "TypeError")
		vAssert("delete.idx:result==OrdinaryDelete", okI)
		vAssert("delete.idx:gone-iff-configurable", refImp(expOK, !presI) && refImp(!expOK, c.sameAsCur(presI, gotI)))
		vAssert("delete.idx:representation", c.reprOK(sI))
	}
}

// ---- H04.5.set: [[Set]] with the object itself as receiver, null prototype (OrdinarySet 10.1.9.2) ----

func H_C04_string_set() {
	c := vC04mSetup(15, true)
	throw := vNondetBool("throw")
	cur := c.cur
	val := valueInt(7)
	// ownDesc absent: CreateDataProperty (needs extensible); data: writable; accessor: setter present
	expOK := c.ext
	if cur.kind == 1 {
		expOK = cur.w
	}
	if cur.kind == 2 {
		expOK = cur.s != 0
	}
	run := func(idxForm bool) (out vOutcome, res bool, s *stringObject) {
		s = c.build()
		out = vCatch(func() {
			if idxForm {
				res = s.setOwnIdx(c.idx, val, throw)
			} else {
				res = s.setOwnStr(c.name, val, throw)
			}
		})
		return
	}
	// expected own property afterwards
	post := func(s *stringObject) bool {
		pres, got := c.observe(s)
		if cur.kind == 2 {
			return c.sameAsCur(pres, got)
		}
		if cur.kind == 0 {
			created := pres && got.kind == 1 && got.w && got.e && got.c && vC04mSame(got.value, val)
			return refImp(expOK, created) && refImp(!expOK, !pres)
		}
		same := pres && got.kind == 1 && got.w == cur.w && got.e == cur.e && got.c == cur.c
		return same && refImp(expOK, vC04mSame(got.value, val)) && refImp(!expOK, vC04mSame(got.value, cur.value))
	}
	outS, resS, sS := run(false)
	okS := outS.panicked == refAnd(!expOK, throw) && refOr(outS.panicked, resS == expOK) && refImp(outS.panicked, outS.kind == "TypeError")
	vAssert("set.str:result==OrdinarySet", okS)
	vAssert("set.str:post-state", post(sS))
	vAssert("set.str:representation", c.reprOK(sS))
	if c.where == vC04mStrIndex {
		vAssert("inv:string-index-never-written", !resS || outS.panicked)
	}
	if c.hasIdx {
		outI, resI, sI := run(true)
		okI := outI.panicked == refAnd(!expOK, throw) && refOr(outI.panicked, resI == expOK) && refImp(outI.panicked, outI.kind == "TypeError")
		vAssert("set.idx:result==OrdinarySet", okI)
		vAssert("set.idx:post-state", post(sI))
		vAssert("set.idx:representation", c.reprOK(sI))
	}
}

// ---- H04.5.define: [[DefineOwnProperty]] (10.4.3.2) ----
// string index: IsCompatiblePropertyDescriptor(extensible, Desc, {char, W:false, E:true, C:false}) and NOTHING is applied;
// any other key: OrdinaryDefineOwnProperty (checked against the same reference as H04.1, read back through the object).

func hC04StringDefine(family int) {
	// keys: the integer keys 0, 1, 2, -1 on a string of length N=2 (the key classification of arbitrary strings is H04.5.read's)
	c := vC04mSetupL(1, false, vBound("N"))
	vAssume(c.idx <= 2)
	cur := c.cur
	d := c.w.descriptor("desc", family, cur)
	// the whole descriptor table only for key 0; the other keys (1: last index, 2: first key past the string,
	// -1) show the routing with the three attribute fields tied together
	if c.idx != 0 {
		vAssume(d.dE == d.dC && (family == 1 || d.dW == d.dC))
	}
	// no pre-existing accessor here: a second function object adds nothing
	vAssume(d.dG <= 1 && d.dS <= 1)
	if c.where == vC04mStrIndex && d.hasV {
		// value universe for a character property: undefined / Number / a one-character string (equal or not)
		if vChoice("desc.value.isChar", 2) == 1 {
			ch := vNondetString("desc.value.char", 1)
			vAssume(ch[0] < 0x80)
			d.d.Value = asciiString(ch)
		}
	}
	throw := vNondetBool("throw")
	sameV := false
	if d.hasV && cur.kind == 1 {
		sameV = vC04mSame(d.d.Value, cur.value)
	}
	ref := specC04Validate(c.ext, cur.kind, cur.w, cur.e, cur.c, cur.g, cur.s, d.dW, d.dE, d.dC, d.hasV, sameV, d.dG, d.dS)
	isIndex := c.where == vC04mStrIndex
	// F-C04-string-define-same-char: the character itself is not compared (existing.value is nil)
	kSame := isIndex && d.hasV && sameV

	run := func(idxForm bool) (out vOutcome, res bool, s *stringObject) {
		s = c.build()
		out = vCatch(func() {
			if idxForm {
				res = s.defineOwnPropertyIdx(c.idx, d.d, throw)
			} else {
				res = s.defineOwnPropertyStr(c.name, d.d, throw)
			}
		})
		return
	}
	// the own property afterwards: unchanged when rejected or when the key is a string index, else the reference record
	post := func(s *stringObject) bool {
		pres, got := c.observe(s)
		if isIndex {
			return c.sameAsCur(pres, got)
		}
		if !pres {
			return !ref.ok && cur.kind == 0
		}
		unchanged := c.sameAsCur(pres, got)
		flags := refAnd(got.kind == ref.kind, refAnd(got.e == ref.e, got.c == ref.c))
		val := refC04ValueOK(ref.vsel, got.value == _undefined, vC04mSame(got.value, d.d.Value), cur.kind == 1 && vC04mSame(got.value, cur.value))
		data := refAnd(got.w == ref.w, val)
		acc := refAnd(got.g == ref.g, got.s == ref.s)
		body := refOr(refAnd(ref.kind == 1, data), refAnd(ref.kind == 2, acc))
		applied := refAnd(flags, body)
		return refOr(refAnd(ref.ok, applied), refAnd(!ref.ok, unchanged))
	}
	outS, resS, sS := run(false)
	okS := refAnd(outS.panicked == refAnd(!ref.ok, throw), refOr(outS.panicked, resS == ref.ok))
	vAssertK("define.str:accept==ValidateAndApply", okS, kSame, "F-C04-string-define-same-char")
	vAssert("define.str:only-TypeError", refImp(outS.panicked, outS.kind == "TypeError"))
	vAssert("define.str:post-state", post(sS))
	vAssert("define.str:representation", c.reprOK(sS))
	if isIndex {
		vReach("define:string-index")
	}
	if c.hasIdx {
		outI, resI, sI := run(true)
		okI := refAnd(outI.panicked == refAnd(!ref.ok, throw), refOr(outI.panicked, resI == ref.ok))
		// F-C04-string-define-idx-rejects-all: the integer-key entry point rejects every descriptor on a string index
		kIdx := isIndex && ref.ok
		vAssertK("define.idx:accept==ValidateAndApply", okI, kIdx, "F-C04-string-define-idx-rejects-all")
		vAssert("define.idx:only-TypeError", refImp(outI.panicked, outI.kind == "TypeError"))
		vAssert("define.idx:post-state", post(sI))
		vAssert("define.idx:representation", c.reprOK(sI))
	}
}

func H_C04_string_define_data()     { hC04StringDefine(0) }
func H_C04_string_define_accessor() { hC04StringDefine(1) }

// ---- H04.5.keys: [[OwnPropertyKeys]] (10.4.3.3): string indices ascending, then integer-index own properties
// ascending, then string keys in creation order ("length" is created with the object), through both the listing
// (stringKeys) and the for-in source (iterateStringKeys) ----

var vC04mKeyPool = []struct {
	n     unistring.String
	isIdx bool
	v     int
}{{"7", true, 7}, {"3", true, 3}, {"x", false, 0}, {"03", false, 0}, {"-1", false, 0}, {"4294967295", false, 0}}

func H_C04_string_keys() {
	r := vRuntime()
	L := vChoice("string.length", vBound("N")+1)
	s := vC04mString(r, "abcdefgh"[:L], true)
	var order []int
	for n := 0; n < vBound("K"); n++ {
		k := vChoice("add", len(vC04mKeyPool)+1)
		if k == len(vC04mKeyPool) {
			break
		}
		dup := false
		for _, x := range order {
			if x == k {
				dup = true
			}
		}
		vAssume(!dup)
		if vC04mKeyPool[k].isIdx {
			s.setOwnIdx(valueInt(int64(vC04mKeyPool[k].v)), valueInt(1), false)
		} else {
			s.setOwnStr(vC04mKeyPool[k].n, valueInt(1), false)
		}
		order = append(order, k)
	}
	var exp []unistring.String
	for i := 0; i < L; i++ {
		exp = append(exp, unistring.String("01234567"[i:i+1]))
	}
	for v := 0; v < 10; v++ {
		for _, k := range order {
			if vC04mKeyPool[k].isIdx && vC04mKeyPool[k].v == v {
				exp = append(exp, vC04mKeyPool[k].n)
			}
		}
	}
	exp = append(exp, "length")
	for _, k := range order {
		if !vC04mKeyPool[k].isIdx {
			exp = append(exp, vC04mKeyPool[k].n)
		}
	}
	keys := s.stringKeys(true, nil)
	same := len(keys) == len(exp)
	if same {
		for i := range keys {
			if keys[i].string() != exp[i] {
				same = false
			}
		}
	}
	vAssert("keys:string-indices,integer-keys-ascending,strings-in-creation-order", same)
	enumKeys := s.stringKeys(false, nil)
	vAssert("keys:enumerable-listing-omits-only-length", len(enumKeys) == len(exp)-1)
	var iterated []unistring.String
	next := s.iterateStringKeys()
	for n := 0; n < 20 && next != nil; n++ {
		var item propIterItem
		item, next = next()
		if next != nil {
			iterated = append(iterated, item.name.string())
		}
	}
	sameIt := len(iterated) == len(exp)
	if sameIt {
		for i := range iterated {
			if iterated[i] != exp[i] {
				sameIt = false
			}
		}
	}
	vAssert("keys:iteration-order==listing-order", sameIt)
	uniq := true
	for i := range keys {
		for j := 0; j < i; j++ {
			if keys[i].string() == keys[j].string() {
				uniq = false
			}
		}
		if !s.hasOwnPropertyStr(keys[i].string()) {
			uniq = false
		}
	}
	vAssert("keys:unique-and-each-is-an-own-property", uniq)
}

// ---- H04.5.setForeign: the String object as a prototype: OrdinarySet step 2-3 on its own property ----
// (handled=true,false) for a non-writable data property / setter-less accessor; setter called for an accessor with
// setter; otherwise not handled (the caller continues with the receiver)

func H_C04_string_setForeign() {
	c := vC04mSetup(1|2|8, true)
	throw := vNondetBool("throw")
	cur := c.cur
	recv, _ := vC04Obj(c.w.r, true)
	reject := false
	handledOK := false
	if cur.kind == 1 {
		reject = !cur.w
	}
	if cur.kind == 2 {
		reject = cur.s == 0
		handledOK = cur.s != 0
	}
	run := func(idxForm bool) (out vOutcome, res, handled bool, s *stringObject) {
		s = c.build()
		out = vCatch(func() {
			if idxForm {
				res, handled = s.setForeignIdx(c.idx, valueInt(7), recv, throw)
			} else {
				res, handled = s.setForeignStr(c.name, valueInt(7), recv, throw)
			}
		})
		return
	}
	check := func(out vOutcome, res, handled bool) bool {
		if out.panicked {
			return reject && throw && out.kind == "TypeError"
		}
		if reject {
			return !throw && handled && !res
		}
		if handledOK {
			return handled && res
		}
		return !handled
	}
	outS, resS, hS, sS := run(false)
	vAssert("setForeign.str==OrdinarySet-on-own-descriptor", check(outS, resS, hS))
	pS, gS := c.observe(sS)
	vAssert("setForeign.str:prototype-untouched", c.sameAsCur(pS, gS) && c.reprOK(sS))
	if c.hasIdx {
		outI, resI, hI, sI := run(true)
		known := c.where == vC04mOrdinary && c.idxGE && cur.kind != 0
		vAssertK("setForeign.idx==OrdinarySet-on-own-descriptor", check(outI, resI, hI), known, "F-C04-string-getOwnPropIdx-beyond-length")
		pI, gI := c.observe(sI)
		vAssert("setForeign.idx:prototype-untouched", c.sameAsCur(pI, gI) && c.reprOK(sI))
	}
	vAssert("setForeign:receiver-untouched", len(recv.self.(*baseObject).values) == 0)
}

// ---------------------------------------------------------------------
// H04.6 — mapped arguments object (10.4.4): property "0" is either MAPPED to a parameter slot or an ordinary
// plain value (an extra argument). Reference: the ordinary algorithm on {value: slot, writable: true, e, c} plus
// 10.4.4.2 (value written through, mapping removed by an accessor / writable:false), 10.4.4.4 [[Set]] (written
// through), 10.4.4.5 [[Delete]] (mapping removed). Both key forms ("0" and the Number 0).

type vC04aCase struct {
	w      *vC04World
	ext    bool
	mapped bool
	e, c   bool
	slot   Value
	cur    *vC04Cur
}

func vC04aSetup() *vC04aCase {
	k := &vC04aCase{w: vC04NewWorld()}
	k.ext = vNondetBool("extensible")
	k.mapped = vChoice("mapped", 2) == 1
	k.e, k.c = true, true
	if k.mapped {
		k.e = vNondetBool("mapped.enumerable")
		k.c = vNondetBool("mapped.configurable")
	}
	i := vNondetInt64("slot.value")
	vAssume(i >= -(1<<53) && i <= 1<<53)
	k.slot = valueInt(i)
	k.cur = &vC04Cur{kind: 1, w: true, e: k.e, c: k.c, value: k.slot}
	return k
}

func (k *vC04aCase) build() (*argumentsObject, *Value) {
	o := &Object{runtime: k.w.r}
	a := &argumentsObject{}
	a.extensible = k.ext
	a.class = "Arguments"
	o.self = a
	a.val = o
	a.length = 1
	a.init()
	slot := new(Value)
	*slot = k.slot
	if k.mapped {
		// representation invariant (createArgsMapped, re-asserted below): a mapped record is a writable data record
		a._put("0", &mappedProperty{valueProperty: valueProperty{writable: true, configurable: k.c, enumerable: k.e}, v: slot})
	} else {
		a._put("0", k.slot)
	}
	return a, slot
}

type vC04aObs struct {
	present, mapped, reprOK, linked bool
	got                             vC04Got
	slot                            Value
}

// observe the property, the slot, the representation, and (behaviourally) whether the two are still linked
func (k *vC04aCase) observe(a *argumentsObject, slot *Value) (ob vC04aObs) {
	v := a.getOwnPropStr("0")
	ob.present = v != nil
	if ob.present {
		ob.got = k.w.decode(v)
	}
	ob.slot = *slot
	mp, isMapped := a.values["0"].(*mappedProperty)
	ob.mapped = isMapped
	ob.reprOK = true
	if isMapped {
		ob.reprOK = mp.writable && !mp.accessor && mp.v == slot && mp.getterFunc == nil && mp.setterFunc == nil
	}
	// linkage: a write to the parameter is visible through the object iff mapped
	*slot = valueInt(1 << 60)
	after := a.getStr("0", nil)
	ob.linked = after == valueInt(1<<60)
	*slot = ob.slot
	return
}

func hC04ArgsDefine(family int) {
	k := vC04aSetup()
	cur := k.cur
	d := k.w.descriptor("desc", family, cur)
	vAssume(d.dG <= 1 && d.dS <= 1)
	if !k.mapped {
		// ordinary extra argument: routing only (H04.1 has the table)
		vAssume(d.dE == d.dC && (family == 1 || d.dW == d.dC))
	}
	throw := vNondetBool("throw")
	sameV := false
	if d.hasV {
		sameV = vC04SameValue(d.d.Value, cur.value)
	}
	ref := specC04Validate(k.ext, 1, true, cur.e, cur.c, 0, 0, d.dW, d.dE, d.dC, d.hasV, sameV, d.dG, d.dS)
	// 10.4.4.2 step 6: mapping survives unless the definition succeeded with an accessor or writable:false
	expMapped := refAnd(k.mapped, refOr(!ref.ok, refAnd(ref.kind == 1, ref.w)))
	writeThrough := refAnd(refAnd(k.mapped, ref.ok), refAnd(ref.kind == 1, d.hasV))

	run := func(idxForm bool) (out vOutcome, res bool, ob vC04aObs) {
		a, slot := k.build()
		out = vCatch(func() {
			if idxForm {
				res = a.defineOwnPropertyIdx(valueInt(0), d.d, throw)
			} else {
				res = a.defineOwnPropertyStr("0", d.d, throw)
			}
		})
		ob = k.observe(a, slot)
		return
	}
	post := func(ob vC04aObs) bool {
		got := ob.got
		if !ob.present {
			return false
		}
		unchanged := refAnd(refAnd(got.kind == 1, got.w), refAnd(refAnd(got.e == cur.e, got.c == cur.c), vC04SameValue(got.value, cur.value)))
		flags := refAnd(got.kind == ref.kind, refAnd(got.e == ref.e, got.c == ref.c))
		val := refC04ValueOK(ref.vsel, got.value == _undefined, vC04SameValue(got.value, d.d.Value), vC04SameValue(got.value, cur.value))
		data := refAnd(got.w == ref.w, val)
		acc := refAnd(got.g == ref.g, got.s == ref.s)
		body := refOr(refAnd(ref.kind == 1, data), refAnd(ref.kind == 2, acc))
		return refOr(refAnd(ref.ok, refAnd(flags, body)), refAnd(!ref.ok, unchanged))
	}
	slotOK := func(ob vC04aObs) bool {
		return refOr(refAnd(writeThrough, vC04SameValue(ob.slot, d.d.Value)), refAnd(!writeThrough, vC04SameValue(ob.slot, k.slot)))
	}
	outS, resS, obS := run(false)
	vAssert("args.define.str:accept==ValidateAndApply", refAnd(outS.panicked == refAnd(!ref.ok, throw), refOr(outS.panicked, resS == ref.ok)))
	vAssert("args.define.str:only-TypeError", refImp(outS.panicked, outS.kind == "TypeError"))
	vAssert("args.define.str:resulting-property", post(obS))
	vAssert("args.define.str:mapping-kept-or-removed-per-10.4.4.2", obS.mapped == expMapped && obS.linked == expMapped)
	vAssert("args.define.str:parameter-written-through-iff-mapped-and-value-given", slotOK(obS))
	vAssert("args.define.str:INV-mapped-record-is-writable-data", obS.reprOK)
	outI, resI, obI := run(true)
	vAssert("args.define.idx:accept==ValidateAndApply", refAnd(outI.panicked == refAnd(!ref.ok, throw), refOr(outI.panicked, resI == ref.ok)))
	vAssert("args.define.idx:resulting-property", post(obI))
	vAssert("args.define.idx:mapping-kept-or-removed-per-10.4.4.2", obI.mapped == expMapped && obI.linked == expMapped)
	vAssert("args.define.idx:parameter-written-through-iff-mapped-and-value-given", slotOK(obI))
}

func H_C04_args_define_data()     { hC04ArgsDefine(0) }
func H_C04_args_define_accessor() { hC04ArgsDefine(1) }

// [[Set]] (receiver = the object), [[Delete]], [[GetOwnProperty]] / [[Get]] on the same states
func H_C04_args_setDelete() {
	k := vC04aSetup()
	cur := k.cur
	op := vChoice("op", 3) // 0 read, 1 set, 2 delete
	idxForm := vChoice("key.form", 2) == 1
	throw := vNondetBool("throw")
	a, slot := k.build()
	val := valueInt(7)
	var res bool
	var own, get Value
	out := vCatch(func() {
		switch op {
		case 0:
			if idxForm {
				own, get, res = a.getOwnPropIdx(valueInt(0)), a.getIdx(valueInt(0), nil), a.hasOwnPropertyIdx(valueInt(0))
			} else {
				own, get, res = a.getOwnPropStr("0"), a.getStr("0", nil), a.hasOwnPropertyStr("0")
			}
		case 1:
			if idxForm {
				res = a.setOwnIdx(valueInt(0), val, throw)
			} else {
				res = a.setOwnStr("0", val, throw)
			}
		default:
			if idxForm {
				res = a.deleteIdx(valueInt(0), throw)
			} else {
				res = a.deleteStr("0", throw)
			}
		}
	})
	ob := k.observe(a, slot)
	unchanged := ob.present && refAnd(refAnd(ob.got.kind == 1, ob.got.w), refAnd(refAnd(ob.got.e == cur.e, ob.got.c == cur.c), vC04SameValue(ob.got.value, cur.value)))
	switch op {
	case 0:
		g := vC04Got{}
		if own != nil {
			g = k.w.decode(own)
		}
		vAssert("args.read:getOwnProperty-reports-the-parameter-value", own != nil && refAnd(refAnd(g.kind == 1, g.w), refAnd(refAnd(g.e == cur.e, g.c == cur.c), vC04SameValue(g.value, k.slot))))
		vAssert("args.read:get==parameter", get != nil && vC04SameValue(get, k.slot) && res && !out.panicked)
		vAssert("args.read:nothing-changes", unchanged && ob.mapped == k.mapped && ob.linked == k.mapped && vC04SameValue(ob.slot, k.slot))
	case 1:
		// a mapped / plain property is a writable data property: [[Set]] succeeds, flags stay, value (and parameter) updated
		vAssert("args.set:succeeds", res && !out.panicked)
		vAssert("args.set:value-and-flags", ob.present && refAnd(refAnd(ob.got.kind == 1, ob.got.w), refAnd(refAnd(ob.got.e == cur.e, ob.got.c == cur.c), vC04SameValue(ob.got.value, val))))
		vAssert("args.set:written-through-iff-mapped", ob.mapped == k.mapped && ob.linked == k.mapped && refImp(k.mapped, vC04SameValue(ob.slot, val)) && refImp(!k.mapped, vC04SameValue(ob.slot, k.slot)))
	default:
		expOK := cur.c
		vAssert("args.delete:result==OrdinaryDelete", refAnd(out.panicked == refAnd(!expOK, throw), refOr(out.panicked, res == expOK)) && refImp(out.panicked, out.kind == "TypeError"))
		vAssert("args.delete:gone-and-unmapped-iff-configurable", refImp(expOK, !ob.present && !ob.mapped && !ob.linked) && refImp(!expOK, unchanged && ob.mapped == k.mapped && ob.linked == k.mapped))
		vAssert("args.delete:parameter-untouched", vC04SameValue(ob.slot, k.slot))
	}
	vAssert("args:INV-mapped-record-is-writable-data", ob.reprOK)
}

// ---------------------------------------------------------------------
// H04.7 — ordinary objects: symbol keys agree with string keys; non-extensible objects keep keys and prototype.

// the same own property under a string key and under a symbol key of two twin objects; the same operation on both
func H_C04_symbolKeys() {
	w := vC04NewWorld()
	ext := vNondetBool("extensible")
	cur := w.mCurrent(true)
	op := vChoice("op", 4) // 0 define(data family) 1 define(accessor family) 2 delete 3 read
	var d *vC04Desc
	if op <= 1 {
		d = w.descriptor("desc", op, cur)
		vAssume(d.dE == d.dC && d.dG <= 1 && d.dS <= 1)
	} else {
		d = &vC04Desc{dG: -1, dS: -1}
	}
	throw := vNondetBool("throw")
	sym := &Symbol{desc: asciiString("s")}
	name := unistring.String("k")
	rec, _ := cur.repr.(*valueProperty)
	clone := func() Value {
		if rec != nil {
			cp := *rec
			return &cp
		}
		return cur.repr
	}
	_, bs := vC04Obj(w.r, ext)
	_, by := vC04Obj(w.r, ext)
	if cur.kind != 0 {
		bs._put(name, clone())
		by._putSym(sym, clone())
	}
	var resS, resY, hasS, hasY bool
	outS := vCatch(func() {
		switch op {
		case 0, 1:
			resS = bs.defineOwnPropertyStr(name, d.d, throw)
		case 2:
			resS = bs.deleteStr(name, throw)
		default:
			hasS = bs.hasOwnPropertyStr(name)
		}
	})
	outY := vCatch(func() {
		switch op {
		case 0, 1:
			resY = by.defineOwnPropertySym(sym, d.d, throw)
		case 2:
			resY = by.deleteSym(sym, throw)
		default:
			hasY = by.hasOwnPropertySym(sym)
		}
	})
	vS := bs.getOwnPropStr(name)
	vY := by.getOwnPropSym(sym)
	var gS, gY vC04Got
	if vS != nil {
		gS = w.decode(vS)
	}
	if vY != nil {
		gY = w.decode(vY)
	}
	// --- agreement between the key kinds ---
	vAssert("sym:same-outcome-as-string-key", outS.panicked == outY.panicked && outS.kind == outY.kind && resS == resY && hasS == hasY)
	sameRec := (vS != nil) == (vY != nil)
	if sameRec && vS != nil {
		sameRec = refAnd(refAnd(gS.kind == gY.kind, gS.w == gY.w), refAnd(refAnd(gS.e == gY.e, gS.c == gY.c), refAnd(refAnd(gS.g == gY.g, gS.s == gY.s), refOr(gS.kind != 1, vC04SameValue(gS.value, gY.value)))))
	}
	vAssert("sym:same-resulting-property-as-string-key", sameRec)
	// --- and the symbol side against the reference directly ---
	present := vY != nil
	unchanged := (cur.kind == 0 && !present)
	if cur.kind != 0 && present {
		unchanged = refAnd(refAnd(gY.kind == cur.kind, refAnd(gY.e == cur.e, gY.c == cur.c)),
			refOr(refAnd(cur.kind == 1, refAnd(gY.w == cur.w, vC04SameValue(gY.value, cur.value))), refAnd(cur.kind == 2, refAnd(gY.g == cur.g, gY.s == cur.s))))
	}
	switch op {
	case 0, 1:
		sameV := false
		if d.hasV && cur.kind == 1 {
			sameV = vC04SameValue(d.d.Value, cur.value)
		}
		ref := specC04Validate(ext, cur.kind, cur.w, cur.e, cur.c, cur.g, cur.s, d.dW, d.dE, d.dC, d.hasV, sameV, d.dG, d.dS)
		vAssert("sym.define:accept==ValidateAndApply", refAnd(outY.panicked == refAnd(!ref.ok, throw), refOr(outY.panicked, resY == ref.ok)))
		applied := false
		if present {
			flags := refAnd(gY.kind == ref.kind, refAnd(gY.e == ref.e, gY.c == ref.c))
			val := refC04ValueOK(ref.vsel, gY.value == _undefined, vC04SameValue(gY.value, d.d.Value), cur.kind == 1 && vC04SameValue(gY.value, cur.value))
			body := refOr(refAnd(ref.kind == 1, refAnd(gY.w == ref.w, val)), refAnd(ref.kind == 2, refAnd(gY.g == ref.g, gY.s == ref.s)))
			applied = refAnd(flags, body)
		}
		vAssert("sym.define:resulting-property", refOr(refAnd(ref.ok, applied), refAnd(!ref.ok, unchanged)))
		vAssert("inv:non-extensible-gains-no-symbol-key", refImp(!ext && cur.kind == 0, !present))
	case 2:
		expOK := cur.kind == 0 || cur.c
		vAssert("sym.delete:result==OrdinaryDelete", refAnd(outY.panicked == refAnd(!expOK, throw), refOr(outY.panicked, resY == expOK)))
		vAssert("sym.delete:gone-iff-configurable", refImp(expOK, !present) && refImp(!expOK, unchanged))
		keyListed := false
		for _, kv := range by.symbols(true, nil) {
			if kv == Value(sym) {
				keyListed = true
			}
		}
		vAssert("sym.delete:ownKeys-consistent", keyListed == present)
	default:
		vAssert("sym.read:hasOwnProperty", hasY == (cur.kind != 0) && unchanged && !outY.panicked)
	}
}

// OrdinarySetPrototypeOf (10.1.2.1) / OrdinaryPreventExtensions (10.1.4.1): a non-extensible object keeps its
// prototype and gains no key of either kind; cycles are refused
func H_C04_protoExtensible() {
	w := vC04NewWorld()
	ext := vNondetBool("extensible")
	o, b := vC04Obj(w.r, ext)
	child, cb := vC04Obj(w.r, true) // child -> o : setting o's prototype to child would close a cycle
	cb.prototype = o
	cands := []*Object{nil, w.f1, w.f2, o, child}
	curP := vChoice("proto.current", 3)
	newP := vChoice("proto.new", 5)
	prevent := vChoice("preventExtensions.first", 2) == 1
	throw := vNondetBool("throw")
	b.prototype = cands[curP]
	if prevent {
		okP := b.preventExtensions(throw)
		vAssert("preventExtensions:succeeds-and-sticks", okP && !b.isExtensible())
		ext = false
	}
	var res bool
	out := vCatch(func() { res = b.setProto(cands[newP], throw) })
	same := newP == curP
	cycle := newP >= 3
	expOK := refOr(same, refAnd(ext, !cycle))
	vAssert("setProto:result==OrdinarySetPrototypeOf", refAnd(out.panicked == refAnd(!expOK, throw), refOr(out.panicked, res == expOK)) && refImp(out.panicked, out.kind == "TypeError"))
	wantP := cands[curP]
	if newP < 3 {
		wantP = cands[newP]
	}
	vAssert("setProto:prototype-afterwards", refImp(expOK, b.proto() == wantP) && refImp(!expOK, b.proto() == cands[curP]))
	vAssert("inv:non-extensible-keeps-its-prototype", refImp(!ext, b.proto() == cands[curP]))
	vAssert("inv:no-prototype-cycle", b.proto() != o && b.proto() != child)
	// a non-extensible object gains no key, whichever entry point and key kind
	sym := &Symbol{desc: asciiString("s")}
	full := PropertyDescriptor{Value: valueInt(1), Writable: FLAG_TRUE, Enumerable: FLAG_TRUE, Configurable: FLAG_TRUE}
	b.prototype = nil
	r1 := b.defineOwnPropertyStr("k", full, false)
	r2 := b.defineOwnPropertySym(sym, full, false)
	r3 := b.setOwnStr("k2", valueInt(1), false)
	r4 := b.setOwnSym(&Symbol{desc: asciiString("t")}, valueInt(1), false)
	r5 := b.defineOwnPropertyIdx(valueInt(4), full, false)
	all := r1 && r2 && r3 && r4 && r5
	none := !r1 && !r2 && !r3 && !r4 && !r5
	nkeys := len(b.keys(true, nil))
	vAssert("inv:non-extensible-gains-no-key-any-kind", refImp(!ext, none && nkeys == 0) && refImp(ext, all && nkeys == 5))
	vAssert("extensible-flag-unchanged-by-setProto", b.isExtensible() == ext)
}
