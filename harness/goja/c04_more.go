package goja

import "github.com/dop251/goja/unistring"

// ---------------------------------------------------------------------
// C04 (second wave) — exotic object kinds and symbol keys.
//
//   H04.5.*  String exotic objects (ECMA-262 10.4.3) : string.go `stringObject`
//   H04.6.*  mapped arguments objects (10.4.4)       : object_args.go `argumentsObject`
//   H04.7.*  symbol keys of ordinary objects agree with string keys; non-extensible keeps its prototype
//
// The reference for every operation is the ORDINARY algorithm (10.1.x) applied to the property the exotic
// [[GetOwnProperty]] of the spec reports for the key (`cur`), plus the documented exotic twist.

// ---- String exotic object built by hand (no global object needed; prototype null) ----

func vC04mString(r *Runtime, str string, ext bool) *stringObject {
	o := &Object{runtime: r}
	s := &stringObject{}
	s.val = o
	s.class = classString
	s.extensible = ext
	s.value = asciiString(str)
	s.init()
	o.self = s
	return s
}

// integer-Number keys (presented to goja as valueInt AND as their decimal string)
var vC04mIntKeys = []struct {
	n unistring.String
	i int64
}{{"0", 0}, {"1", 1}, {"2", 2}, {"3", 3}, {"-1", -1}, {"4294967296", 1 << 32}}

const (
	vC04mOrdinary = 0 // key handled by the ordinary part of the object
	vC04mStrIndex = 1 // key is an integer index inside the string
	vC04mLength   = 2 // "length"
)

type vC04mCase struct {
	w      *vC04World
	L      int
	str    string
	ext    bool
	name   unistring.String
	hasIdx bool // the key is an integer Number: the *Idx entry points apply
	idx    valueInt
	idxGE  bool // integer key >= L (class of F-C04-string-getOwnPropIdx-beyond-length)
	where  int
	ci     int       // where == vC04mStrIndex: the index
	cur    *vC04Cur  // the own property 10.4.3.1 [[GetOwnProperty]] reports (kind 0: none)
	rec    *valueProperty
}

// vC04mSetup draws: string of length 0..N with arbitrary ASCII content, extensible flag, a key
// (integer Number key / arbitrary 1- or 2-byte string / "length"), and — when the key is not a string index —
// an arbitrary ordinary own property under that key (absent / plain / data record / accessor record).
// keyModes: bit 0 integer keys, bit 1 one-byte strings, bit 2 two-byte strings, bit 3 "length"
func vC04mSetup(keyModes int, richExtra bool) *vC04mCase { return vC04mSetupL(keyModes, richExtra, 0) }

func vC04mSetupL(keyModes int, richExtra bool, minL int) *vC04mCase {
	c := &vC04mCase{w: vC04NewWorld()}
	c.L = minL + vChoice("string.length", vBound("N")+1-minL)
	c.str = vNondetString("string.value", c.L)
	for i := 0; i < c.L; i++ {
		vAssume(c.str[i] < 0x80)
	}
	c.ext = vNondetBool("extensible")
	mode := vChoice("key.mode", 4)
	vAssume(keyModes&(1<<uint(mode)) != 0)
	strIdx := -1
	switch mode {
	case 0:
		k := vChoice("key.int", len(vC04mIntKeys))
		c.name = vC04mIntKeys[k].n
		c.hasIdx = true
		c.idx = valueInt(vC04mIntKeys[k].i)
		if vC04mIntKeys[k].i >= 0 {
			strIdx = int(vC04mIntKeys[k].i)
			c.idxGE = strIdx >= c.L
		}
	case 1, 2:
		ks := vNondetString("key.s", mode)
		for i := 0; i < mode; i++ {
			vAssume(ks[i] < 0x80)
		}
		c.name = unistring.String(ks)
		// 10.4.3.5 StringGetOwnProperty: CanonicalNumericIndexString(P) is a non-negative integer (not -0)
		cn := refC01Canon(ks)
		if cn.ok && !cn.neg {
			strIdx = int(cn.mag)
		}
	default:
		c.name = "length"
	}
	inRange := strIdx >= 0 && strIdx < c.L
	switch {
	case inRange:
		c.where = vC04mStrIndex
		c.ci = vConcretize(strIdx)
		c.cur = &vC04Cur{kind: 1, e: true, value: asciiString(c.str[c.ci : c.ci+1])}
	case mode == 3:
		c.where = vC04mLength
		c.cur = &vC04Cur{kind: 1, value: valueInt(int64(c.L))}
	default:
		c.where = vC04mOrdinary
		c.cur = c.w.mCurrent(richExtra)
		c.rec, _ = c.cur.repr.(*valueProperty)
	}
	return c
}

// an arbitrary ordinary own property (concrete shape choices, symbolic flags and value):
// absent / plain value / data record / accessor without functions / accessor with getter and setter f1
func (w *vC04World) mCurrent(accessors bool) *vC04Cur {
	cur := &vC04Cur{}
	n := 3
	if accessors {
		n = 5
	}
	shape := vChoice("extra.shape", n)
	if shape == 0 {
		return cur
	}
	cur.e, cur.c = true, true
	if shape >= 2 {
		cur.e = vNondetBool("extra.enumerable")
		cur.c = vNondetBool("extra.configurable")
	}
	if shape <= 2 {
		i := vNondetInt64("extra.value")
		vAssume(i >= -(1<<53) && i <= 1<<53)
		cur.kind, cur.value, cur.w = 1, valueInt(i), true
		cur.repr = cur.value
		if shape == 2 {
			cur.w = vNondetBool("extra.writable")
			cur.repr = &valueProperty{value: cur.value, writable: cur.w, enumerable: cur.e, configurable: cur.c}
		}
		return cur
	}
	cur.kind = 2
	if shape == 4 {
		cur.g, cur.s = 1, 1
	}
	cur.repr = &valueProperty{accessor: true, enumerable: cur.e, configurable: cur.c, getterFunc: w.fnOf(cur.g), setterFunc: w.fnOf(cur.s)}
	return cur
}

// a fresh object in the drawn state (records are copied: goja updates them in place)
func (c *vC04mCase) build() *stringObject {
	s := vC04mString(c.w.r, c.str, c.ext)
	if c.where == vC04mOrdinary && c.cur.kind != 0 {
		var v Value = c.cur.repr
		if c.rec != nil {
			cp := *c.rec
			v = &cp
		}
		s.values[c.name] = v
		s.propNames = append(s.propNames, c.name)
	}
	return s
}

// SameValue on the universe of these harnesses: undefined, safe-integer Numbers, ASCII strings, f1/f2
func vC04mSame(a, b Value) bool {
	if x, ok := a.(asciiString); ok {
		if y, ok := b.(asciiString); ok {
			return x == y
		}
		return false
	}
	if _, ok := b.(asciiString); ok {
		return false
	}
	return vC04SameValue(a, b)
}

// the own property as the object itself reports it (string form), decoded
func (c *vC04mCase) observe(s *stringObject) (present bool, got vC04Got) {
	v := s.getOwnPropStr(c.name)
	if v == nil {
		return false, vC04Got{}
	}
	return true, c.w.decode(v)
}

// got is exactly the property `cur` (cur.kind and present are concrete on every path)
func (c *vC04mCase) sameAsCur(present bool, got vC04Got) bool {
	cur := c.cur
	if cur.kind == 0 || !present {
		return cur.kind == 0 && !present
	}
	flags := refAnd(got.kind == cur.kind, refAnd(got.e == cur.e, got.c == cur.c))
	if cur.kind == 1 {
		return refAnd(flags, refAnd(got.w == cur.w, vC04mSame(got.value, cur.value)))
	}
	return refAnd(flags, refAnd(got.g == cur.g, got.s == cur.s))
}

// representation: the characters never leak into the ordinary property table, the value is untouched
func (c *vC04mCase) reprOK(s *stringObject) bool {
	if v, ok := s.value.(asciiString); !ok || string(v) != c.str || s.length != c.L {
		return false
	}
	if c.where == vC04mStrIndex {
		if _, exists := s.values[c.name]; exists {
			return false
		}
	}
	lp, _ := s.values["length"].(*valueProperty)
	return lp == &s.lengthProp && !lp.writable && !lp.enumerable && !lp.configurable && !lp.accessor
}

// ---- H04.5.read: [[GetOwnProperty]] / HasOwnProperty / [[Get]] ----

func H_C04_string_read() {
	c := vC04mSetup(15, true)
	s := c.build()
	vS := s.getOwnPropStr(c.name)
	hasS := s.hasOwnPropertyStr(c.name)
	getS := s.getStr(c.name, nil)
	var vI, getI Value
	hasI := false
	if c.hasIdx {
		vI = s.getOwnPropIdx(c.idx)
		hasI = s.hasOwnPropertyIdx(c.idx)
		getI = s.getIdx(c.idx, nil)
	}
	cur := c.cur
	// [[Get]]: data -> the value; accessor -> the getter's result (f1 returns undefined); absent -> undefined (nil)
	wantGet := func(v Value) bool {
		if cur.kind == 1 {
			return v != nil && vC04mSame(v, cur.value)
		}
		return v == nil || v == _undefined
	}
	gs := vC04Got{}
	if vS != nil {
		gs = c.w.decode(vS)
	}
	vAssert("read.str:getOwnProperty==StringGetOwnProperty", c.sameAsCur(vS != nil, gs))
	vAssert("read.str:hasOwnProperty", hasS == (cur.kind != 0))
	vAssert("read.str:get", wantGet(getS))
	if c.where == vC04mStrIndex {
		vReach("read:string-index")
		vAssert("inv:string-index-is-nonwritable-nonconfigurable-enumerable", vS != nil && !gs.w && !gs.c && gs.e && gs.kind == 1)
	}
	if c.hasIdx {
		gi := vC04Got{}
		if vI != nil {
			gi = c.w.decode(vI)
		}
		known := c.where == vC04mOrdinary && c.idxGE && cur.kind != 0
		vAssertK("read.idx:getOwnProperty==StringGetOwnProperty", c.sameAsCur(vI != nil, gi), known, "F-C04-string-getOwnPropIdx-beyond-length")
		vAssert("read.idx:hasOwnProperty", hasI == (cur.kind != 0))
		vAssert("read.idx:get", wantGet(getI))
	}
	vAssert("read:representation-unchanged", c.reprOK(s))
}

// ---- H04.5.delete: [[Delete]] (ordinary 10.1.10 over the exotic [[GetOwnProperty]]) ----

func H_C04_string_delete() {
	c := vC04mSetup(15, true)
	throw := vNondetBool("throw")
	cur := c.cur
	expOK := cur.kind == 0 || cur.c
	run := func(idxForm bool) (out vOutcome, res bool, s *stringObject) {
		s = c.build()
		out = vCatch(func() {
			if idxForm {
				res = s.deleteIdx(c.idx, throw)
			} else {
				res = s.deleteStr(c.name, throw)
			}
		})
		return
	}
	outS, resS, sS := run(false)
	presS, gotS := c.observe(sS)
	okS := outS.panicked == refAnd(!expOK, throw) && refOr(outS.panicked, resS == expOK) && refImp(outS.panicked, outS.kind == "TypeError")
	vAssert("delete.str:result==OrdinaryDelete", okS)
	vAssert("delete.str:gone-iff-configurable", refImp(expOK, !presS) && refImp(!expOK, c.sameAsCur(presS, gotS)))
	vAssert("inv:nonconfigurable-not-deleted(str)", refImp(cur.kind != 0 && !cur.c, presS))
	vAssert("delete.str:representation", c.reprOK(sS))
	if c.hasIdx {
		outI, resI, sI := run(true)
		presI, gotI := c.observe(sI)
		okI := outI.panicked == refAnd(!expOK, throw) && refOr(outI.panicked, resI == expOK) && refImp(outI.panicked, outI.kind == "TypeError")
		vAssert("delete.idx:result==OrdinaryDelete", okI)
		vAssert("delete.idx:gone-iff-configurable", refImp(expOK, !presI) && refImp(!expOK, c.sameAsCur(presI, gotI)))
		vAssert("delete.idx:representation", c.reprOK(sI))
	}
}

// ---- H04.5.set: [[Set]] with the object itself as receiver, null prototype (OrdinarySet 10.1.9.2) ----

func H_C04_string_set() {
	c := vC04mSetup(15, true)
	throw := vNondetBool("throw")
	cur := c.cur
	val := valueInt(7)
	// ownDesc absent: CreateDataProperty (needs extensible); data: writable; accessor: setter present
	expOK := c.ext
	if cur.kind == 1 {
		expOK = cur.w
	}
	if cur.kind == 2 {
		expOK = cur.s != 0
	}
	run := func(idxForm bool) (out vOutcome, res bool, s *stringObject) {
		s = c.build()
		out = vCatch(func() {
			if idxForm {
				res = s.setOwnIdx(c.idx, val, throw)
			} else {
				res = s.setOwnStr(c.name, val, throw)
			}
		})
		return
	}
	// expected own property afterwards
	post := func(s *stringObject) bool {
		pres, got := c.observe(s)
		if cur.kind == 2 {
			return c.sameAsCur(pres, got)
		}
		if cur.kind == 0 {
			created := pres && got.kind == 1 && got.w && got.e && got.c && vC04mSame(got.value, val)
			return refImp(expOK, created) && refImp(!expOK, !pres)
		}
		same := pres && got.kind == 1 && got.w == cur.w && got.e == cur.e && got.c == cur.c
		return same && refImp(expOK, vC04mSame(got.value, val)) && refImp(!expOK, vC04mSame(got.value, cur.value))
	}
	outS, resS, sS := run(false)
	okS := outS.panicked == refAnd(!expOK, throw) && refOr(outS.panicked, resS == expOK) && refImp(outS.panicked, outS.kind == "TypeError")
	vAssert("set.str:result==OrdinarySet", okS)
	vAssert("set.str:post-state", post(sS))
	vAssert("set.str:representation", c.reprOK(sS))
	if c.where == vC04mStrIndex {
		vAssert("inv:string-index-never-written", !resS || outS.panicked)
	}
	if c.hasIdx {
		outI, resI, sI := run(true)
		okI := outI.panicked == refAnd(!expOK, throw) && refOr(outI.panicked, resI == expOK) && refImp(outI.panicked, outI.kind == "TypeError")
		vAssert("set.idx:result==OrdinarySet", okI)
		vAssert("set.idx:post-state", post(sI))
		vAssert("set.idx:representation", c.reprOK(sI))
	}
}

// ---- H04.5.define: [[DefineOwnProperty]] (10.4.3.2) ----
// string index: IsCompatiblePropertyDescriptor(extensible, Desc, {char, W:false, E:true, C:false}) and NOTHING is applied;
// any other key: OrdinaryDefineOwnProperty (checked against the same reference as H04.1, read back through the object).

func hC04StringDefine(family int) {
	// keys: the integer keys 0, 1, 2, -1 on a string of length N=2 (the key classification of arbitrary strings is H04.5.read's)
	c := vC04mSetupL(1, false, vBound("N"))
	vAssume(c.idx <= 2)
	cur := c.cur
	d := c.w.descriptor("desc", family, cur)
	// the whole descriptor table only for key 0; the other keys (1: last index, 2: first key past the string,
	// -1) show the routing with the three attribute fields tied together
	if c.idx != 0 {
		vAssume(d.dE == d.dC && (family == 1 || d.dW == d.dC))
	}
	// no pre-existing accessor here: a second function object adds nothing
	vAssume(d.dG <= 1 && d.dS <= 1)
	if c.where == vC04mStrIndex && d.hasV {
		// value universe for a character property: undefined / Number / a one-character string (equal or not)
		if vChoice("desc.value.isChar", 2) == 1 {
			ch := vNondetString("desc.value.char", 1)
			vAssume(ch[0] < 0x80)
			d.d.Value = asciiString(ch)
		}
	}
	throw := vNondetBool("throw")
	sameV := false
	if d.hasV && cur.kind == 1 {
		sameV = vC04mSame(d.d.Value, cur.value)
	}
	ref := specC04Validate(c.ext, cur.kind, cur.w, cur.e, cur.c, cur.g, cur.s, d.dW, d.dE, d.dC, d.hasV, sameV, d.dG, d.dS)
	isIndex := c.where == vC04mStrIndex
	// F-C04-string-define-same-char: the character itself is not compared (existing.value is nil)
	kSame := isIndex && d.hasV && sameV

	run := func(idxForm bool) (out vOutcome, res bool, s *stringObject) {
		s = c.build()
		out = vCatch(func() {
			if idxForm {
				res = s.defineOwnPropertyIdx(c.idx, d.d, throw)
			} else {
				res = s.defineOwnPropertyStr(c.name, d.d, throw)
			}
		})
		return
	}
	// the own property afterwards: unchanged when rejected or when the key is a string index, else the reference record
	post := func(s *stringObject) bool {
		pres, got := c.observe(s)
		if isIndex {
			return c.sameAsCur(pres, got)
		}
		if !pres {
			return !ref.ok && cur.kind == 0
		}
		unchanged := c.sameAsCur(pres, got)
		flags := refAnd(got.kind == ref.kind, refAnd(got.e == ref.e, got.c == ref.c))
		val := refC04ValueOK(ref.vsel, got.value == _undefined, vC04mSame(got.value, d.d.Value), cur.kind == 1 && vC04mSame(got.value, cur.value))
		data := refAnd(got.w == ref.w, val)
		acc := refAnd(got.g == ref.g, got.s == ref.s)
		body := refOr(refAnd(ref.kind == 1, data), refAnd(ref.kind == 2, acc))
		applied := refAnd(flags, body)
		return refOr(refAnd(ref.ok, applied), refAnd(!ref.ok, unchanged))
	}
	outS, resS, sS := run(false)
	okS := refAnd(outS.panicked == refAnd(!ref.ok, throw), refOr(outS.panicked, resS == ref.ok))
	vAssertK("define.str:accept==ValidateAndApply", okS, kSame, "F-C04-string-define-same-char")
	vAssert("define.str:only-TypeError", refImp(outS.panicked, outS.kind == "TypeError"))
	vAssert("define.str:post-state", post(sS))
	vAssert("define.str:representation", c.reprOK(sS))
	if isIndex {
		vReach("define:string-index")
	}
	if c.hasIdx {
		outI, resI, sI := run(true)
		okI := refAnd(outI.panicked == refAnd(!ref.ok, throw), refOr(outI.panicked, resI == ref.ok))
		// F-C04-string-define-idx-rejects-all: the integer-key entry point rejects every descriptor on a string index
		kIdx := isIndex && ref.ok
		vAssertK("define.idx:accept==ValidateAndApply", okI, kIdx, "F-C04-string-define-idx-rejects-all")
		vAssert("define.idx:only-TypeError", refImp(outI.panicked, outI.kind == "TypeError"))
		vAssert("define.idx:post-state", post(sI))
		vAssert("define.idx:representation", c.reprOK(sI))
	}
}

func H_C04_string_define_data()     { hC04StringDefine(0) }
func H_C04_string_define_accessor() { hC04StringDefine(1) }

// ---- H04.5.keys: [[OwnPropertyKeys]] (10.4.3.3): string indices ascending, then integer-index own properties
// ascending, then string keys in creation order ("length" is created with the object), through both the listing
// (stringKeys) and the for-in source (iterateStringKeys) ----

var vC04mKeyPool = []struct {
	n     unistring.String
	isIdx bool
	v     int
}{{"7", true, 7}, {"3", true, 3}, {"x", false, 0}, {"03", false, 0}, {"-1", false, 0}, {"4294967295", false, 0}}

func H_C04_string_keys() {
	r := vRuntime()
	L := vChoice("string.length", vBound("N")+1)
	s := vC04mString(r, "abcdefgh"[:L], true)
	var order []int
	for n := 0; n < 3; n++ {
		k := vChoice("add", len(vC04mKeyPool)+1)
		if k == len(vC04mKeyPool) {
			break
		}
		dup := false
		for _, x := range order {
			if x == k {
				dup = true
			}
		}
		vAssume(!dup)
		if vC04mKeyPool[k].isIdx {
			s.setOwnIdx(valueInt(int64(vC04mKeyPool[k].v)), valueInt(1), false)
		} else {
			s.setOwnStr(vC04mKeyPool[k].n, valueInt(1), false)
		}
		order = append(order, k)
	}
	var exp []unistring.String
	for i := 0; i < L; i++ {
		exp = append(exp, unistring.String("01234567"[i:i+1]))
	}
	for v := 0; v < 10; v++ {
		for _, k := range order {
			if vC04mKeyPool[k].isIdx && vC04mKeyPool[k].v == v {
				exp = append(exp, vC04mKeyPool[k].n)
			}
		}
	}
	exp = append(exp, "length")
	for _, k := range order {
		if !vC04mKeyPool[k].isIdx {
			exp = append(exp, vC04mKeyPool[k].n)
		}
	}
	keys := s.stringKeys(true, nil)
	same := len(keys) == len(exp)
	if same {
		for i := range keys {
			if keys[i].string() != exp[i] {
				same = false
			}
		}
	}
	vAssert("keys:string-indices,integer-keys-ascending,strings-in-creation-order", same)
	enumKeys := s.stringKeys(false, nil)
	vAssert("keys:enumerable-listing-omits-only-length", len(enumKeys) == len(exp)-1)
	var iterated []unistring.String
	next := s.iterateStringKeys()
	for n := 0; n < 20 && next != nil; n++ {
		var item propIterItem
		item, next = next()
		if next != nil {
			iterated = append(iterated, item.name.string())
		}
	}
	sameIt := len(iterated) == len(exp)
	if sameIt {
		for i := range iterated {
			if iterated[i] != exp[i] {
				sameIt = false
			}
		}
	}
	vAssert("keys:iteration-order==listing-order", sameIt)
	uniq := true
	for i := range keys {
		for j := 0; j < i; j++ {
			if keys[i].string() == keys[j].string() {
				uniq = false
			}
		}
		if !s.hasOwnPropertyStr(keys[i].string()) {
			uniq = false
		}
	}
	vAssert("keys:unique-and-each-is-an-own-property", uniq)
}

// ---- H04.5.setForeign: the String object as a prototype: OrdinarySet step 2-3 on its own property ----
// (handled=true,false) for a non-writable data property / setter-less accessor; setter called for an accessor with
// setter; otherwise not handled (the caller continues with the receiver)

func H_C04_string_setForeign() {
	c := vC04mSetup(1|2|8, true)
	throw := vNondetBool("throw")
	cur := c.cur
	recv, _ := vC04Obj(c.w.r, true)
	reject := false
	handledOK := false
	if cur.kind == 1 {
		reject = !cur.w
	}
	if cur.kind == 2 {
		reject = cur.s == 0
		handledOK = cur.s != 0
	}
	run := func(idxForm bool) (out vOutcome, res, handled bool, s *stringObject) {
		s = c.build()
		out = vCatch(func() {
			if idxForm {
				res, handled = s.setForeignIdx(c.idx, valueInt(7), recv, throw)
			} else {
				res, handled = s.setForeignStr(c.name, valueInt(7), recv, throw)
			}
		})
		return
	}
	check := func(out vOutcome, res, handled bool) bool {
		if out.panicked {
			return reject && throw && out.kind == "TypeError"
		}
		if reject {
			return !throw && handled && !res
		}
		if handledOK {
			return handled && res
		}
		return !handled
	}
	outS, resS, hS, sS := run(false)
	vAssert("setForeign.str==OrdinarySet-on-own-descriptor", check(outS, resS, hS))
	pS, gS := c.observe(sS)
	vAssert("setForeign.str:prototype-untouched", c.sameAsCur(pS, gS) && c.reprOK(sS))
	if c.hasIdx {
		outI, resI, hI, sI := run(true)
		known := c.where == vC04mOrdinary && c.idxGE && cur.kind != 0
		vAssertK("setForeign.idx==OrdinarySet-on-own-descriptor", check(outI, resI, hI), known, "F-C04-string-getOwnPropIdx-beyond-length")
		pI, gI := c.observe(sI)
		vAssert("setForeign.idx:prototype-untouched", c.sameAsCur(pI, gI) && c.reprOK(sI))
	}
	vAssert("setForeign:receiver-untouched", len(recv.self.(*baseObject).values) == 0)
}
