package goja

// H05.2 — integer conversions of every canonical Number against the abstract operations.

func H_C05_toInt32() {
	v := vNumber("x")
	vAssert("toInt32==ToInt32", toInt32(v) == refToInt32(vNumberBits(v)))
}

func H_C05_toUint32() {
	v := vNumber("x")
	vAssert("toUint32==ToUint32", toUint32(v) == refToUint32(vNumberBits(v)))
}

func H_C05_toInt16() {
	v := vNumber("x")
	vAssert("toInt16==ToInt16", toInt16(v) == refToInt16(vNumberBits(v)))
}

func H_C05_toUint16() {
	v := vNumber("x")
	vAssert("toUint16==ToUint16", toUint16(v) == refToUint16(vNumberBits(v)))
}

func H_C05_toInt8() {
	v := vNumber("x")
	vAssert("toInt8==ToInt8", toInt8(v) == refToInt8(vNumberBits(v)))
}

func H_C05_toUint8() {
	v := vNumber("x")
	vAssert("toUint8==ToUint8", toUint8(v) == refToUint8(vNumberBits(v)))
}

func H_C05_toUint8Clamp() {
	v := vNumber("x")
	vAssert("toUint8Clamp==ToUint8Clamp", toUint8Clamp(v) == refToUint8Clamp(vNumberBits(v)))
}

func H_C05_toInteger() {
	v := vNumber("x")
	vAssert("ToInteger==clamp(ToIntegerOrInfinity)", v.ToInteger() == refToIntegerClamp(vNumberBits(v)))
}
