package goja

// ---------------------------------------------------------------------
// C01 / H01.4 — function-entry frame reservation (enterFunc): for every combination of actual argument
// count, declared parameter count, frame size and free room on the operand stack, the frame that the
// entry instruction sets up lies completely inside the operand stack (every slot in [sb, sp) is
// addressable: later loadStack/storeStack index vm.stack[sb+k] directly, so a slot beyond len(stack) is
// a Go index-out-of-range panic in the host), missing parameters read undefined (ECMA-262 10.2.11
// FunctionDeclarationInstantiation), locals start empty, and callee/this/actual arguments are untouched.

func H_C01_enterFunc() {
	args := vNondetInt("args")
	numArgs := vNondetInt("numArgs")
	stackSize := vNondetInt("stackSize")
	spare := vNondetInt("spare")
	vAssume(args >= 0 && args <= vBound("A"))
	vAssume(numArgs >= 0 && numArgs <= vBound("P"))
	vAssume(stackSize >= 0 && stackSize <= vBound("S"))
	vAssume(spare == 0 || spare == 1 || spare == 8)
	args = vConcretize(args)
	numArgs = vConcretize(numArgs)
	stackSize = vConcretize(stackSize)
	spare = vConcretize(spare)
	toStash := vNondetBool("argsToStash")

	const base = 1 // one unrelated value below the call
	sp := base + 2 + args
	m := &vm{}
	m.stack = make(valueStack, sp, sp+spare) // len == sp: the stack is at its high-water mark
	m.stack[0] = valueInt(-1)
	m.stack[base] = valueInt(1000)   // callee
	m.stack[base+1] = valueInt(2000) // this
	for i := 0; i < args; i++ {
		m.stack[base+2+i] = valueInt(3000 + i)
	}
	m.sp = sp
	m.args = args
	outer := &stash{}
	m.stash = outer
	maxA := args
	if numArgs > maxA {
		maxA = numArgs
	}
	e := &enterFunc{stashSize: uint32(maxA), stackSize: uint32(stackSize), numArgs: uint32(numArgs), argsToStash: toStash}
	p := vC01Guard(func() { e.exec(m) })
	vAssert("enterFunc:no-go-panic", !p)
	if p {
		return
	}
	sb := base + 1
	vAssert("enterFunc:sb-at-this", m.sb == sb)
	vAssert("enterFunc:frame-inside-stack", m.sp <= len(m.stack) && m.sb < m.sp)
	vAssert("enterFunc:new-stash-chained", m.stash != outer && m.stash != nil && m.stash.outer == outer)
	if m.sp > len(m.stack) {
		return
	}
	ok := m.stack[0] == valueInt(-1) && m.stack[base] == valueInt(1000) && m.stack[sb] == valueInt(2000)
	vAssert("enterFunc:callee-this-untouched", ok)
	if !toStash {
		vAssert("enterFunc:sp", m.sp == sb+1+maxA+stackSize && m.args == maxA)
		good := true
		for i := 0; i < maxA; i++ {
			var want Value = _undefined
			if i < args {
				want = valueInt(3000 + i)
			}
			if m.stack[sb+1+i] != want {
				good = false
			}
		}
		for i := 0; i < stackSize; i++ {
			if m.stack[sb+1+maxA+i] != nil {
				good = false
			}
		}
		vAssert("enterFunc:params-then-empty-locals", good)
	} else {
		vAssert("enterFunc:sp(stash)", m.sp == sb+1+stackSize)
		good := len(m.stash.values) == maxA
		for i := 0; good && i < numArgs; i++ {
			var want Value = _undefined
			if i < args {
				want = valueInt(3000 + i)
			}
			if m.stash.values[i] != want {
				good = false
			}
		}
		extra := args - numArgs
		if extra < 0 {
			extra = 0
		}
		if len(m.stash.extraArgs) != extra {
			good = false
		}
		for i := 0; good && i < extra; i++ {
			if m.stash.extraArgs[i] != valueInt(3000+numArgs+i) {
				good = false
			}
		}
		for i := 0; i < stackSize; i++ {
			if m.stack[sb+1+i] != nil {
				good = false
			}
		}
		vAssert("enterFunc:params-in-stash-then-empty-locals", good)
	}
}
