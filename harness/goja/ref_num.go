package goja

// Reference models for numeric conversions, written from ECMA-262 (7.1.4 – 7.1.22) on the
// IEEE-754 bit pattern only: no float arithmetic, no goja code.

// refModPow2 returns (sign * floor(|x|)) mod 2^64 as a uint64 for a finite double with the given bits,
// i.e. the low 64 bits of the two's complement of truncate(x). Exact for every finite double.
func refTruncMod64(bits uint64) uint64 {
	exp := int((bits >> 52) & 0x7ff)
	man := bits & (1<<52 - 1)
	neg := bits>>63 != 0
	if exp == 0x7ff {
		return 0 // NaN, ±Inf -> +0
	}
	if exp == 0 {
		return 0 // zero and subnormals truncate to 0
	}
	man |= 1 << 52
	e := exp - 1075 // value = man * 2^e
	var mag uint64
	switch {
	case e >= 64:
		mag = 0 // multiple of 2^64
	case e >= 0:
		mag = man << uint(e)
	case e > -64:
		mag = man >> uint(-e)
	default:
		mag = 0
	}
	if neg {
		return -mag
	}
	return mag
}

func refToInt32(bits uint64) int32   { return int32(uint32(refTruncMod64(bits))) }
func refToUint32(bits uint64) uint32 { return uint32(refTruncMod64(bits)) }
func refToInt16(bits uint64) int16   { return int16(uint16(refTruncMod64(bits))) }
func refToUint16(bits uint64) uint16 { return uint16(refTruncMod64(bits)) }
func refToInt8(bits uint64) int8     { return int8(uint8(refTruncMod64(bits))) }
func refToUint8(bits uint64) uint8   { return uint8(refTruncMod64(bits)) }
func refToInt64(bits uint64) int64   { return int64(refTruncMod64(bits)) }
func refToUint64(bits uint64) uint64 { return refTruncMod64(bits) }

// refToIntegerClamp: ToIntegerOrInfinity clamped to the int64 range (goja's documented ToInteger contract)
func refToIntegerClamp(bits uint64) int64 {
	exp := int((bits >> 52) & 0x7ff)
	man := bits & (1<<52 - 1)
	neg := bits>>63 != 0
	if exp == 0x7ff {
		if man != 0 {
			return 0 // NaN
		}
		if neg {
			return -1 << 63
		}
		return 1<<63 - 1
	}
	if exp == 0 {
		return 0
	}
	man |= 1 << 52
	e := exp - 1075
	if e >= 11 { // |x| >= 2^63
		if neg {
			return -1 << 63
		}
		return 1<<63 - 1
	}
	var mag uint64
	if e >= 0 {
		mag = man << uint(e)
	} else if e > -64 {
		mag = man >> uint(-e)
	}
	if neg {
		return -int64(mag)
	}
	return int64(mag)
}

// refToUint8Clamp: ECMA-262 7.1.12 on the bit pattern (round half to even, clamp to 0..255)
func refToUint8Clamp(bits uint64) uint8 {
	exp := int((bits >> 52) & 0x7ff)
	man := bits & (1<<52 - 1)
	neg := bits>>63 != 0
	if exp == 0x7ff && man != 0 {
		return 0
	}
	if neg {
		return 0
	}
	if exp == 0x7ff {
		return 255
	}
	if exp == 0 {
		return 0
	}
	man |= 1 << 52
	e := exp - 1075
	if e >= -44 { // >= 2^8
		return 255
	}
	if e < -54 { // < 0.5 strictly (man < 2^53, so value < 2^(53+e) <= 2^-2)
		return 0
	}
	sh := uint(-e)
	ip := man >> sh
	frac := man & (1<<sh - 1)
	half := uint64(1) << (sh - 1)
	switch {
	case frac > half:
		ip++
	case frac == half:
		if ip&1 != 0 {
			ip++
		}
	}
	if ip > 255 {
		return 255
	}
	return uint8(ip)
}

// refIsIntegralInSafeRange: the double is an integer with |x| <= 2^53 and is not -0
func refIsIntegralInSafeRange(bits uint64) bool {
	exp := int((bits >> 52) & 0x7ff)
	man := bits & (1<<52 - 1)
	if bits == 1<<63 {
		return false // -0
	}
	if bits == 0 {
		return true
	}
	if exp == 0x7ff || exp == 0 {
		return false
	}
	e := exp - 1075
	if e >= 0 {
		// integer; magnitude = (man|1<<52) << e ; <= 2^53 iff e==0, or e==1 and man==0
		return e == 0 || (e == 1 && man == 0)
	}
	if e <= -53 {
		return false // |x| < 1, non-zero
	}
	return (man|1<<52)&(1<<uint(-e)-1) == 0
}

const refCanonicalNaNBits = 0x7FF8000000000001

// refCanonicalNumber: a Number value is in canonical form if it is a valueInt within ±2^53, or a
// valueFloat that is not an integer in that range (so: fractional, huge, -0, ±Inf, NaN).
func refCanonicalNumber(v Value) bool {
	switch n := v.(type) {
	case valueInt:
		return n >= -(1<<53) && n <= 1<<53
	case valueFloat:
		return !refIsIntegralInSafeRange(vFloat64bits(float64(n)))
	}
	return false
}
