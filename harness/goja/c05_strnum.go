package goja

import (
	"math"
	"strconv"
)

// C05 H05.4 — string→number entry points of the three String representations.
//
// Reference model written from ECMA-262 7.1.4.1.1 StringToNumber / StringNumericLiteral grammar:
//   StrWhiteSpaceChar = WhiteSpace (TAB VT FF SP NBSP ZWNBSP(U+FEFF) + category Zs) | LineTerminator
//   (LF CR LS(U+2028) PS(U+2029)). U+0085 (NEL) is NOT a StrWhiteSpaceChar.
//   StringNumericLiteral = StrWhiteSpace? (StrDecimalLiteral with optional sign | unsigned
//   NonDecimalIntegerLiteral)? StrWhiteSpace?; only-white-space => +0; "-0" => -0; anything else => NaN.
// The harness builds the input from its grammatical structure (so the expected Number is known from the
// structure, nothing is parsed by the reference), in every representation the text admits.

// ---------------------------------------------------------------------
// strconv.ParseFloat cannot be interpreted (Eisel-Lemire / big decimal). Symbolic-mode contract: on
// sign? digit{1,3} the result is the exact small integer; on the fixed spellings below the listed
// value; any other input is outside the model and fails loudly (Go panic => no-escaping-panic).

var vC05ParseFloatTable = map[string]float64{
	"1e30":                1e30,
	"-1e30":               -1e30,
	"9223372036854775808": 9223372036854775808.0,
	"1.5":                 1.5,
	".5":                  0.5,
	"5.":                  5,
	"1e3":                 1000,
}

var vC05ParseFloatErr = map[string]bool{"x": true, "1 1": true, "+-1": true, "0o17": true, "0b11": true, "0b+1": true}

// vC05ScanSmallInt: s is sign? digit{1,3}; its value (branch-free on the symbolic bytes)
func vC05ScanSmallInt(s string) (v int, neg bool, isNum bool) {
	n := len(s)
	start := 0
	if n > 0 {
		c := s[0]
		if c == '-' {
			neg = true
		}
		if c == '-' || c == '+' {
			start = 1
		}
	}
	isNum = n-start >= 1 && n-start <= 3
	for i := start; i < n; i++ {
		c := s[i]
		if c < '0' || c > '9' {
			isNum = false
		}
		v = v*10 + int(c-'0')
	}
	return
}

func vC05StubParseFloat(s string, bitSize int) (float64, error) {
	v, neg, isNum := vC05ScanSmallInt(s)
	if isNum {
		f := float64(v)
		if neg {
			f = -f
		}
		return f, nil
	}
	if f, ok := vC05ParseFloatTable[s]; ok {
		return f, nil
	}
	if vC05ParseFloatErr[s] {
		return 0, strconv.ErrSyntax
	}
	// text containing a byte that cannot occur in a Go float literal (e.g. the UTF-8 bytes of U+0085,
	// which is no longer trimmed since the fix of F-C05-NEL-trimmed-as-white-space): syntax error
	for i := 0; i < len(s); i++ {
		if s[i] >= 0x80 {
			return 0, strconv.ErrSyntax
		}
	}
	panic("vC05StubParseFloat: input outside the modelled contract: " + s)
}

// strconv.ParseInt(s, 10, 64) by contract on sign? digit{1,3} (H05.4.strnum.digits only; the concrete
// enumeration H05.4.strnum.fixed executes the real ParseInt in all four bases)
func vC05StubParseInt(s string, base int, bitSize int) (int64, error) {
	v, neg, isNum := vC05ScanSmallInt(s)
	if base != 10 || bitSize != 64 || !isNum {
		panic("vC05StubParseInt: input outside the modelled contract: " + s)
	}
	if neg {
		v = -v
	}
	return int64(v), nil
}

// strings.TrimSpace on ASCII input by contract (H05.4.strnum.digits only, see notes/C05_strnum_engine.md;
// H05.4.strnum.fixed executes the real one, including its Unicode slow path)
func vC05StubTrimSpaceASCII(s string) string {
	lo, hi := 0, len(s)
	for i := 0; i < len(s); i++ {
		if s[i] >= 0x80 {
			panic("vC05StubTrimSpaceASCII: non-ASCII input")
		}
	}
	for lo < hi && vC05IsASCIISpace(s[lo]) {
		lo++
	}
	for hi > lo && vC05IsASCIISpace(s[hi-1]) {
		hi--
	}
	return s[lo:hi]
}

func vC05IsASCIISpace(c byte) bool {
	return c == ' ' || (c >= '\t' && c <= '\r')
}

// ---------------------------------------------------------------------
// input construction

const (
	vC05WsNone  = iota
	vC05WsAscii // SP, TAB or LF (symbolic)
	vC05WsNBSP  // U+00A0
	vC05Ws3     // U+FEFF or U+2028 (symbolic)
	vC05NEL     // U+0085: not white space in ECMAScript (but unicode.IsSpace in Go)
	vC05WsKinds
	// concrete members (H05.4.strnum.fixed is a concrete enumeration)
	vC05WsSP
	vC05WsTAB
	vC05WsLF
	vC05WsFEFF
	vC05WsLS
)

type vC05Text struct {
	units []uint16
	utf8  []byte
	ascii bool // every unit < 0x80
}

func (t *vC05Text) addASCII(c byte) {
	t.units = append(t.units, uint16(c))
	t.utf8 = append(t.utf8, c)
}

func (t *vC05Text) addWs(name string, kind int) {
	switch kind {
	case vC05WsAscii:
		c := vNondetUint8(name)
		vAssume(c == ' ' || c == '\t' || c == '\n')
		t.addASCII(c)
	case vC05WsNBSP:
		t.units = append(t.units, 0xA0)
		t.utf8 = append(t.utf8, 0xC2, 0xA0)
		t.ascii = false
	case vC05Ws3:
		u, b0, b1, b2 := uint16(0xFEFF), byte(0xEF), byte(0xBB), byte(0xBF)
		if vNondetBool(name + ".ls") {
			u, b0, b1, b2 = 0x2028, 0xE2, 0x80, 0xA8
		}
		t.units = append(t.units, u)
		t.utf8 = append(t.utf8, b0, b1, b2)
		t.ascii = false
	case vC05WsSP:
		t.addASCII(' ')
	case vC05WsTAB:
		t.addASCII('\t')
	case vC05WsLF:
		t.addASCII('\n')
	case vC05WsFEFF:
		t.units = append(t.units, 0xFEFF)
		t.utf8 = append(t.utf8, 0xEF, 0xBB, 0xBF)
		t.ascii = false
	case vC05WsLS:
		t.units = append(t.units, 0x2028)
		t.utf8 = append(t.utf8, 0xE2, 0x80, 0xA8)
		t.ascii = false
	case vC05NEL:
		t.units = append(t.units, 0x85)
		t.utf8 = append(t.utf8, 0xC2, 0x85)
		t.ascii = false
	}
}

// the applicable representations of the text, freshly built
func (t *vC05Text) values() []String {
	s := string(t.utf8)
	if t.ascii {
		sc := &importedString{s: s}
		sc.ensureScanned()
		return []String{asciiString(s), &importedString{s: s}, sc}
	}
	buf := make([]uint16, len(t.units)+1)
	buf[0] = 0xFEFF
	copy(buf[1:], t.units)
	sc := &importedString{s: s}
	sc.ensureScanned()
	return []String{unicodeString(buf), &importedString{s: s}, sc}
}

func vC05SameBits(a, b uint64) bool {
	aNaN := a&0x7FF0000000000000 == 0x7FF0000000000000 && a&0xFFFFFFFFFFFFF != 0
	bNaN := b&0x7FF0000000000000 == 0x7FF0000000000000 && b&0xFFFFFFFFFFFFF != 0
	if aNaN && bNaN {
		return true
	}
	return a == b
}

var vC05RepNames = [3]string{"eager", "imported", "imported-scanned"}

// vC05Check: the assertions of H05.4 on one text. wantBits = StringToNumber(text) per ECMA-262,
// wantTrim = the text without leading/trailing StrWhiteSpaceChar, knownNum/knownID = the class of inputs of
// a registered finding about the value itself.
func vC05Check(t *vC05Text, wantBits uint64, wantTrim string, knownNum bool, knownID string, trimReps int) {
	vals := t.values()
	var num [3]uint64
	// (a definitely failing assertion ends the path: independent checks first)
	for k := 0; k < trimReps; k++ {
		s := t.values()[k]
		vAssert("toTrimmedUTF8==text without leading/trailing StrWhiteSpaceChar", s.toTrimmedUTF8() == wantTrim)
	}
	for k, s := range vals {
		n := s.ToNumber()
		vAssert("ToNumber:canonical-number", refCanonicalNumber(n))
		num[k] = vNumberBits(n)
		vAssertK("ToNumber==StringToNumber", vC05SameBits(num[k], wantBits), knownNum, knownID)
	}
	vAssert("ToNumber:representations-agree", vC05SameBits(num[0], num[1]) && vC05SameBits(num[1], num[2]))
	for k := range vals {
		s := t.values()[k] // fresh value: ToFloat may be the first use of an imported string
		f := math.Float64bits(s.ToFloat())
		if t.ascii {
			vAssertK("ToFloat==ToNumber.ToFloat:ascii-backed", vC05SameBits(f, num[k]), knownNum, knownID)
		} else {
			vAssertK("ToFloat==ToNumber.ToFloat:utf16-backed", vC05SameBits(f, num[k]), true, "F-C05-unicode-string-ToFloat-ToInteger-constant")
		}
	}
	for k := range vals {
		s := t.values()[k]
		i := s.ToInteger()
		want := refToIntegerClamp(num[k])
		if t.ascii {
			// known: values >= 2^63 (after ParseFloat) are converted with a plain int64(f)
			over := num[k]>>63 == 0 && (num[k]>>52)&0x7ff >= 1023+63 && (num[k]>>52)&0x7ff != 0x7ff
			vAssertK("ToInteger==clamp(ToIntegerOrInfinity(ToNumber)):ascii-backed", i == want, over, "F-C05-ascii-ToInteger-overflow")
		} else {
			vAssertK("ToInteger==clamp(ToIntegerOrInfinity(ToNumber)):utf16-backed", i == want, true, "F-C05-unicode-string-ToFloat-ToInteger-constant")
		}
	}
}

// (prefix, suffix) shapes of H05.4.strnum.digits: symbolic members of each white-space class
// (ASCII only: strings.Trim with the Unicode cutset and utf16.Decode on symbolic text cost ~100 solver-decided
// branches per path; the UTF-16 backed representations are enumerated concretely by H05.4.strnum.fixed)
var vC05DigitShapes = [][2]int{
	{vC05WsNone, vC05WsNone}, {vC05WsAscii, vC05WsNone}, {vC05WsAscii, vC05WsAscii}, {vC05WsNone, vC05WsAscii},
}

// H05.4.digits: ws? sign? digit{1,3} ws?
func H_C05_strnumDigits() {
	t := &vC05Text{ascii: true}
	sh := vC05DigitShapes[vChoice("shape", vBound("SH"))] // no NEL here (H05.4.strnum.fixed)
	pre, suf := sh[0], sh[1]
	signed := vChoice("signed", 2) == 1
	nd := 1 + vChoice("digits", vBound("D"))
	t.addWs("pre", pre)
	bodyStart := len(t.utf8)
	neg := false
	if signed {
		c := vNondetUint8("sign")
		vAssume(c == '+' || c == '-')
		neg = c == '-'
		t.addASCII(c)
	}
	v := 0
	for k := 0; k < nd; k++ {
		d := vNondetUint8("d")
		vAssume(d >= '0' && d <= '9')
		t.addASCII(d)
		v = v*10 + int(d-'0')
	}
	bodyEnd := len(t.utf8)
	t.addWs("suf", suf)
	// MV of StrDecimalLiteral; a negative zero literal is -0
	want := float64(v)
	if neg {
		want = -want
	}
	// known: "-00", "-000": stringToInt only intercepts the exact spelling "-0"
	negZero := neg && v == 0 && nd >= 2
	vC05Check(t, math.Float64bits(want), string(t.utf8[bodyStart:bodyEnd]), negZero, "F-C05-negative-zero-multi-digit", 1)
}

type vC05Fixed struct {
	text    string
	bits    uint64
	knownID string
}

const vC05NaNBits = 0x7FF8000000000001

var vC05FixedSpellings = []vC05Fixed{
	{"", 0, ""},
	{"-0", 1 << 63, ""},
	{"+0", 0, ""},
	{"-00", 1 << 63, "F-C05-negative-zero-multi-digit"},
	{"Infinity", 0x7FF0000000000000, ""},
	{"+Infinity", 0x7FF0000000000000, ""},
	{"-Infinity", 0xFFF0000000000000, ""},
	{"1", 0x3FF0000000000000, ""},
	{"12", 0x4028000000000000, ""},
	{"+7", 0x401C000000000000, ""},
	{"-42", 0xC045000000000000, ""},
	{"007", 0x401C000000000000, ""},
	{"999", 0x408F380000000000, ""},
	{"0x1f", 0x403F000000000000, ""}, // 31
	{"0b11", 0x4008000000000000, ""}, // 3
	{"0o17", 0x402E000000000000, ""}, // 15
	{"-0x1", vC05NaNBits, ""},        // NonDecimalIntegerLiteral takes no sign
	{"0x-1", vC05NaNBits, "F-C05-radix-prefix-then-sign"},
	{"0b+1", vC05NaNBits, "F-C05-radix-prefix-then-sign"},
	{"0x", vC05NaNBits, ""},
	{"x", vC05NaNBits, ""},
	{"1 1", vC05NaNBits, ""},
	{"+-1", vC05NaNBits, ""},
	{"1.5", 0x3FF8000000000000, ""},
	{"1e3", 0x408F400000000000, ""},
	{"1e30", 0x46293E5939A08CEA, ""}, // ToInteger overflow class
	{"-1e30", 0xC6293E5939A08CEA, ""},
	{"9223372036854775808", 0x43E0000000000000, ""}, // 2^63
}

// (prefix, suffix) shapes of H05.4.fixed
var vC05FixedShapes = [][2]int{
	{vC05WsNone, vC05WsNone}, {vC05WsTAB, vC05WsNone}, {vC05WsLF, vC05WsSP}, {vC05WsNone, vC05WsNBSP},
	{vC05WsFEFF, vC05WsTAB}, {vC05WsSP, vC05WsLS},
	{vC05NEL, vC05WsNone}, {vC05WsNone, vC05NEL}, {vC05WsNBSP, vC05NEL},
}

// H05.4.fixed: ws? spelling ws?, including U+0085 (must not be trimmed => NaN)
func H_C05_strnumFixed() {
	t := &vC05Text{ascii: true}
	// json bounds select a window of the two tables (SHN / SPN = 0: to the end)
	shN, spN := vBound("SHN"), vBound("SPN")
	if shN == 0 {
		shN = len(vC05FixedShapes) - vBound("SHLO")
	}
	if spN == 0 {
		spN = len(vC05FixedSpellings) - vBound("SPLO")
	}
	sh := vC05FixedShapes[vBound("SHLO")+vChoice("shape", shN)]
	fx := vC05FixedSpellings[vBound("SPLO")+vChoice("spelling", spN)]
	t.addWs("pre", sh[0])
	trimStart := len(t.utf8)
	if sh[0] == vC05NEL {
		trimStart = 0
	}
	for i := 0; i < len(fx.text); i++ {
		t.addASCII(fx.text[i])
	}
	trimEnd := len(t.utf8)
	t.addWs("suf", sh[1])
	if sh[1] == vC05NEL {
		trimEnd = len(t.utf8)
	}
	want := fx.bits
	known, id := fx.knownID != "", fx.knownID
	if sh[0] == vC05NEL || sh[1] == vC05NEL {
		want = vC05NaNBits
		known, id = true, "F-C05-NEL-trimmed-as-white-space"
	}
	vC05Check(t, want, string(t.utf8[trimStart:trimEnd]), known, id, 3)
}
