package goja

import (
	"golang.org/x/text/cases"
)

// vC06Compare: ECMA-262 IsLessThan on strings = lexicographic order of code units (-1, 0, +1)
func vC06Compare(a, b []uint16) int {
	res := 0
	if len(a) < len(b) {
		res = -1
	}
	if len(a) > len(b) {
		res = 1
	}
	for i := min(len(a), len(b)) - 1; i >= 0; i-- {
		if a[i] < b[i] {
			res = -1
		}
		if a[i] > b[i] {
			res = 1
		}
	}
	return res
}

func vC06SignIs(c, want int) bool {
	ok := true
	if (c < 0) != (want < 0) {
		ok = false
	}
	if (c > 0) != (want > 0) {
		ok = false
	}
	return ok
}

// vC06Pair: a in representations RL..RH (json bounds), b in any representation (or only >= a's when sym)
func vC06Pair(symmetric bool) (a, b *vC06Str) {
	a = vC06NewStr("a", vBound("RL"), vBound("RH"))
	lo := 0
	if symmetric {
		lo = a.rep
	}
	b = vC06NewStr("b", lo, vC06NumReps-1)
	return
}

// H06.2 relational order across representations
func H_C06_compare() {
	a, b := vC06Pair(true)
	want := vC06Compare(a.units, b.units)
	vAssert("CompareTo:a,b", vC06SignIs(a.value().CompareTo(b.value()), want))
	vAssert("CompareTo:b,a", vC06SignIs(b.value().CompareTo(a.value()), -want))
}

// H06.2 concatenation across representations
func H_C06_concat() {
	a, b := vC06Pair(false)
	av, bv := a.value(), b.value()
	c := av.Concat(bv)
	want := append(append([]uint16{}, a.units...), b.units...)
	vAssert("Concat:content+normal-form", vC06Content(c, want))
	vAssert("Concat:length", c.Length() == len(want))
	vAssert("Concat:left-operand-unchanged", vC06Content(av, a.units))
	vAssert("Concat:right-operand-unchanged", vC06Content(bv, b.units))
}

// H06.2 single-string observers: Length, CharAt, Substring, property key, devirtualisation
func H_C06_observers() {
	a := vC06NewStr("a", 0, vC06NumReps-1)
	n := len(a.units)
	vAssert("Length", a.value().Length() == n)
	v := a.value()
	ok := true
	for i := 0; i < n; i++ {
		if v.CharAt(i) != a.units[i] {
			ok = false
		}
	}
	vAssert("CharAt", ok)
	vAssert("devirtualize:content+normal-form", vC06Content(a.value(), a.units))
	vAssert("key-round-trip", vC06Content(stringValueFromRaw(a.value().string()), a.units))
	start := vNondetInt("start")
	end := vNondetInt("end")
	vAssume(0 <= start && start <= end && end <= n)
	start = vConcretize(start)
	end = vConcretize(end)
	sub := a.value().Substring(start, end)
	vAssert("Substring:content+normal-form", vC06Content(sub, a.units[start:end]))
	_, isImp := sub.(*importedString)
	vAssert("Substring:eager", !isImp)
}

// ---------------------------------------------------------------------
// H06.3 StringBuilder: any sequence of WriteRune / WriteString / WriteUTF8String / WriteSubstring

func H_C06_stringBuilder() {
	w := vNondetInt("writes")
	vAssume(w >= 0 && w <= vBound("W"))
	w = vConcretize(w)
	var sb StringBuilder
	want := []uint16{}
	for k := 0; k < w; k++ {
		kind := vNondetInt("kind")
		vAssume(kind >= 0 && kind <= vBound("K"))
		kind = vConcretize(kind)
		switch kind {
		case 0:
			var r rune
			r, want = vC06Rune("r", want)
			sb.WriteRune(r)
		case 1:
			x := vC06NewStr("x", 0, vC06NumReps-1)
			sb.WriteString(x.value())
			want = append(want, x.units...)
		case 2:
			s, units := vC06ValidUTF8("g", vBound("B"), vBound("U"))
			sb.WriteUTF8String(s)
			want = append(want, units...)
		default:
			x := vC06NewStr("y", 0, vC06NumReps-1)
			start := vNondetInt("start")
			end := vNondetInt("end")
			vAssume(0 <= start && start <= end && end <= len(x.units))
			start = vConcretize(start)
			end = vConcretize(end)
			sb.WriteSubstring(x.value(), start, end)
			want = append(want, x.units[start:end]...)
		}
	}
	vAssert("StringBuilder:content+normal-form", vC06Content(sb.String(), want))
}

// WriteSubstring after an optional BMP rune (which leaves the builder in ASCII or in UTF-16 mode)
func H_C06_stringBuilderSub() {
	var sb StringBuilder
	want := []uint16{}
	if vNondetBool("before") {
		r := vNondetUint16("r") // any BMP code unit (ASCII keeps the builder in ASCII mode)
		want = append(want, r)
		sb.WriteRune(rune(r))
	}
	x := vC06NewStr("y", 0, vC06NumReps-1)
	start := vNondetInt("start")
	end := vNondetInt("end")
	vAssume(0 <= start && start <= end && end <= len(x.units))
	start = vConcretize(start)
	end = vConcretize(end)
	sb.WriteSubstring(x.value(), start, end)
	want = append(want, x.units[start:end]...)
	vAssert("StringBuilder.WriteSubstring:content+normal-form", vC06Content(sb.String(), want))
}

// ---------------------------------------------------------------------
// H06.5 operations that detour through UTF-8

func vC06IsHi(u uint16) bool { return u&0xFC00 == 0xD800 }
func vC06IsLo(u uint16) bool { return u&0xFC00 == 0xDC00 }

// vC06HasLoneSurrogate: some surrogate code unit is not part of a high+low pair (ECMA-262 6.1.4)
func vC06HasLoneSurrogate(units []uint16) bool {
	lone := false
	for i := range units {
		hi, lo := vC06IsHi(units[i]), vC06IsLo(units[i])
		nextLo := false
		if i+1 < len(units) {
			nextLo = vC06IsLo(units[i+1])
		}
		prevHi := false
		if i > 0 {
			prevHi = vC06IsHi(units[i-1])
		}
		if hi && !nextLo {
			lone = true
		}
		if lo && !prevHi {
			lone = true
		}
	}
	return lone
}

func vC06UnicodeUnits(name string) (unicodeString, []uint16) {
	n := vNondetInt(name + ".n")
	vAssume(n >= 1 && n <= vBound("U"))
	n = vConcretize(n)
	units := vNondetUint16s(name, n)
	vAssume(vC06HasNonASCII(units))
	buf := make([]uint16, n+1)
	buf[0] = 0xFEFF
	copy(buf[1:], units)
	return unicodeString(buf), units
}

// String.prototype.trim/trimStart/trimEnd (trimString, builtin_string.go): works on UTF-16 code units;
// the result has exactly the units of the input minus leading/trailing ECMAScript white space, lone
// surrogates included (before the fix of F-C06-trim-loses-lone-surrogates it went through a UTF-8 string).
func refC06IsWS(u uint16) bool {
	switch u {
	case 0x20, 0x0C, 0x0A, 0x0D, 0x09, 0x0B, 0xA0, 0x1680, 0x2028, 0x2029, 0x202F, 0x205F, 0x3000, 0xFEFF:
		return true
	}
	return u >= 0x2000 && u <= 0x200A
}

func vC06StubContainsRune(s string, r rune) bool {
	found := false
	for _, c := range s {
		if c == r {
			found = true
		}
	}
	return found
}

func H_C06_utf8Detour() {
	u, units := vC06UnicodeUnits("u")
	left := vChoice("trim.left", 2) == 1
	right := vChoice("trim.right", 2) == 1
	got := trimString(u, left, right)
	// reference on units
	start, end := 0, len(units)
	if left {
		for start < end && refC06IsWS(units[start]) {
			start++
		}
	}
	if right {
		for end > start && refC06IsWS(units[end-1]) {
			end--
		}
	}
	vAssert("trim:units==reference", vC06Content(got, units[start:end]))
}

// symbolic-mode model of the x/text caser: identity. The harness restricts inputs to code units that
// have no case mapping (digits, CJK ideographs, surrogates), so that this is exact for BMP input.
func vC06StubCaserString(c cases.Caser, s string) string { return s }

func vC06Caseless(units []uint16) bool {
	ok := true
	for _, u := range units {
		digit := u >= 0x30 && u <= 0x39
		cjk := u >= 0x4E00 && u <= 0x9FFF
		sur := u >= 0xD800 && u <= 0xDFFF
		if !digit && !cjk && !sur {
			ok = false
		}
	}
	return ok
}

func H_C06_toLowerUpper() {
	u, units := vC06UnicodeUnits("u")
	vAssume(vC06Caseless(units))
	lone := vC06HasLoneSurrogate(units)
	// well-formed supplementary characters may have case mappings (e.g. Deseret): only lone surrogates
	// and caseless BMP units are claimed to be preserved
	pair := false
	for _, x := range units {
		if x >= 0xD800 && x <= 0xDFFF {
			pair = true
		}
	}
	vAssume(lone || !pair)
	vAssertK("toLower:caseless-units-preserved", vC06Content(u.toLower(), units), lone, "F-C06-case-mapping-loses-lone-surrogates")
	vAssertK("toUpper:caseless-units-preserved", vC06Content(u.toUpper(), units), lone, "F-C06-case-mapping-loses-lone-surrogates")
}

// symbolic-mode replacement of internal/bytealg.MakeNoZero (runtime-linked, no Go body; used by
// strings.Builder.Grow): contract = a byte slice of length and capacity n with unspecified content.
func vC06StubMakeNoZero(n int) []byte { return make([]byte, n) }

// symbolic-mode replacement of strings.Compare (runtime cmpstring, assembly) by its documented
// contract: lexicographic comparison of the bytes, result -1, 0 or +1.
func vC06StubStringsCompare(a, b string) int {
	res := 0
	if len(a) < len(b) {
		res = -1
	}
	if len(a) > len(b) {
		res = 1
	}
	for i := min(len(a), len(b)) - 1; i >= 0; i-- {
		if a[i] < b[i] {
			res = -1
		}
		if a[i] > b[i] {
			res = 1
		}
	}
	return res
}
