package goja

import "github.com/dop251/goja/ftoa"

// C19 — JSON.stringify kernels: QuoteJSONString (ECMA-262 25.5.2.3), SerializeJSONProperty for
// primitives (25.5.2.2), gap/indent bookkeeping of SerializeJSONArray/Object (25.5.2.5/25.5.2.6).
// Reference models are written from the specification text only.

// ---------------------------------------------------------------------
// reference: QuoteJSONString, one UTF-16 code unit (plus look-ahead) at a time, output as UTF-8

type vC19Enc struct {
	n                      int  // number of output bytes
	b0, b1, b2, b3, b4, b5 byte // the bytes
	pair                   bool // the unit and its successor form a surrogate pair (successor consumed)
	nonASCII               bool // the output contains a byte >= 0x80
}

func refC19Hex(d uint16) byte {
	d &= 0xF
	if d < 10 {
		return '0' + byte(d)
	}
	return 'a' + byte(d-10)
}

// vC19Unit (ordinary forking code, executed BEFORE the kernel so that the kernel's own branches are
// then decided by the path condition): the JSON text of the code point starting at unit c (next = following unit if hasNext)
func vC19Unit(c uint16, next uint16, hasNext bool) vC19Enc {
	var e vC19Enc
	// Table 75: JSON single character escape sequences
	var esc byte
	switch c {
	case 0x08:
		esc = 'b'
	case 0x09:
		esc = 't'
	case 0x0A:
		esc = 'n'
	case 0x0C:
		esc = 'f'
	case 0x0D:
		esc = 'r'
	case 0x22:
		esc = '"'
	case 0x5C:
		esc = '\\'
	}
	if esc != 0 {
		e.n, e.b0, e.b1 = 2, '\\', esc
		return e
	}
	isHigh := c >= 0xD800 && c <= 0xDBFF
	isLow := c >= 0xDC00 && c <= 0xDFFF
	nextLow := hasNext && next >= 0xDC00 && next <= 0xDFFF
	if isHigh && nextLow {
		// StringToCodePoints: a surrogate pair is one code point, emitted verbatim (UTF-8: 4 bytes)
		cp := uint32(0x10000) + (uint32(c)-0xD800)<<10 + (uint32(next) - 0xDC00)
		e.n = 4
		e.b0 = byte(0xF0 | cp>>18)
		e.b1 = byte(0x80 | (cp>>12)&0x3F)
		e.b2 = byte(0x80 | (cp>>6)&0x3F)
		e.b3 = byte(0x80 | cp&0x3F)
		e.pair = true
		e.nonASCII = true
		return e
	}
	if c < 0x20 || isHigh || isLow {
		// UnicodeEscape: \u + 4 lower-case hex digits
		e.n = 6
		e.b0, e.b1 = '\\', 'u'
		e.b2, e.b3, e.b4, e.b5 = refC19Hex(c>>12), refC19Hex(c>>8), refC19Hex(c>>4), refC19Hex(c)
		return e
	}
	// verbatim
	switch {
	case c < 0x80:
		e.n, e.b0 = 1, byte(c)
	case c < 0x800:
		e.n = 2
		e.b0 = byte(0xC0 | c>>6)
		e.b1 = byte(0x80 | c&0x3F)
		e.nonASCII = true
	default:
		e.n = 3
		e.b0 = byte(0xE0 | c>>12)
		e.b1 = byte(0x80 | (c>>6)&0x3F)
		e.b2 = byte(0x80 | c&0x3F)
		e.nonASCII = true
	}
	return e
}

// vC19Expected: QuoteJSONString of the unit sequence as bytes; returns (buffer, length, nonASCII)
func vC19Expected(units []uint16) ([]byte, int, bool) {
	n := len(units)
	exp := make([]byte, 6*n+8)
	exp[0] = '"'
	pos := 1
	skip := false
	nonASCII := false
	for i := 0; i < n; i++ {
		var next uint16
		hasNext := i+1 < n
		if hasNext {
			next = units[i+1]
		}
		e := vC19Unit(units[i], next, hasNext)
		nb := e.n
		newSkip := e.pair
		na := e.nonASCII
		if skip {
			nb = 0
			newSkip = false
			na = false
		}
		skip = newSkip
		if na {
			nonASCII = true
		}
		// bytes beyond nb are overwritten by what follows
		exp[pos] = e.b0
		exp[pos+1] = e.b1
		exp[pos+2] = e.b2
		exp[pos+3] = e.b3
		exp[pos+4] = e.b4
		exp[pos+5] = e.b5
		pos += nb
	}
	exp[pos] = '"'
	return exp, pos + 1, nonASCII
}

// vC19String: an arbitrary ECMAScript string of exactly n code units in the ASCII or the UTF-16 representation
func vC19String(name string, n int, unicode bool) (String, []uint16) {
	units := make([]uint16, n)
	if !unicode {
		s := vNondetString(name+".a", n)
		for i := 0; i < n; i++ {
			vAssume(s[i] < 0x80)
			units[i] = uint16(s[i])
		}
		return asciiString(s), units
	}
	u := vNondetUint16s(name+".u", n)
	us := make(unicodeString, n+1)
	us[0] = 0xFEFF
	for i := 0; i < n; i++ {
		us[i+1] = u[i]
		units[i] = u[i]
	}
	return us, units
}

// H19.1: quote(str) appends exactly QuoteJSONString(str) and maintains allAscii
func H_C19_quote() {
	n := vNondetInt("n")
	vAssume(n >= 0 && n <= vBound("N"))
	n = vConcretize(n)
	unicode := vNondetBool("unicode")
	var str String
	var units []uint16
	if unicode {
		str, units = vC19String("s", n, true)
	} else {
		str, units = vC19String("s", n, false)
	}
	flag0 := vNondetBool("allAscii0")
	ctx := &_builtinJSON_stringifyContext{allAscii: flag0}
	ctx.quote(str)
	got := ctx.buf.Bytes()
	exp, expLen, nonASCII := vC19Expected(units)
	vAssert("quote:length", len(got) == expLen)
	ok := true
	for i := 0; i < len(got); i++ {
		if got[i] != exp[i] {
			ok = false
		}
	}
	vAssert("quote:bytes==QuoteJSONString", ok)
	vAssert("quote:allAscii", ctx.allAscii == (flag0 && !nonASCII))
}

// ---------------------------------------------------------------------
// H19.2 — SerializeJSONProperty for primitives (ECMA-262 25.5.2.2 steps 5-12)

// symbolic-mode stand-ins for the number-to-text routines (their exactness is property C12)
func vStubC19IntString(i valueInt) string { return "<int>" }
func vStubC19FToStr(d float64, mode ftoa.FToStrMode, precision int, buffer []byte) []byte {
	if d == 0 { // +0 and -0 print as "0" (established for the real FToStr by H12.1)
		return append(buffer, '0')
	}
	return append(buffer, "<num>"...)
}

func vC19Object(r *Runtime) *baseObject {
	return r.newBaseObject(r.global.ObjectPrototype, classObject)
}

func vC19Array(r *Runtime, values []Value) *Object {
	var proto *Object
	if !vSymbolic() {
		proto = r.getArrayPrototype()
	}
	return setArrayValues(r.newArray(proto), values).val
}

func H_C19_strPrimitive() {
	r := vRuntime()
	kind := vNondetInt("kind")
	vAssume(kind >= 0 && kind <= 7)
	kind = vConcretize(kind)
	var val Value
	var want string
	wantRet := true
	switch kind {
	case 0: // Boolean
		b := vNondetBool("b")
		val = valueBool(b)
		want = "false"
		if b {
			want = "true"
		}
	case 1: // null
		val = _null
		want = "null"
	case 2: // undefined: not serialised
		val = _undefined
		wantRet = false
	case 3: // Symbol: not serialised
		val = &Symbol{desc: asciiString("s")}
		wantRet = false
	case 4: // integer-valued Number: ToString(value)
		i := vNondetInt64("i")
		vAssume(i >= -(1<<53) && i <= 1<<53)
		val = valueInt(i)
		want = valueInt(i).String()
	case 5: // non-finite Number -> null ; -0 -> "0"
		which := vNondetInt("which")
		vAssume(which >= 0 && which <= 3)
		which = vConcretize(which)
		want = "null"
		switch which {
		case 0:
			val = _NaN
		case 1:
			val = _positiveInf
		case 2:
			val = _negativeInf
		default:
			val = _negativeZero
			want = "0"
		}
	case 6: // other finite non-integer Number: ToString(value)
		f := vNondetFloat64("f")
		vAssume(f == f && f-f == 0) // finite
		vAssume(!refIsIntegralInSafeRange(vFloat64bits(f)))
		val = valueFloat(f)
		want = valueFloat(f).String()
		if vFloat64bits(f) == 1<<63 {
			want = "0"
		}
	default: // String of <= 1 unit
		n := vNondetInt("n")
		vAssume(n >= 0 && n <= 1)
		n = vConcretize(n)
		s, units := vC19String("s", n, vNondetBool("unicode"))
		val = s
		exp, expLen, _ := vC19Expected(units)
		want = string(exp[:expLen])
	}
	holder := vC19Object(r)
	holder._putProp("k", val, true, true, true)
	pre := vNondetString("prefix", 1)
	ctx := &_builtinJSON_stringifyContext{r: r, allAscii: true}
	ctx.buf.WriteString(pre)
	ret := ctx.str(asciiString("k"), holder.val)
	vAssert("str:serialised-or-omitted", ret == wantRet)
	got := string(ctx.buf.Bytes())
	if wantRet {
		vAssert("str:text==SerializeJSONProperty", got == pre+want)
	} else {
		vAssert("str:omitted-writes-nothing", got == pre)
	}
	vAssert("str:stack-balanced", len(ctx.stack) == 0)
}

// ---------------------------------------------------------------------
// H19.2 — SerializeJSONObject / SerializeJSONArray gap and indent (25.5.2.5 / 25.5.2.6)

const (
	vkjInt         = iota // 1
	vkjEmptyObj           // {}
	vkjEmptyArr           // []
	vkjUndefObj           // {c: undefined}  -> {}
	vkjObj                // {c: 1}
	vkjArr                // [1]
	vkjUndefined          // undefined
	vkjFunc               // a callable object (omitted / null)
	vkjNumKinds
)

func vC19Build(r *Runtime, kind int, fn *Object) Value {
	switch kind {
	case vkjInt:
		return valueInt(1)
	case vkjEmptyObj:
		return vC19Object(r).val
	case vkjEmptyArr:
		return vC19Array(r, nil)
	case vkjUndefObj:
		o := vC19Object(r)
		o._putProp("c", _undefined, true, true, true)
		return o.val
	case vkjObj:
		o := vC19Object(r)
		o._putProp("c", valueInt(1), true, true, true)
		return o.val
	case vkjArr:
		return vC19Array(r, []Value{valueInt(1)})
	case vkjFunc:
		return fn
	}
	return _undefined
}

// vC19RefMember: SerializeJSONProperty of a member value at indentation `indent` (the indent of the enclosing
// container's members); ok=false: undefined
func vC19RefMember(kind int, indent, gap string) (string, bool) {
	switch kind {
	case vkjInt:
		return "1", true
	case vkjEmptyObj, vkjUndefObj:
		return "{}", true
	case vkjEmptyArr:
		return "[]", true
	case vkjObj:
		if gap == "" {
			return `{"c":1}`, true
		}
		return "{\n" + indent + gap + `"c": 1` + "\n" + indent + "}", true
	case vkjArr:
		if gap == "" {
			return "[1]", true
		}
		return "[\n" + indent + gap + "1" + "\n" + indent + "]", true
	}
	return "", false
}

func vC19RefRoot(isArr bool, k0, k1 int, gap string) string {
	indent := gap // root: stepback "", indent = "" + gap
	kinds := [2]int{k0, k1}
	names := [2]string{`"a"`, `"b"`}
	var partial []string
	for i := 0; i < 2; i++ {
		s, ok := vC19RefMember(kinds[i], indent, gap)
		if isArr {
			if !ok {
				s = "null"
			}
			partial = append(partial, s)
		} else if ok {
			m := names[i] + ":"
			if gap != "" {
				m += " "
			}
			partial = append(partial, m+s)
		}
	}
	open, cl := "{", "}"
	if isArr {
		open, cl = "[", "]"
	}
	if len(partial) == 0 {
		return open + cl
	}
	sep := ","
	if gap != "" {
		sep = ",\n" + indent
	}
	body := partial[0]
	for i := 1; i < len(partial); i++ {
		body += sep + partial[i]
	}
	if gap == "" {
		return open + body + cl
	}
	return open + "\n" + indent + body + "\n" + cl
}

func H_C19_indent() {
	r := vRuntime()
	isArr := vNondetBool("rootIsArray")
	k0 := vNondetInt("k0")
	vAssume(k0 >= 0 && k0 < vkjNumKinds)
	k0 = vConcretize(k0)
	k1 := vNondetInt("k1")
	vAssume(k1 >= 0 && k1 < vkjNumKinds)
	k1 = vConcretize(k1)
	gl := vNondetInt("gapLen")
	vAssume(gl >= 0 && gl <= vBound("G"))
	gl = vConcretize(gl)
	gap := vNondetString("gap", gl)

	// a callable object: natively a real function, symbolically a bare native function object
	var fn *Object
	if vSymbolic() {
		f := &nativeFuncObject{}
		f.class = classFunction
		f.val = &Object{runtime: r}
		f.val.self = f
		f.extensible = true
		f.init("f", valueInt(0))
		f.f = func(FunctionCall) Value { return _undefined }
		fn = f.val
	} else {
		fn = r.newNativeFunc(func(FunctionCall) Value { return _undefined }, "f", 0)
	}
	v0 := vC19Build(r, k0, fn)
	v1 := vC19Build(r, k1, fn)
	var root *Object
	if isArr {
		root = vC19Array(r, []Value{v0, v1})
	} else {
		o := vC19Object(r)
		o._putProp("a", v0, true, true, true)
		o._putProp("b", v1, true, true, true)
		root = o.val
	}
	holder := vC19Object(r)
	holder._putProp("r", root, true, true, true)
	ctx := &_builtinJSON_stringifyContext{r: r, allAscii: true, gap: gap}
	out := vCatch(func() { ctx.str(asciiString("r"), holder.val) })
	vAssert("indent:no-throw", !out.panicked)
	if out.panicked {
		return
	}
	got := string(ctx.buf.Bytes())
	want := vC19RefRoot(isArr, k0, k1, gap)
	// known defect class: an EMPTY nested container does not restore ctx.indent, so a later non-empty
	// nested container is over-indented
	emptyFirst := k0 == vkjEmptyObj || k0 == vkjEmptyArr || k0 == vkjUndefObj
	nestedSecond := k1 == vkjObj || k1 == vkjArr
	vAssertK("indent:text==SerializeJSONObject/Array", got == want, gl > 0 && emptyFirst && nestedSecond, "F-C19-indent-not-restored-after-empty")
	vAssert("indent:stack-balanced", len(ctx.stack) == 0)
}
