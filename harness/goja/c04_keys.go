package goja

import (
	"math"

	"github.com/dop251/goja/unistring"
)

// ---------------------------------------------------------------------
// C04 / H04.4 — OrdinaryOwnPropertyKeys order (10.1.11.1) and the bookkeeping behind it
// (propNames / lastSortedPropLen / idxPropCount; _delete, fixPropOrder, stringKeys).
//
// One inductive step from an arbitrary state satisfying the representation invariant
//   INV: names unique; names[:idxPropCount] are array indices in ascending order; names[idxPropCount:lastSortedPropLen]
//        are not array indices; idxPropCount <= lastSortedPropLen <= len(names); values has exactly the names.
// State -> optional delete of a present key -> optional append of a new key -> INV still holds, and after
// ensurePropOrder the listing is: array indices ascending, then the other strings in insertion order.

type vC04Key struct {
	name  unistring.String
	isIdx bool   // CanonicalNumericIndexString is an integer in [0, 2^32-2]  (written by hand from 6.1.7)
	idx   uint32 // its value
}

var vC04KeyPool = []vC04Key{
	{"1", true, 1}, {"5", true, 5}, // 0,1: sorted-prefix candidates
	{"a", false, 0}, {"b", false, 0}, // 2,3: strings of the sorted region
	{"3", true, 3}, {"b2", false, 0}, // 4,5: unsorted tail candidates
	{"9", true, 9}, {"0", true, 0}, {"01", false, 0}, {"4294967294", true, 4294967294}, {"4294967295", false, 0}, {"c", false, 0}, {"-1", false, 0}, // 6..12: appended key
}

// the model: keys in insertion order (for index keys the position is irrelevant)
type vC04KeyModel struct {
	order []int // pool positions
}

func (m *vC04KeyModel) remove(k int) {
	for i, x := range m.order {
		if x == k {
			m.order = append(m.order[:i:i], m.order[i+1:]...)
			return
		}
	}
}

// refC04-style expected listing, all concrete: indices ascending, then strings in insertion order
func (m *vC04KeyModel) expected() []unistring.String {
	var idxs []int
	for _, k := range m.order {
		if vC04KeyPool[k].isIdx {
			// insertion sort by numeric value
			pos := len(idxs)
			for pos > 0 && vC04KeyPool[idxs[pos-1]].idx > vC04KeyPool[k].idx {
				pos--
			}
			idxs = append(idxs, 0)
			copy(idxs[pos+1:], idxs[pos:])
			idxs[pos] = k
		}
	}
	var out []unistring.String
	for _, k := range idxs {
		out = append(out, vC04KeyPool[k].name)
	}
	for _, k := range m.order {
		if !vC04KeyPool[k].isIdx {
			out = append(out, vC04KeyPool[k].name)
		}
	}
	return out
}

func vC04PoolPos(name unistring.String) int {
	for i, k := range vC04KeyPool {
		if k.name == name {
			return i
		}
	}
	return -1
}

// the representation invariant, checked against the hand-written classification table
func vC04KeysInv(b *baseObject) (unique, prefixIdxAscending, restNonIdx, counts, valuesMatch bool) {
	unique, prefixIdxAscending, restNonIdx, valuesMatch = true, true, true, true
	n := len(b.propNames)
	counts = 0 <= b.idxPropCount && b.idxPropCount <= b.lastSortedPropLen && b.lastSortedPropLen <= n
	if !counts {
		return
	}
	for i, nm := range b.propNames {
		for j := 0; j < i; j++ {
			if b.propNames[j] == nm {
				unique = false
			}
		}
		if _, ok := b.values[nm]; !ok {
			valuesMatch = false
		}
		k := vC04PoolPos(nm)
		if k < 0 {
			valuesMatch = false
			continue
		}
		if i < b.idxPropCount {
			if !vC04KeyPool[k].isIdx {
				prefixIdxAscending = false
			} else if i > 0 {
				pk := vC04PoolPos(b.propNames[i-1])
				if pk < 0 || vC04KeyPool[pk].idx >= vC04KeyPool[k].idx {
					prefixIdxAscending = false
				}
			}
		} else if i < b.lastSortedPropLen {
			if vC04KeyPool[k].isIdx {
				restNonIdx = false
			}
		}
	}
	if len(b.values) != n {
		valuesMatch = false
	}
	return
}

func H_C04_keyOrder() {
	r := vRuntime()
	_, b := vC04Obj(r, true)
	m := &vC04KeyModel{}
	add := func(k int) {
		b.values[vC04KeyPool[k].name] = valueInt(int64(k))
		b.propNames = append(b.propNames, vC04KeyPool[k].name)
		m.order = append(m.order, k)
	}
	// --- an arbitrary valid state ---
	prefix := vC04Choice("state.prefixMask", 0, 3)
	if prefix&1 != 0 {
		add(0)
	}
	if prefix&2 != 0 {
		add(1)
	}
	b.idxPropCount = len(b.propNames)
	nstr := vC04Choice("state.sortedStrings", 0, 2)
	for i := 0; i < nstr; i++ {
		add(2 + i)
	}
	b.lastSortedPropLen = len(b.propNames)
	tail := vC04Choice("state.tail", 0, 2) // 0 none, 1 an index key, 2 a string key
	if tail != 0 {
		add(3 + tail)
	}
	// all inputs are drawn before the first assertion (a replay record ends at the failing assertion)
	del := vC04Choice("delete", -1, 5)
	if del >= 0 {
		present := false
		for _, x := range m.order {
			if x == del {
				present = true
			}
		}
		vAssume(present)
	}
	app := vC04Choice("append", 5, 12) // 5 = nothing
	// --- the classification kernel agrees with the table on every pool key ---
	classOK := true
	for _, k := range vC04KeyPool {
		got := strToArrayIdx(k.name)
		if k.isIdx {
			if got != k.idx {
				classOK = false
			}
		} else if got != math.MaxUint32 {
			classOK = false
		}
	}
	vAssert("keys:strToArrayIdx==table", classOK)

	// --- step 1: delete a present key (or nothing) ---
	if del >= 0 {
		b._delete(vC04KeyPool[del].name)
		m.remove(del)
		u, p, s, c, v := vC04KeysInv(b)
		vAssert("delete:INV-counts", c)
		vAssert("delete:INV-unique", u)
		vAssert("delete:INV-prefix-indices-ascending", p)
		vAssert("delete:INV-sorted-rest-non-index", s)
		vAssert("delete:INV-values==names", v)
		// idxPropCount is exactly the number of array-index names in the sorted region
		cnt := 0
		for i := 0; i < b.lastSortedPropLen && i < len(b.propNames); i++ {
			if k := vC04PoolPos(b.propNames[i]); k >= 0 && vC04KeyPool[k].isIdx {
				cnt++
			}
		}
		vAssert("delete:idxPropCount==index-names-in-sorted-region", cnt == b.idxPropCount)
	}
	// --- step 2: append a new key through the real [[Set]] path (or nothing) ---
	if app > 5 {
		ok := b.setOwnStr(vC04KeyPool[app].name, valueInt(int64(app)), false)
		vAssert("append:accepted", ok)
		m.order = append(m.order, app)
	}
	// --- listing ---
	keys := b.stringKeys(true, nil)
	exp := m.expected()
	same := len(keys) == len(exp)
	if same {
		for i := range keys {
			if keys[i].string() != exp[i] {
				same = false
			}
		}
	}
	vAssert("keys:indices-ascending-then-strings-in-insertion-order", same)
	u, p, s, c, v := vC04KeysInv(b)
	vAssert("keys:INV-after-listing", u && p && s && c && v)
	vAssert("keys:all-sorted-after-listing", b.lastSortedPropLen == len(b.propNames))
}
