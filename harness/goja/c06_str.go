package goja

import (
	"hash/maphash"

	"github.com/dop251/goja/unistring"
)

// C06 — a String is its sequence of UTF-16 code units, whatever its representation.
//
// Reference model (not taken from goja or unicode/utf8|utf16): Unicode 15 Table 3-7 (well-formed
// UTF-8) and D91 (UTF-16 encoding form); ECMA-262 6.1.4 (String type: sequence of 16-bit units),
// 7.2.13/7.2.15 (string comparison by code units).
//
// Engine note: helper functions with many branches are deliberately NOT named ref*: the engine
// if-converts their simple `if x { y = z }` statements into one small term, whereas a summarised
// ref* function enumerates every syntactic path.

// vC06Decode: first scalar value of a byte sequence of which `avail` bytes exist (Table 3-7)
func vC06Decode(b0, b1, b2, b3 byte, avail int) (r int32, size int, ok bool) {
	x1, x2, x3 := int32(b1&0x3F), int32(b2&0x3F), int32(b3&0x3F)
	lo, hi := byte(0x80), byte(0xBF)
	if b0 == 0xE0 {
		lo = 0xA0
	}
	if b0 == 0xED {
		hi = 0x9F
	}
	if b0 == 0xF0 {
		lo = 0x90
	}
	if b0 == 0xF4 {
		hi = 0x8F
	}
	ok2 := b1 >= lo
	if b1 > hi {
		ok2 = false
	}
	ok3 := ok2
	if b2&0xC0 != 0x80 {
		ok3 = false
	}
	ok4 := ok3
	if b3&0xC0 != 0x80 {
		ok4 = false
	}
	if avail < 2 {
		ok2 = false
	}
	if avail < 3 {
		ok3 = false
	}
	if avail < 4 {
		ok4 = false
	}
	r, size, ok = int32(b0), 1, b0 < 0x80
	if b0 >= 0xC2 {
		r, size, ok = int32(b0&0x1F)<<6|x1, 2, ok2
	}
	if b0 >= 0xE0 {
		r, size, ok = int32(b0&0x0F)<<12|x1<<6|x2, 3, ok3
	}
	if b0 >= 0xF0 {
		r, size, ok = int32(b0&0x07)<<18|x1<<12|x2<<6|x3, 4, ok4
	}
	if b0 > 0xF4 {
		ok = false
	}
	if avail < 1 {
		ok = false
	}
	if !ok {
		r, size = 0, 0
	}
	return
}

func refC06Hi(r int32) uint16 { return uint16(0xD800 + ((r - 0x10000) >> 10)) }
func refC06Lo(r int32) uint16 { return uint16(0xDC00 + ((r - 0x10000) & 0x3FF)) }

func vC06At(s string, i int) byte {
	if i < len(s) {
		return s[i]
	}
	return 0
}

// symbolic-mode replacement of unicode/utf8.DecodeRuneInString by its documented contract
func vC06StubDecodeRuneInString(s string) (rune, int) {
	if len(s) == 0 {
		return 0xFFFD, 0
	}
	r, size, ok := vC06Decode(vC06At(s, 0), vC06At(s, 1), vC06At(s, 2), vC06At(s, 3), min(len(s), 4))
	if !ok {
		r = 0xFFFD
		size = 1
	}
	return r, size
}

// vC06ValidUTF8: arbitrary well-formed UTF-8 string of at most maxBytes bytes and maxUnits UTF-16
// units, with its reference code units.
func vC06ValidUTF8(name string, maxBytes, maxUnits int) (s string, units []uint16) {
	n := vNondetInt(name + ".len")
	vAssume(n >= 0 && n <= maxBytes)
	n = vConcretize(n)
	s = vNondetString(name, n)
	units = []uint16{}
	for pos := 0; pos < n; {
		r, size, ok := vC06Decode(vC06At(s, pos), vC06At(s, pos+1), vC06At(s, pos+2), vC06At(s, pos+3), n-pos)
		vAssume(ok)
		size = vConcretize(size)
		if size == 4 {
			units = append(units, refC06Hi(r), refC06Lo(r))
		} else {
			units = append(units, uint16(r))
		}
		vAssume(len(units) <= maxUnits)
		pos += size
	}
	return
}

const (
	vC06Ascii = iota
	vC06Unicode
	vC06ImpUnscanned
	vC06ImpScanned
	vC06NumReps
)

// vC06Str: a String value in normal form in one of the representations + its reference content
type vC06Str struct {
	rep   int
	units []uint16
	utf8  string // Go string behind ascii / imported representations
}

// value: a FRESH String value (imported strings are stateful: scanning mutates them)
func (x *vC06Str) value() String {
	switch x.rep {
	case vC06Ascii:
		return asciiString(x.utf8)
	case vC06Unicode:
		buf := make([]uint16, len(x.units)+1)
		buf[0] = unistring.BOM
		copy(buf[1:], x.units)
		return unicodeString(buf)
	case vC06ImpUnscanned:
		return &importedString{s: x.utf8}
	}
	i := &importedString{s: x.utf8}
	i.ensureScanned()
	return i
}

func vC06HasNonASCII(units []uint16) bool {
	non := false
	for _, u := range units {
		if u >= 0x80 {
			non = true
		}
	}
	return non
}

// vC06NewStr: arbitrary string with representation in [repLo, repHi]
func vC06NewStr(name string, repLo, repHi int) *vC06Str {
	rep := vNondetInt(name + ".rep")
	vAssume(rep >= repLo && rep <= repHi)
	rep = vConcretize(rep)
	x := &vC06Str{rep: rep}
	maxU := vBound("U")
	switch rep {
	case vC06Ascii:
		n := vNondetInt(name + ".n")
		vAssume(n >= 0 && n <= maxU)
		n = vConcretize(n)
		x.utf8 = vNondetString(name+".a", n)
		x.units = make([]uint16, n)
		for i := 0; i < n; i++ {
			vAssume(x.utf8[i] < 0x80)
			x.units[i] = uint16(x.utf8[i])
		}
	case vC06Unicode:
		n := vNondetInt(name + ".n")
		vAssume(n >= 1 && n <= maxU)
		n = vConcretize(n)
		x.units = vNondetUint16s(name+".u", n)
		vAssume(vC06HasNonASCII(x.units))
	default:
		x.utf8, x.units = vC06ValidUTF8(name+".s", vBound("B"), maxU)
	}
	return x
}

func vC06SameUnits(a, b []uint16) bool {
	if len(a) != len(b) {
		return false
	}
	same := true
	for i := range a {
		if a[i] != b[i] {
			same = false
		}
	}
	return same
}

// vC06Content: s (after devirtualisation) is in normal form and has exactly these units
func vC06Content(s String, units []uint16) bool {
	a, u := devirtualizeString(s)
	if u != nil {
		if len(u) != len(units)+1 || u[0] != unistring.BOM {
			return false
		}
		ok := vC06SameUnits(u[1:], units)
		if !vC06HasNonASCII(units) {
			ok = false
		}
		return ok
	}
	if len(a) != len(units) {
		return false
	}
	ok := true
	for i := range units {
		if uint16(a[i]) != units[i] {
			ok = false
		}
		if a[i] >= 0x80 {
			ok = false
		}
	}
	return ok
}

// ---------------------------------------------------------------------
// hash/maphash cannot be interpreted (runtime memhash): uninterpreted function over the bytes written

var vC06HashBuf []byte

func vC06StubHashWriteString(h *maphash.Hash, s string) (int, error) {
	vC06HashBuf = append(vC06HashBuf, s...)
	return len(s), nil
}
func vC06StubHashWrite(h *maphash.Hash, b []byte) (int, error) {
	vC06HashBuf = append(vC06HashBuf, b...)
	return len(b), nil
}
func vC06StubHashSum64(h *maphash.Hash) uint64 {
	args := make([]uint64, len(vC06HashBuf))
	for i, b := range vC06HashBuf {
		args[i] = uint64(b)
	}
	return vUF64("maphash", args...)
}
func vC06StubHashReset(h *maphash.Hash) { vC06HashBuf = nil }

// ---------------------------------------------------------------------
// H06.2 equality and hashing across representations

func vC06EqHarness(repLo, repHi int) {
	a := vC06NewStr("a", repLo, repHi)
	b := vC06NewStr("b", a.rep, vC06NumReps-1)
	same := vC06SameUnits(a.units, b.units)
	var h maphash.Hash
	// hash first: a Map/Set key may be the first use of an imported string
	av, bv := a.value(), b.value()
	ha := av.hash(&h)
	hb := bv.hash(&h)
	vAssert("hash:equal-units=>equal-hash", !same || ha == hb)
	ha2 := av.hash(&h)
	vAssert("hash:stable", ha == ha2)
	vAssert("hash:content-kept", vC06Content(av, a.units))
	// each predicate from fresh values, both directions
	vAssert("StrictEquals:a,b", a.value().StrictEquals(b.value()) == same)
	vAssert("StrictEquals:b,a", b.value().StrictEquals(a.value()) == same)
	vAssert("SameAs:a,b", a.value().SameAs(b.value()) == same)
	vAssert("SameAs:b,a", b.value().SameAs(a.value()) == same)
	vAssert("Equals:a,b", a.value().Equals(b.value()) == same)
	vAssert("Equals:b,a", b.value().Equals(a.value()) == same)
	// the unistring key (property name) identifies the content as well
	vAssert("string():equal-iff-same-units", (a.value().string() == b.value().string()) == same)
}

func H_C06_eqAscii()   { vC06EqHarness(vC06Ascii, vC06Ascii) }
func H_C06_eqUnicode() { vC06EqHarness(vC06Unicode, vC06Unicode) }
func H_C06_eqImpU()    { vC06EqHarness(vC06ImpUnscanned, vC06ImpUnscanned) }
func H_C06_eqImpS()    { vC06EqHarness(vC06ImpScanned, vC06ImpScanned) }

// ---------------------------------------------------------------------
// H06.3 builders

// vC06Rune: arbitrary code point 0..0x10FFFF (surrogate code points included: goja uses them to carry
// lone surrogates through rune-based APIs); appends its reference UTF-16 to units
func vC06Rune(name string, units []uint16) (rune, []uint16) {
	r := vNondetInt32(name)
	vAssume(r >= 0 && r <= 0x10FFFF)
	if vNondetBool(name + ".supp") {
		vAssume(r > 0xFFFF)
		return r, append(units, refC06Hi(r), refC06Lo(r))
	}
	vAssume(r <= 0xFFFF)
	return r, append(units, uint16(r))
}

func H_C06_unicodeBuilderRunes() {
	n := vNondetInt("n")
	vAssume(n >= 0 && n <= vBound("W"))
	n = vConcretize(n)
	var b unicodeStringBuilder
	units := []uint16{}
	for i := 0; i < n; i++ {
		var r rune
		r, units = vC06Rune("r", units)
		b.WriteRune(r)
	}
	res := b.String()
	vAssert("usb:runes:content+normal-form", vC06Content(res, units))
}

func H_C06_stringFromRune() {
	r, units := vC06Rune("r", []uint16{})
	vAssert("stringFromRune:content+normal-form", vC06Content(stringFromRune(r), units))
}

// ---------------------------------------------------------------------
// H06.1 value constructors

func H_C06_newStringValue() {
	s, units := vC06ValidUTF8("s", vBound("B"), vBound("B"))
	vAssert("newStringValue:content+normal-form", vC06Content(newStringValue(s), units))
	_, isImp := newStringValue(s).(*importedString)
	vAssert("newStringValue:eager", !isImp)
}

func H_C06_stringValueFromRaw() {
	s, units := vC06ValidUTF8("s", vBound("B"), vBound("B"))
	raw := unistring.NewFromString(s)
	v := stringValueFromRaw(raw)
	vAssert("fromRaw:content+normal-form", vC06Content(v, units))
	vAssert("fromRaw:string()-round-trip", v.string() == raw)
}

func H_C06_StringFromUTF16() {
	n := vNondetInt("n")
	vAssume(n >= 0 && n <= vBound("U"))
	n = vConcretize(n)
	units := vNondetUint16s("u", n)
	v := StringFromUTF16(units)
	vAssert("StringFromUTF16:content+normal-form", vC06Content(v, units))
	_, isU := v.(unicodeString)
	vAssert("StringFromUTF16:unicode-iff-nonascii", isU == vC06HasNonASCII(units))
}
