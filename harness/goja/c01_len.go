package goja

import (
	"math"
	"strings"
)

// ---------------------------------------------------------------------
// C01 / H01.3 — built-in length arithmetic: String.prototype.repeat(count) on a 2-unit ASCII receiver for
// EVERY Number count. ECMA-262 22.1.3.18: count < 0 or +Infinity -> RangeError; count 0 -> ""; otherwise
// the result has length 2*count — an implementation may refuse (RangeError) but the size it hands to
// the allocator must never be negative / wrapped / beyond what Go can allocate (host panic).

// symbolic-mode stand-in for strings.Builder.Grow: mirrors its documented panics, and cuts the path after a
// sane reservation (the copy loop is not part of the claim)
func vC01StubGrow(b *strings.Builder, n int) {
	if n < 0 {
		panic("strings.Builder.Grow: negative count")
	}
	if n >= 1<<40 {
		panic("runtime error: makeslice: len out of range")
	}
	vAssume(false)
}

// refC01RepeatHuge: class of the known finding F-C01-repeat-size
func refC01RepeatHuge(count int64) bool { return count >= 1<<39 }

func H_C01_repeat() {
	r := vRuntime()
	n := vNumber("count")
	bits := vNumberBits(n)
	cnt := refToIntegerClamp(bits)
	// the band where the engine really allocates up to terabytes is outside the claim
	vAssume(cnt <= 8 || cnt >= 1<<47)
	var res Value
	var out vOutcome
	p := vC01Guard(func() {
		out = vCatch(func() {
			res = r.stringproto_repeat(FunctionCall{This: asciiString("ab"), Arguments: []Value{n}})
		})
	})
	vAssertK("repeat:no-go-panic", !p, refC01RepeatHuge(cnt), "F-C01-repeat-size")
	if p {
		return
	}
	posInf := bits == math.Float64bits(math.Inf(1))
	if cnt < 0 || posInf {
		vAssert("repeat:negative-or-infinite-count-RangeError", out.panicked && out.kind == "RangeError")
	} else if cnt == 0 {
		vAssert("repeat:zero-count-empty", !out.panicked && res != nil && res.String() == "")
	} else {
		vReach("repeat:positive-count")
	}
}
