package goja

import "hash/maphash"

// H16.1: primitive string values are documented as goroutine-safe ("Instances of this type, as any
// other primitive values, are goroutine-safe and can be passed between runtimes", string.go). Two calls
// A and B of String-interface methods run on two identical copies of one *importedString (each starts
// from the same pre-state, as two goroutines would); the engine logs every access to the value's memory
// with its synchronisation context and pairs the logs (engine/race.go).

func vC16Call(s *importedString, which int, other String) {
	switch which {
	case 0:
		_ = s.Length()
	case 1:
		_ = s.CharAt(0)
	case 2:
		_ = s.StrictEquals(other)
	case 3:
		_ = s.string()
	case 4:
		_ = s.ToInteger()
	case 5:
		_ = s.Concat(other)
	case 6:
		_ = s.SameAs(other)
	default:
		_ = s.hash(&maphash.Hash{})
	}
}

const vC16Methods = 8

func H_C16_importedString_shared() {
	// content: ASCII or non-ASCII (decides whether the scan allocates a UTF-16 form); pre-state: scanned
	// by an earlier use or not
	content := "ab"
	if vChoice("content.nonASCII", 2) == 1 {
		content = "\u00e9"
	}
	mk := func() *importedString { return &importedString{s: content} }
	other := asciiString("zz")
	a, b := mk(), mk()
	// B may run after somebody completed the scan (it then sees the published state)
	if vChoice("B.sees-completed-scan", 2) == 1 {
		b.ensureScanned()
	}
	ma := vChoice("A.method", vC16Methods)
	mb := vChoice("B.method", vC16Methods)
	vRaceBegin("A", a)
	vC16Call(a, ma, other)
	vRaceEnd()
	vRaceBegin("B", b)
	vC16Call(b, mb, other)
	vRaceEnd()
	vAssertNoRace("importedString:no-unsynchronised-conflicting-access", "A", "B")
}
