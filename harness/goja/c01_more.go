package goja

import (
	"math"

	"github.com/dop251/goja/unistring"
)

// =====================================================================
// C01 (third wave) — more kernels where a Go runtime panic (index/slice out of range, makeslice, negative
// Grow, nil dereference, bad type assertion) depends on rare integers. Every harness asserts BOTH
// "no Go panic escapes" (vC01Guard / the implicit no-escaping-panic obligation) and the result the
// specification prescribes, so that a "fix" of a panic that returns garbage is caught as well.

// ---------------------------------------------------------------------
// H01.7 — String.prototype methods with integer arguments, EVERY Number argument (or undefined), receivers of
// 0..U code units in both internal representations (asciiString, unicodeString).
// References written from ECMA-262 22.1.3 (at 22.1.3.1, charAt .2, charCodeAt .3, codePointAt .4,
// padEnd/padStart .16/.17 + StringPad 22.1.3.17.1, slice .22, substring .25, B.2.2.1 substr).

type vC01Str3 struct {
	units []uint16
	val   String
}

// vC01NewStr: a receiver string with a concrete shape (representation, length) and symbolic content
func vC01NewStr(name string, maxU int) *vC01Str3 {
	shape := vChoice(name+".shape", 2*maxU+1) // 0..maxU: ascii of that length; maxU+1..2maxU: unicode of length 1..maxU
	x := &vC01Str3{}
	if shape <= maxU {
		n := shape
		s := vNondetString(name+".a", n)
		x.units = make([]uint16, n)
		for i := 0; i < n; i++ {
			vAssume(s[i] < 0x80)
			x.units[i] = uint16(s[i])
		}
		x.val = asciiString(s)
		return x
	}
	n := shape - maxU
	x.units = vNondetUint16s(name+".u", n)
	vAssume(vC06HasNonASCII(x.units))
	buf := make([]uint16, n+1)
	buf[0] = unistring.BOM
	copy(buf[1:], x.units)
	x.val = unicodeString(buf)
	return x
}

// vC01UnitsOf: the code units of a result String whatever its representation
func vC01UnitsOf(s String) []uint16 {
	n := s.Length()
	u := make([]uint16, n)
	for i := 0; i < n; i++ {
		u[i] = s.CharAt(i)
	}
	return u
}

// vC01IsSub: got has exactly the units units[from:to] (from/to may be symbolic, len(got) is concrete)
func vC01IsSub(got []uint16, units []uint16, from, to int64) bool {
	ok := int64(len(got)) == to-from
	if from < 0 || to > int64(len(units)) || from > to {
		return false
	}
	for i := range got {
		k := from + int64(i)
		var w uint16
		if k >= 0 && k < int64(len(units)) {
			w = units[k]
		}
		if got[i] != w {
			ok = false
		}
	}
	return ok
}

// vC01Arg: an argument that is either absent (undefined) or an arbitrary Number; integer = ToIntegerOrInfinity
// clamped to int64 (all receivers are far shorter than 2^63, so the clamp is unobservable)
type vC01Arg struct {
	undef bool
	v     Value
	i     int64  // ToIntegerOrInfinity, clamped
	bits  uint64 // the double
}

func vC01NewArg(name string, mayBeUndefined bool) vC01Arg {
	if mayBeUndefined && vChoice(name+".undefined", 2) == 1 {
		return vC01Arg{undef: true, v: _undefined, i: 0, bits: math.Float64bits(math.NaN())}
	}
	v := vNumber(name)
	b := vNumberBits(v)
	return vC01Arg{v: v, i: refToIntegerClamp(b), bits: b}
}

type refC01Range struct{ from, to int64 }

// 22.1.3.25 substring
func refC01Substring(l, s, e int64, eUndef bool) refC01Range {
	if eUndef {
		e = l
	}
	fs := min(max(s, 0), l)
	fe := min(max(e, 0), l)
	return refC01Range{min(fs, fe), max(fs, fe)}
}

// 22.1.3.22 slice
func refC01Slice(l, s, e int64, eUndef bool) refC01Range {
	if eUndef {
		e = l
	}
	var from, to int64
	if s < 0 {
		// l + s cannot wrap: l <= 2^31, s >= -2^63
		from = max(l+s, 0)
	} else {
		from = min(s, l)
	}
	if e < 0 {
		to = max(l+e, 0)
	} else {
		to = min(e, l)
	}
	if from >= to {
		return refC01Range{0, 0}
	}
	return refC01Range{from, to}
}

// B.2.2.1 substr
func refC01Substr(l, s, n int64, nUndef bool) refC01Range {
	var st int64
	if s < 0 {
		st = max(l+s, 0)
	} else {
		st = min(s, l)
	}
	ln := l
	if !nUndef {
		ln = min(max(n, 0), l)
	}
	end := min(st+ln, l)
	if st >= end {
		return refC01Range{0, 0}
	}
	return refC01Range{st, end}
}

// 22.1.3.1 at: the index of the unit or -1
func refC01At(l, rel int64) int64 {
	k := rel
	if rel < 0 {
		k = l + rel
	}
	if k < 0 || k >= l {
		return -1
	}
	return k
}

// charAt/charCodeAt/codePointAt position: index or -1
func refC01Pos(l, p int64) int64 {
	if p < 0 || p >= l {
		return -1
	}
	return p
}

func vC01UnitAt(units []uint16, k int64) uint16 {
	var w uint16
	if k >= 0 && k < int64(len(units)) {
		w = units[k]
	}
	return w
}

// refC01CodePoint: 11.1.4 CodePointAt on (first, second, hasSecond)
func refC01CodePoint(first, second uint16, hasSecond bool) int64 {
	if first >= 0xD800 && first <= 0xDBFF && hasSecond && second >= 0xDC00 && second <= 0xDFFF {
		return (int64(first)-0xD800)*0x400 + (int64(second) - 0xDC00) + 0x10000
	}
	return int64(first)
}

func vC01NumberIs(v Value, want int64) bool {
	switch n := v.(type) {
	case valueInt:
		return int64(n) == want
	case valueFloat:
		return float64(n) == float64(want)
	}
	return false
}

func vC01IsNaNValue(v Value) bool {
	f, ok := v.(valueFloat)
	return ok && float64(f) != float64(f)
}

func H_C01_strIntArgs() {
	r := vRuntime()
	x := vC01NewStr("s", vBound("U"))
	l := int64(len(x.units))
	lo, hi := vBound("MLO"), vBound("MHI")
	m := lo + vChoice("method", hi-lo+1)
	a0 := vC01NewArg("a0", m != 3 && m != 4 && m != 5 && m != 6)
	var res Value
	switch m {
	case 0: // substring(start, end)
		a1 := vC01NewArg("a1", true)
		p := vC01Guard(func() {
			res = r.stringproto_substring(FunctionCall{This: x.val, Arguments: []Value{a0.v, a1.v}})
		})
		vAssert("substring:no-go-panic", !p)
		if p {
			return
		}
		w := refC01Substring(l, a0.i, a1.i, a1.undef)
		s, isStr := res.(String)
		vAssert("substring:string", isStr)
		vAssert("substring==units[min(clamp(start),clamp(end)) : max(..)]", isStr && vC01IsSub(vC01UnitsOf(s), x.units, w.from, w.to))
	case 1: // slice(start, end)
		a1 := vC01NewArg("a1", true)
		p := vC01Guard(func() {
			res = r.stringproto_slice(FunctionCall{This: x.val, Arguments: []Value{a0.v, a1.v}})
		})
		vAssert("slice:no-go-panic", !p)
		if p {
			return
		}
		w := refC01Slice(l, a0.i, a1.i, a1.undef)
		s, isStr := res.(String)
		vAssert("slice:string", isStr)
		vAssert("slice==units[rel(start):rel(end)]", isStr && vC01IsSub(vC01UnitsOf(s), x.units, w.from, w.to))
	case 2: // substr(start, length)
		a1 := vC01NewArg("a1", true)
		p := vC01Guard(func() {
			res = r.stringproto_substr(FunctionCall{This: x.val, Arguments: []Value{a0.v, a1.v}})
		})
		vAssert("substr:no-go-panic", !p)
		if p {
			return
		}
		w := refC01Substr(l, a0.i, a1.i, a1.undef)
		s, isStr := res.(String)
		vAssert("substr:string", isStr)
		vAssert("substr==units[rel(start):min(start+clamp(length),len)]", isStr && vC01IsSub(vC01UnitsOf(s), x.units, w.from, w.to))
	case 3: // at(index)
		p := vC01Guard(func() { res = r.stringproto_at(FunctionCall{This: x.val, Arguments: []Value{a0.v}}) })
		vAssert("at:no-go-panic", !p)
		if p {
			return
		}
		k := refC01At(l, a0.i)
		if k < 0 {
			vAssert("at:out-of-range=>undefined", res == _undefined)
		} else {
			s, isStr := res.(String)
			vAssert("at==unit[k]", isStr && vC01IsSub(vC01UnitsOf(s), x.units, k, k+1))
		}
	case 4: // charAt(pos)
		p := vC01Guard(func() { res = r.stringproto_charAt(FunctionCall{This: x.val, Arguments: []Value{a0.v}}) })
		vAssert("charAt:no-go-panic", !p)
		if p {
			return
		}
		k := refC01Pos(l, a0.i)
		s, isStr := res.(String)
		vAssert("charAt:string", isStr)
		if !isStr {
			return
		}
		if k < 0 {
			vAssert("charAt:out-of-range=>empty", s.Length() == 0)
		} else {
			vAssert("charAt==unit[pos]", vC01IsSub(vC01UnitsOf(s), x.units, k, k+1))
		}
	case 5: // charCodeAt(pos)
		p := vC01Guard(func() { res = r.stringproto_charCodeAt(FunctionCall{This: x.val, Arguments: []Value{a0.v}}) })
		vAssert("charCodeAt:no-go-panic", !p)
		if p {
			return
		}
		k := refC01Pos(l, a0.i)
		if k < 0 {
			vAssert("charCodeAt:out-of-range=>NaN", vC01IsNaNValue(res))
		} else {
			vAssert("charCodeAt==unit[pos]", vC01NumberIs(res, int64(vC01UnitAt(x.units, k))))
		}
	case 6: // codePointAt(pos)
		p := vC01Guard(func() { res = r.stringproto_codePointAt(FunctionCall{This: x.val, Arguments: []Value{a0.v}}) })
		vAssert("codePointAt:no-go-panic", !p)
		if p {
			return
		}
		k := refC01Pos(l, a0.i)
		if k < 0 {
			vAssert("codePointAt:out-of-range=>undefined", res == _undefined)
		} else {
			want := refC01CodePoint(vC01UnitAt(x.units, k), vC01UnitAt(x.units, k+1), k+1 < l)
			vAssert("codePointAt==CodePointAt(S,pos)", vC01NumberIs(res, want))
		}
	}
}
