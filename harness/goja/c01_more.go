package goja

import (
	"math"
	"strings"

	"github.com/dop251/goja/unistring"
)

// =====================================================================
// C01 (third wave) — more kernels where a Go runtime panic (index/slice out of range, makeslice, negative
// Grow, nil dereference, bad type assertion) depends on rare integers. Every harness asserts BOTH
// "no Go panic escapes" (vC01Guard / the implicit no-escaping-panic obligation) and the result the
// specification prescribes, so that a "fix" of a panic that returns garbage is caught as well.

// ---------------------------------------------------------------------
// H01.7 — String.prototype methods with integer arguments, EVERY Number argument (or undefined), receivers of
// 0..U code units in both internal representations (asciiString, unicodeString).
// References written from ECMA-262 22.1.3 (at 22.1.3.1, charAt .2, charCodeAt .3, codePointAt .4,
// padEnd/padStart .16/.17 + StringPad 22.1.3.17.1, slice .22, substring .25, B.2.2.1 substr).

type vC01Str3 struct {
	units []uint16
	val   String
}

// vC01NewStr: a receiver string with a concrete shape (representation, length) and symbolic content
func vC01NewStr(name string, maxU int) *vC01Str3 {
	shape := 0 // 0..maxU: ascii of that length; maxU+1..2maxU: unicode of length 1..maxU
	if vBound("SH") == 0 {
		shape = []int{0, maxU, 2 * maxU}[vChoice(name+".shape", 3)] // reduced: empty, ascii maxU, unicode maxU
	} else {
		shape = vChoice(name+".shape", 2*maxU+1)
	}
	x := &vC01Str3{}
	if shape <= maxU {
		n := shape
		s := vNondetString(name+".a", n)
		x.units = make([]uint16, n)
		for i := 0; i < n; i++ {
			vAssume(s[i] < 0x80)
			x.units[i] = uint16(s[i])
		}
		x.val = asciiString(s)
		return x
	}
	n := shape - maxU
	x.units = vNondetUint16s(name+".u", n)
	vAssume(vC06HasNonASCII(x.units))
	buf := make([]uint16, n+1)
	buf[0] = unistring.BOM
	copy(buf[1:], x.units)
	x.val = unicodeString(buf)
	return x
}

// vC01UnitsOf: the code units of a result String whatever its representation
func vC01UnitsOf(s String) []uint16 {
	n := s.Length()
	u := make([]uint16, n)
	for i := 0; i < n; i++ {
		u[i] = s.CharAt(i)
	}
	return u
}

// vC01IsSub: got has exactly the units units[from:to] (from/to may be symbolic, len(got) is concrete). Branch-free.
func vC01IsSub(got []uint16, units []uint16, from, to int64) bool {
	ok := int64(len(got)) == to-from
	if from < 0 {
		ok = false
	}
	if to > int64(len(units)) {
		ok = false
	}
	for i := range got {
		if got[i] != vC01UnitAt(units, from+int64(i)) {
			ok = false
		}
	}
	return ok
}

// vC01Arg: an argument that is either absent (undefined) or a value whose ToIntegerOrInfinity (clamped to int64 as
// goja's ToInteger documents) is an ARBITRARY int64 (vC17Arg: every int64 is the ToInteger of some Number up to
// float granularity; the Number -> integer conversion itself is decided by C05)
type vC01Arg struct {
	undef bool
	v     Value
	i     int64
}

func vC01NewArg(name string, mayBeUndefined bool) vC01Arg {
	if mayBeUndefined && vChoice(name+".undefined", 2) == 1 {
		return vC01Arg{undef: true, v: _undefined, i: 0}
	}
	a := vC17IntArg(name, nil)
	return vC01Arg{v: a, i: a.i}
}

type refC01Range struct{ from, to int64 }

// 22.1.3.25 substring
func refC01Substring(l, s, e int64, eUndef bool) refC01Range {
	if eUndef {
		e = l
	}
	fs := min(max(s, 0), l)
	fe := min(max(e, 0), l)
	return refC01Range{min(fs, fe), max(fs, fe)}
}

// 22.1.3.22 slice
func refC01Slice(l, s, e int64, eUndef bool) refC01Range {
	if eUndef {
		e = l
	}
	var from, to int64
	if s < 0 {
		// l + s cannot wrap: l <= 2^31, s >= -2^63
		from = max(l+s, 0)
	} else {
		from = min(s, l)
	}
	if e < 0 {
		to = max(l+e, 0)
	} else {
		to = min(e, l)
	}
	if from >= to {
		return refC01Range{0, 0}
	}
	return refC01Range{from, to}
}

// B.2.2.1 substr
func refC01Substr(l, s, n int64, nUndef bool) refC01Range {
	var st int64
	if s < 0 {
		st = max(l+s, 0)
	} else {
		st = min(s, l)
	}
	ln := l
	if !nUndef {
		ln = min(max(n, 0), l)
	}
	end := min(st+ln, l)
	if st >= end {
		return refC01Range{0, 0}
	}
	return refC01Range{st, end}
}

// 22.1.3.1 at: the index of the unit or -1
func refC01At(l, rel int64) int64 {
	k := rel
	if rel < 0 {
		k = l + rel
	}
	if k < 0 || k >= l {
		return -1
	}
	return k
}

// charAt/charCodeAt/codePointAt position: index or -1
func refC01Pos(l, p int64) int64 {
	if p < 0 || p >= l {
		return -1
	}
	return p
}

func vC01UnitAt(units []uint16, k int64) uint16 {
	var w uint16
	if k >= 0 && k < int64(len(units)) {
		w = units[k]
	}
	return w
}

// refC01CodePoint: 11.1.4 CodePointAt on (first, second, hasSecond)
func refC01CodePoint(first, second uint16, hasSecond bool) int64 {
	if first >= 0xD800 && first <= 0xDBFF && hasSecond && second >= 0xDC00 && second <= 0xDFFF {
		return (int64(first)-0xD800)*0x400 + (int64(second) - 0xDC00) + 0x10000
	}
	return int64(first)
}

func vC01NumberIs(v Value, want int64) bool {
	switch n := v.(type) {
	case valueInt:
		return int64(n) == want
	case valueFloat:
		return float64(n) == float64(want)
	}
	return false
}

func vC01IsNaNValue(v Value) bool {
	f, ok := v.(valueFloat)
	return ok && float64(f) != float64(f)
}

// substring / slice / substr (bound M selects the method: one harness id per method)
func H_C01_strRange() {
	r := vRuntime()
	x := vC01NewStr("s", vBound("U"))
	l := int64(len(x.units))
	m := vBound("M")
	a0 := vC01NewArg("a0", false)
	a1 := vC01NewArg("a1", true)
	call := FunctionCall{This: x.val, Arguments: []Value{a0.v, a1.v}}
	var res Value
	var w refC01Range
	p := vC01Guard(func() {
		switch m {
		case 0:
			res = r.stringproto_substring(call)
		case 1:
			res = r.stringproto_slice(call)
		default:
			res = r.stringproto_substr(call)
		}
	})
	switch m {
	case 0:
		w = refC01Substring(l, a0.i, a1.i, a1.undef)
	case 1:
		w = refC01Slice(l, a0.i, a1.i, a1.undef)
	default:
		w = refC01Substr(l, a0.i, a1.i, a1.undef)
	}
	vAssert("range:no-go-panic", !p)
	if p {
		return
	}
	s, isStr := res.(String)
	vAssert("range:result-is-string", isStr)
	if !isStr {
		return
	}
	vAssert("range:result==units-selected-by-the-specification", vC01IsSub(vC01UnitsOf(s), x.units, w.from, w.to))
}

// at / charAt / charCodeAt / codePointAt (bound M selects the method)
func H_C01_strPos() {
	r := vRuntime()
	x := vC01NewStr("s", vBound("U"))
	l := int64(len(x.units))
	m := vBound("M")
	a0 := vC01NewArg("a0", false)
	call := FunctionCall{This: x.val, Arguments: []Value{a0.v}}
	var res Value
	p := vC01Guard(func() {
		switch m {
		case 0:
			res = r.stringproto_at(call)
		case 1:
			res = r.stringproto_charAt(call)
		case 2:
			res = r.stringproto_charCodeAt(call)
		default:
			res = r.stringproto_codePointAt(call)
		}
	})
	vAssert("pos:no-go-panic", !p)
	if p {
		return
	}
	k := refC01Pos(l, a0.i)
	if m == 0 {
		k = refC01At(l, a0.i)
	}
	if k < 0 {
		good := false
		switch m {
		case 0, 3:
			good = res == _undefined
		case 1:
			s, isStr := res.(String)
			good = isStr && s.Length() == 0
		default:
			good = vC01IsNaNValue(res)
		}
		vAssert("pos:outside=>undefined/empty/NaN", good)
		return
	}
	good := false
	switch m {
	case 0, 1:
		s, isStr := res.(String)
		good = isStr && vC01IsSub(vC01UnitsOf(s), x.units, k, k+1)
	case 2:
		good = vC01NumberIs(res, int64(vC01UnitAt(x.units, k)))
	default:
		good = vC01NumberIs(res, refC01CodePoint(vC01UnitAt(x.units, k), vC01UnitAt(x.units, k+1), k+1 < l))
	}
	vAssert("pos:inside=>the-unit/its-code/the-code-point", good)
}

const vC01MaxInt32 = math.MaxInt32

// ---------------------------------------------------------------------
// H01.7 padStart / padEnd (22.1.3.16/.17, StringPad 22.1.3.17.1): maxLength is EVERY int64-valued argument in
// three bands (<= len symbolic; len+1..len+P concrete; > 2^31-1 symbolic); the band in between allocates up to
// 2 GiB and is outside. goja's documented limit: a result longer than 2^31-1 units is RangeError("Invalid
// string length") — the size handed to Grow / make is then never negative, wrapped or beyond Go's limit.

// symbolic-mode stand-in for strings.Builder.Grow that keeps its documented panics (negative count; makeslice
// beyond the allocation limit) and otherwise does nothing (capacity is unobservable)
func vC01StubGrowKeep(b *strings.Builder, n int) {
	if n < 0 {
		panic("strings.Builder.Grow: negative count")
	}
	if n >= 1<<40 {
		panic("runtime error: makeslice: len out of range")
	}
}

func vC01Filler(name string) (v Value, units []uint16, undef bool) {
	switch vChoice(name+".kind", 6) {
	case 0:
		return _undefined, []uint16{' '}, true
	case 1:
		return stringEmpty, []uint16{}, false
	case 2, 3:
		n := vChoice(name+".alen", 2) + 1
		s := vNondetString(name+".a", n)
		units = make([]uint16, n)
		for i := 0; i < n; i++ {
			vAssume(s[i] < 0x80)
			units[i] = uint16(s[i])
		}
		return asciiString(s), units, false
	}
	n := vChoice(name+".ulen", 2) + 1
	units = vNondetUint16s(name+".u", n)
	vAssume(vC06HasNonASCII(units))
	buf := make([]uint16, n+1)
	buf[0] = unistring.BOM
	copy(buf[1:], units)
	return unicodeString(buf), units, false
}

func H_C01_strPad() {
	r := vRuntime()
	x := vC01NewStr("s", vBound("U"))
	l := int64(len(x.units))
	atStart := vBound("M") == 0
	fv, fu, _ := vC01Filler("fill")
	band := vChoice("band", 3)
	var ml int64
	switch band {
	case 0:
		ml = vNondetInt64("maxLength")
		vAssume(ml <= l)
	case 1:
		ml = l + 1 + int64(vChoice("extra", vBound("P")))
	default:
		ml = vNondetInt64("maxLength")
		vAssume(ml > math.MaxInt32)
	}
	fired := 0
	arg := &vC17Arg{i: ml, fired: &fired}
	call := FunctionCall{This: x.val, Arguments: []Value{arg, fv}}
	var res Value
	var out vOutcome
	p := vC01Guard(func() {
		out = vCatch(func() {
			if atStart {
				res = r.stringproto_padStart(call)
			} else {
				res = r.stringproto_padEnd(call)
			}
		})
	})
	vAssert("pad:no-go-panic", !p)
	if p {
		return
	}
	if band == 0 || len(fu) == 0 {
		s, isStr := res.(String)
		vAssert("pad:maxLength<=len-or-empty-filler=>receiver-unchanged", !out.panicked && isStr && vC01IsSub(vC01UnitsOf(s), x.units, 0, l))
		return
	}
	if band == 2 {
		vAssert("pad:beyond-2^31-1-units=>RangeError", out.panicked && out.kind == "RangeError")
		return
	}
	s, isStr := res.(String)
	vAssert("pad:no-throw", !out.panicked && isStr)
	if out.panicked || !isStr {
		return
	}
	got := vC01UnitsOf(s)
	n := int(ml - l) // concrete
	ok := len(got) == int(ml)
	for i := 0; ok && i < len(got); i++ {
		var w uint16
		if atStart {
			if i < n {
				w = fu[i%len(fu)]
			} else {
				w = x.units[i-n]
			}
		} else {
			if i < int(l) {
				w = x.units[i]
			} else {
				w = fu[(i-int(l))%len(fu)]
			}
		}
		if got[i] != w {
			ok = false
		}
	}
	vAssert("pad:result==filler-repeated-and-truncated+receiver", ok)
}

// ---------------------------------------------------------------------
// H01.5 — array creation and length. ECMA-262 23.1.1.1 Array(len): a Number len that is not an integer in
// [0, 2^32-1] is a RangeError, otherwise an array of that length (no element storage is needed: goja must not
// size an allocation by it); 10.4.2.4 ArraySetLength: newLen = ToUint32(V), numberLen = ToNumber(V), RangeError
// unless they are the same value (+0/-0 alike), then elements >= newLen disappear.

// refC01Uint32Of: the double is an integer in [0, 2^32-1] (-0 counts as 0); its value
type refC01U32 struct {
	ok bool
	n  uint32
}

func refC01Uint32Of(bits uint64) refC01U32 {
	if bits == 1<<63 || bits == 0 {
		return refC01U32{true, 0}
	}
	if bits>>63 != 0 {
		return refC01U32{}
	}
	exp := int((bits >> 52) & 0x7ff)
	man := bits&(1<<52-1) | 1<<52
	e := exp - 1075 // value = man * 2^e, man in [2^52, 2^53)
	if exp == 0 || e > -21 || e < -52 {
		// subnormal / >= 2^32 (2^52 * 2^-20) / < 1
		return refC01U32{}
	}
	sh := uint(-e)
	if man&(1<<sh-1) != 0 {
		return refC01U32{} // fraction
	}
	return refC01U32{true, uint32(man >> sh)}
}

var vC01LenStrings = []struct {
	s  string
	ok bool
	n  uint32
}{
	{"", true, 0}, {"3", true, 3}, {"4294967295", true, 4294967295}, {"4294967296", false, 0}, {"-1", false, 0},
	{"1.5", false, 0}, {"1e1", true, 10}, {"abc", false, 0}, {" 2 ", true, 2}, {"0x2", true, 2}, {"-0", true, 0},
}

func H_C01_newArray() {
	r := vRuntime()
	kind := vChoice("args", 3)
	var args []Value
	var want refC01U32
	switch kind {
	case 0:
		n := vNumber("len")
		args = []Value{n}
		want = refC01Uint32Of(vNumberBits(n))
	case 1:
		args = []Value{asciiString("7")} // not a Number: a one-element array
	default:
		args = []Value{valueInt(int64(vNondetInt32("e0"))), valueInt(int64(vNondetInt32("e1")))}
	}
	var res *Object
	var out vOutcome
	p := vC01Guard(func() { out = vCatch(func() { res = r.builtin_newArray(args, nil) }) })
	vAssert("newArray:no-go-panic", !p)
	if p {
		return
	}
	if kind == 0 && !want.ok {
		vAssert("newArray:len-not-uint32=>RangeError", out.panicked && out.kind == "RangeError")
		return
	}
	vAssert("newArray:no-throw", !out.panicked && res != nil)
	if out.panicked || res == nil {
		return
	}
	a, isArr := res.self.(*arrayObject)
	vAssert("newArray:is-array", isArr)
	if !isArr {
		return
	}
	if kind == 0 {
		vAssert("newArray:length==len,no-storage-sized-by-len", a.length == want.n && len(a.values) == 0 && cap(a.values) <= 16 && a.objCount == 0)
	} else {
		good := a.length == uint32(len(args)) && len(a.values) == len(args) && a.objCount == len(args)
		for i := 0; good && i < len(args); i++ {
			if a.values[i] != args[i] {
				good = false
			}
		}
		vAssert("newArray:elements==arguments", good)
	}
}

// Array length assignment / definition with EVERY Number, a numeric-or-not String, or a value that is coerced
// twice (the legacy ToUint32 + ToNumber order), on a dense array of n <= N plain elements
func H_C01_arrayLength() {
	r := vRuntime()
	geo := [][2]int{{0, 0}, {2, 1}, {20, 80}, {5, 0}, {17, 3}, {40, 200}}[vChoice("geometry", vBound("G"))]
	n, spare := geo[0], geo[1]
	a := r.newArray(nil)
	a.values = make([]Value, n, n+spare)
	for i := 0; i < n; i++ {
		a.values[i] = valueInt(int64(100 + i))
	}
	a.objCount = n
	extra := vNondetUint32("extraLength")
	vAssume(extra <= math.MaxUint32-uint32(n))
	a.length = uint32(n) + extra
	var v Value
	var want refC01U32
	kindV := vChoice("value", 3)
	switch kindV {
	case 0:
		v = vNumber("len")
		want = refC01Uint32Of(vNumberBits(v))
	case 1:
		e := vC01LenStrings[vChoice("str", len(vC01LenStrings))]
		v = asciiString(e.s)
		want = refC01U32{e.ok, e.n}
	default:
		x := vNewValue("obj", func() {})
		v = x
		want = refC01Uint32Of(vNumberBits(x.num))
	}
	viaDefine := kindV == 0 && vChoice("via", 2) == 1
	var ret bool
	var out vOutcome
	p := vC01Guard(func() {
		out = vCatch(func() {
			if viaDefine {
				ret = a.defineOwnPropertyStr("length", PropertyDescriptor{Value: v}, true)
			} else {
				ret = a.setOwnStr("length", v, true)
			}
		})
	})
	vAssert("arrayLength:no-go-panic", !p)
	if p {
		return
	}
	if !want.ok {
		good := out.panicked && out.kind == "RangeError" && a.length == uint32(n)+extra && len(a.values) == n
		vAssert("arrayLength:not-uint32=>RangeError,array-untouched", good)
		return
	}
	vAssert("arrayLength:no-throw", !out.panicked && ret)
	if out.panicked {
		return
	}
	keep := n
	if want.n < uint32(n) {
		keep = int(want.n)
	}
	good := a.length == want.n && len(a.values) == keep && a.objCount == keep
	for i := 0; good && i < keep; i++ {
		if a.values[i] != valueInt(int64(100+i)) {
			good = false
		}
	}
	// storage behind len(values) must be cleared (expand() re-slices into it and treats it as holes)
	full := a.values[:cap(a.values)]
	for i := len(a.values); i < len(full); i++ {
		if full[i] != nil {
			good = false
		}
	}
	vAssert("arrayLength:length==newLen,elements>=newLen-gone,spare-storage-cleared", good)
}

// ---------------------------------------------------------------------
// H01.6 — ArrayBuffer / TypedArray(length) size arithmetic. ECMA-262 25.1.4.1 ArrayBuffer(length) and 23.2.5.1
// TypedArray(length): ToIndex(length) is a RangeError unless the integer lies in [0, 2^53-1]; the byte length
// length*elementSize must be computed without wrap-around, and an allocation that cannot be satisfied is a
// RangeError (never a Go makeslice panic); on success the view covers exactly its buffer.

var vC01AllocLog []int

func init() { vResetHooks = append(vResetHooks, func() { vC01AllocLog = nil }) }

// symbolic-mode stand-in for allocByteSlice, by its contract: negative or beyond Go's allocation limit (2^48
// bytes) => rangeError; sizes up to 64 are really allocated; the band in between is excluded by the harness
func vC01StubAllocByteSlice(size int) []byte {
	vC01AllocLog = append(vC01AllocLog, size)
	if size < 0 {
		panic(rangeError("Invalid buffer size"))
	}
	if size > 1<<48 {
		panic(rangeError("Buffer size is too large"))
	}
	vAssume(size <= 64)
	return make([]byte, vConcretize(size))
}

func H_C01_bufferAlloc() {
	r := vRuntime()
	vC17MoreCtors(r)
	kinds := []int{-1, vkUint8, vkInt16, vkFloat32, vkFloat64, vkInt8, vkUint16, vkInt32, vkUint32, vkUint8Clamped}
	kind := kinds[vChoice("kind", vBound("K"))]
	esz := int64(1)
	if kind >= 0 {
		esz = int64(vElemSize(kind))
	}
	arg := vC17IntArg("length", nil)
	i := arg.i
	inIndexRange := i >= 0 && i <= 1<<53-1
	// outside the claim: byte sizes in (64, 2^49) — real allocations up to Go's limit (memory exhaustion is not a panic
	// that could be caught: the process dies)
	if inIndexRange {
		vAssume(i*esz <= 64 || i*esz >= 1<<49)
	}
	nt := vC17NewHookObj(r, func() {})
	var res *Object
	var out vOutcome
	p := vC01Guard(func() {
		out = vCatch(func() {
			if kind < 0 {
				res = r.builtin_newArrayBuffer([]Value{arg}, nt)
			} else {
				res = r._newTypedArray([]Value{arg}, nt, vC17CtorOf(r, kind), nil)
			}
		})
	})
	vAssert("bufferAlloc:no-go-panic", !p)
	if p {
		return
	}
	if !inIndexRange {
		vAssert("bufferAlloc:ToIndex-outside-[0,2^53-1]=>RangeError", out.panicked && out.kind == "RangeError")
		return
	}
	if i*esz > 64 {
		vAssert("bufferAlloc:unsatisfiable-size=>RangeError", out.panicked && out.kind == "RangeError")
		return
	}
	vAssert("bufferAlloc:no-throw", !out.panicked && res != nil)
	if out.panicked || res == nil {
		return
	}
	if kind < 0 {
		ab, isAB := res.self.(*arrayBufferObject)
		vAssert("bufferAlloc:ArrayBuffer-byteLength==length", isAB && !ab.detached && int64(len(ab.data)) == i)
		return
	}
	ta, isTA := res.self.(*typedArrayObject)
	vAssert("bufferAlloc:is-typed-array", isTA)
	if !isTA {
		return
	}
	good := ta.offset == 0 && int64(ta.length) == i && int64(ta.elemSize) == esz && ta.viewedArrayBuf != nil &&
		int64(len(ta.viewedArrayBuf.data)) == i*esz
	vAssert("bufferAlloc:view-covers-exactly-its-buffer(length*elemSize bytes)", good)
}

// allocByteSlice itself on sizes that never allocate more than a few bytes or are beyond Go's limit
func H_C01_allocByteSlice() {
	sizes := []int{-1, math.MinInt64, 0, 1, 9, 1<<48 + 1, 1 << 62, math.MaxInt64}
	size := sizes[vChoice("size", len(sizes))]
	var b []byte
	var out vOutcome
	p := vC01Guard(func() { out = vCatch(func() { b = allocByteSlice(size) }) })
	vAssert("allocByteSlice:no-go-panic", !p)
	if p {
		return
	}
	if size < 0 || size > 9 {
		vAssert("allocByteSlice:negative-or-unsatisfiable=>RangeError", out.panicked && out.kind == "RangeError")
		return
	}
	good := !out.panicked && len(b) == size
	for _, c := range b {
		if c != 0 {
			good = false
		}
	}
	vAssert("allocByteSlice:zeroed-slice-of-size", good)
}

// ---------------------------------------------------------------------
// H01.8 — VM instructions that address the operand stack with computed offsets, on a hand-built stack AT ITS
// HIGH-WATER MARK (len(stack) == sp, spare capacity 0/1/8 holding stale non-nil values): every slot the
// instruction touches must have been reserved through valueStack.expand first (otherwise a Go index-out-of-range
// panic in the host), the slots it does not own stay untouched, new locals are empty (nil) and missing
// parameters undefined (ECMA-262 10.2.11 FunctionDeclarationInstantiation).
// Assumed operand invariants (what the compiler emits): dupN/rdupN d <= sp-1; dupLast d <= sp; endVariadic
// sp >= 2; a variadic marker is on the stack when callVariadic/newVariadic count their arguments; enterCatchBlock
// stashSize >= 1; enterFunc1 argsToCopy <= numArgs <= stashSize; vm.args + 2 <= sp at function entry.

func vC01NewStack(sp, spare int) *vm {
	m := &vm{r: vRuntime()}
	full := make(valueStack, sp+spare)
	for i := range full {
		full[i] = valueInt(int64(5000 + i)) // stale values beyond sp: must never be taken for fresh locals
	}
	m.stack = full[:sp]
	m.sp = sp
	return m
}

// vC01StackKept: slots [0,upto) still hold their original markers, except slot `except`
func vC01StackKept(m *vm, upto, except int) bool {
	ok := upto <= len(m.stack)
	for i := 0; ok && i < upto; i++ {
		if i != except && m.stack[i] != valueInt(int64(5000+i)) {
			ok = false
		}
	}
	return ok
}

func vC01AllNil(vs []Value) bool {
	for _, v := range vs {
		if v != nil {
			return false
		}
	}
	return true
}

func vC01AllUndef(vs []Value) bool {
	for _, v := range vs {
		if v != _undefined {
			return false
		}
	}
	return true
}

func H_C01_stackOps() {
	S := vBound("S")
	sp := vChoice("sp", S+1)
	spare := []int{0, 1, 8}[vChoice("spare", 3)]
	m := vC01NewStack(sp, spare)
	op := vBound("OPLO") + vChoice("op", vBound("OPHI")-vBound("OPLO")+1)
	switch op {
	case 0: // dupN
		vAssume(sp >= 1)
		d := vChoice("d", sp)
		p := vC01Guard(func() { dupN(d).exec(m) })
		vAssert("stackOps:no-go-panic", !p)
		if p {
			return
		}
		vAssert("stackOps:effect", m.sp == sp+1 && m.sp <= len(m.stack) && vC01StackKept(m, sp, -1) && m.stack[sp] == valueInt(int64(5000+sp-1-d)) && m.pc == 1)
	case 1: // rdupN
		vAssume(sp >= 1)
		d := vChoice("d", sp)
		p := vC01Guard(func() { rdupN(d).exec(m) })
		vAssert("stackOps:no-go-panic", !p)
		if p {
			return
		}
		vAssert("stackOps:effect", m.sp == sp && vC01StackKept(m, sp, sp-1-d) && m.stack[sp-1-d] == valueInt(int64(5000+sp-1)) && m.pc == 1)
	case 2: // dupLast
		d := vChoice("d", sp+1)
		p := vC01Guard(func() { dupLast(d).exec(m) })
		vAssert("stackOps:no-go-panic", !p)
		if p {
			return
		}
		good := m.sp == sp+d && m.sp <= len(m.stack) && vC01StackKept(m, sp, -1) && m.pc == 1
		for i := 0; good && i < d; i++ {
			if m.stack[sp+i] != valueInt(int64(5000+sp-d+i)) {
				good = false
			}
		}
		vAssert("stackOps:effect", good)
	case 3: // startVariadic ... endVariadic / countVariadicArgs
		vAssume(sp >= 2)
		mk := vChoice("marker", sp-1) // position of the marker, at least one value (the call result / callee) above it
		m.stack[mk] = variadicMarker
		cnt := -1
		p := vC01Guard(func() { cnt = m.countVariadicArgs() })
		vAssert("stackOps:no-go-panic", !p)
		if p {
			return
		}
		ok := cnt == sp-1-mk
		// after the call the result sits directly above the marker: endVariadic drops the marker
		m.sp = mk + 2
		p = vC01Guard(func() { endVariadic.exec(m) })
		vAssert("stackOps:no-go-panic", !p)
		if p {
			return
		}
		vAssert("stackOps:effect", ok && m.sp == mk+1 && m.stack[mk] == valueInt(int64(5000+mk+1)) && vC01StackKept(m, mk, -1))
	case 4: // startVariadic pushes on a full stack
		p := vC01Guard(func() { startVariadic.exec(m) })
		vAssert("stackOps:no-go-panic", !p)
		if p {
			return
		}
		vAssert("stackOps:effect", m.sp == sp+1 && m.sp <= len(m.stack) && m.stack[sp] == variadicMarker && vC01StackKept(m, sp, -1))
	case 5: // enterBlock / enterCatchBlock
		ss := vChoice("stackSize", vBound("L")+1)
		st := vChoice("stashSize", 3)
		catch := vChoice("catch", 2) == 1
		if catch {
			vAssume(st >= 1 && sp >= 1)
		}
		outer := &stash{}
		m.stash = outer
		p := vC01Guard(func() {
			if catch {
				(&enterCatchBlock{stashSize: uint32(st), stackSize: uint32(ss)}).exec(m)
			} else {
				(&enterBlock{stashSize: uint32(st), stackSize: uint32(ss)}).exec(m)
			}
		})
		vAssert("stackOps:no-go-panic", !p)
		if p {
			return
		}
		base := sp
		if catch {
			base = sp - 1
		}
		good := m.sp == base+ss && m.sp <= len(m.stack) && vC01StackKept(m, base, -1) && vC01AllNil(m.stack[base:m.sp]) && m.pc == 1
		if st > 0 {
			good = good && m.stash != outer && m.stash.outer == outer && len(m.stash.values) == st
			if catch {
				good = good && m.stash.values[0] == valueInt(int64(5000+sp-1)) && vC01AllNil(m.stash.values[1:])
			} else {
				good = good && vC01AllNil(m.stash.values)
			}
		} else {
			good = good && m.stash == outer
		}
		vAssert("stackOps:effect", good)
	case 6: // enterFuncStashless
		vAssume(sp >= 2)
		args := vChoice("args", sp-1)
		m.args = args
		ss := vChoice("stackSize", vBound("L")+1)
		decl := vChoice("declared", vBound("P")+1)
		p := vC01Guard(func() { (&enterFuncStashless{stackSize: uint32(ss), args: uint32(decl)}).exec(m) })
		vAssert("stackOps:no-go-panic", !p)
		if p {
			return
		}
		na := max(args, decl)
		good := m.sb == sp-args-1 && m.args == na && m.sp == sp+(na-args)+ss && m.sp <= len(m.stack) &&
			vC01StackKept(m, sp, -1) && vC01AllUndef(m.stack[sp:sp+na-args]) && vC01AllNil(m.stack[sp+na-args:m.sp]) && m.pc == 1
		vAssert("stackOps:effect", good)
	case 7: // enterFunc1 followed by enterFuncBody{adjustStack}
		vAssume(sp >= 2)
		args := vChoice("args", sp-1)
		m.args = args
		decl := vChoice("declared", vBound("P")+1)
		toCopy := vChoice("argsToCopy", decl+1)
		stSize := decl + vChoice("stashExtra", 2)
		ss := vChoice("stackSize", vBound("L")+1)
		outer := &stash{}
		m.stash = outer
		p := vC01Guard(func() {
			(&enterFunc1{stashSize: uint32(stSize), numArgs: uint32(decl), argsToCopy: uint32(toCopy)}).exec(m)
		})
		vAssert("stackOps:no-go-panic", !p)
		if p {
			return
		}
		st := m.stash
		good := m.sb == sp-args-1 && m.sp == sp && vC01StackKept(m, sp, -1) && st != outer && st.outer == outer && len(st.values) == stSize
		for i := 0; good && i < stSize; i++ {
			var want Value
			if i < toCopy {
				want = _undefined
				if i < args {
					want = valueInt(int64(5000 + sp - args + i))
				}
			}
			if st.values[i] != want {
				good = false
			}
		}
		extra := max(args-decl, 0)
		if args > toCopy {
			good = good && len(st.extraArgs) == extra
			for i := 0; good && i < extra; i++ {
				if st.extraArgs[i] != valueInt(int64(5000+sp-extra+i)) {
					good = false
				}
			}
		}
		vAssert("stackOps:enterFunc1-effect", good)
		body := &enterFuncBody{adjustStack: true}
		body.stackSize = uint32(ss)
		p = vC01Guard(func() { body.exec(m) })
		vAssert("stackOps:no-go-panic", !p)
		if p {
			return
		}
		base := sp - args
		vAssert("stackOps:effect", m.sp == base+ss && m.sp <= len(m.stack) && vC01StackKept(m, base, -1) && vC01AllNil(m.stack[base:m.sp]))
	}
}
