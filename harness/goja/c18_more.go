package goja

import (
	"hash/maphash"
)

// C18 (third wave) — the built-in wrappers over orderedMap: Map.prototype.* / Set.prototype.* (builtin_map.go,
// builtin_set.go) called the way the VM calls them (FunctionCall), forEach with mutating callbacks, the
// iterator objects, and the symbol-property table of baseObject (object.go symValues), which shares orderedMap.
// Reference: ECMA-262 24.1.3 / 24.2.3 ([[MapData]] = append-only list whose entries become "empty"),
// 24.1.5.1 CreateMapIterator, 10.1.11.1 OrdinaryOwnPropertyKeys (symbols in creation order).

// ---------------------------------------------------------------------
// environment

// maphash in symbolic mode: one CONCRETE deterministic function of the bytes written (FNV-1a). Collisions are the
// subject of H18.1.chain; here string keys only need "equal strings => equal hash".
var vC18mHashBuf []byte

func vStubC18mHashWriteString(h *maphash.Hash, s string) (int, error) {
	vC18mHashBuf = append(vC18mHashBuf, s...)
	return len(s), nil
}
func vStubC18mHashSum64(h *maphash.Hash) uint64 {
	acc := uint64(14695981039346656037)
	for _, b := range vC18mHashBuf {
		acc ^= uint64(b)
		acc *= 1099511628211
	}
	return acc
}
func vStubC18mHashReset(h *maphash.Hash) { vC18mHashBuf = vC18mHashBuf[:0] }

func vC18mReset() { vC18mHashBuf = nil }

func init() { vResetHooks = append(vResetHooks, vC18mReset) }

// a callable object around a Go closure: natively a real native function, symbolically a bare nativeFuncObject
func vC18mFunc(r *Runtime, fn func(FunctionCall) Value) *Object {
	if !vSymbolic() {
		return r.newNativeFunc(fn, "f", 0)
	}
	f := &nativeFuncObject{}
	f.class = classFunction
	f.val = &Object{runtime: r}
	f.val.self = f
	f.extensible = true
	f.init("f", valueInt(0))
	f.f = fn
	return f.val
}

// Map / Set objects built the way builtin_newMap / builtin_newSet build them (prototype: the real one natively,
// none symbolically — the wrappers never consult it)
func vC18mNewMap(r *Runtime) (*Object, *mapObject) {
	o := &Object{runtime: r}
	mo := &mapObject{}
	mo.class = classObject
	mo.val = o
	mo.extensible = true
	o.self = mo
	if !vSymbolic() {
		mo.prototype = r.getMapPrototype()
	}
	mo.init()
	return o, mo
}

func vC18mNewSet(r *Runtime) (*Object, *setObject) {
	o := &Object{runtime: r}
	so := &setObject{}
	so.class = classObject
	so.val = o
	so.extensible = true
	o.self = so
	if !vSymbolic() {
		so.prototype = r.getSetPrototype()
	}
	so.init()
	return o, so
}

// ---------------------------------------------------------------------
// key pools: 4 keys per variant with their SameValueZero classes

type vC18mPool struct {
	keys []Value
	cls  []int
	want []Value
	// omit[i]: the key is passed by OMITTING the argument (call.Argument(0) of an empty list is undefined)
	omit []bool
}

func vC18mMakePool(r *Runtime, variant int) vC18mPool {
	switch variant {
	case 0: // Numbers: -0, +0, NaN, an arbitrary non-integral double
		f := vNondetFloat64("key.f")
		bits := vFloat64bits(f)
		vAssume(!refIsIntegralInSafeRange(bits))
		vAssume(f == f && bits != 1<<63)
		return vC18mPool{
			keys: []Value{_negativeZero, valueInt(0), _NaN, valueFloat(f)},
			cls:  []int{0, 0, 2, 3},
			want: []Value{valueInt(0), valueInt(0), _NaN, valueFloat(f)},
			omit: []bool{false, false, false, false},
		}
	case 1: // identity kinds: two objects, a symbol, undefined given by omission
		a := r.NewObject()
		b := r.NewObject()
		s := &Symbol{desc: asciiString("s")}
		return vC18mPool{
			keys: []Value{a, b, s, _undefined},
			cls:  []int{0, 1, 2, 3},
			want: []Value{a, b, s, _undefined},
			omit: []bool{false, false, false, true},
		}
	case 2: // equal strings in two representations, a boolean, null
		s1 := asciiString("ab")
		s2 := &importedString{s: "ab"}
		return vC18mPool{
			keys: []Value{s1, s2, valueTrue, _null},
			cls:  []int{0, 0, 2, 3},
			want: []Value{s1, s2, valueTrue, _null},
			omit: []bool{false, false, false, false},
		}
	}
	// non-ASCII string in two representations, an ASCII look-alike, explicit undefined
	u1 := unicodeString{0xFEFF, 0xE9}
	u2 := &importedString{s: "é"}
	return vC18mPool{
		keys: []Value{u1, u2, asciiString("e"), _undefined},
		cls:  []int{0, 0, 2, 3},
		want: []Value{u1, u2, asciiString("e"), _undefined},
		omit: []bool{false, false, false, false},
	}
}

// a stored string key may be either representation of the same string: compare by value for strings
func vC18mKeyMatches(got Value, want Value) bool {
	if ws, ok := want.(String); ok {
		gs, ok := got.(String)
		return ok && gs.SameAs(ws)
	}
	return vC18KeyMatches(got, want)
}

func vC18mArgs(p *vC18mPool, ki int, rest ...Value) []Value {
	if p.omit[ki] && len(rest) == 0 {
		return nil
	}
	return append([]Value{p.keys[ki]}, rest...)
}

// ---------------------------------------------------------------------
// H18.4.wrapMap / wrapSet: histories through the prototype methods

type vC18mWorld struct {
	r     *Runtime
	p     vC18mPool
	isSet bool
	obj   *Object
	m     *orderedMap
	// reference [[MapData]] / [[SetData]]
	rCls  []int
	rKey  []int
	rVal  []int64
	rLive []bool
	nval  int64
}

func (w *vC18mWorld) refFind(c int) int {
	for i := range w.rCls {
		if w.rLive[i] && w.rCls[i] == c {
			return i
		}
	}
	return -1
}

func (w *vC18mWorld) refSize() int {
	n := 0
	for _, l := range w.rLive {
		if l {
			n++
		}
	}
	return n
}

func (w *vC18mWorld) call(f func(FunctionCall) Value, args []Value) Value {
	return f(FunctionCall{This: w.obj, Arguments: args})
}

func (w *vC18mWorld) doSet(ki int) {
	w.nval++
	var ret Value
	if w.isSet {
		ret = w.call(w.r.setProto_add, vC18mArgs(&w.p, ki))
	} else {
		ret = w.call(w.r.mapProto_set, []Value{w.p.keys[ki], valueInt(w.nval)})
	}
	vAssert("wrap:set-returns-this", ret == Value(w.obj))
	if s := w.refFind(w.p.cls[ki]); s >= 0 {
		w.rVal[s] = w.nval
	} else {
		w.rCls = append(w.rCls, w.p.cls[ki])
		w.rKey = append(w.rKey, ki)
		w.rVal = append(w.rVal, w.nval)
		w.rLive = append(w.rLive, true)
	}
}

func (w *vC18mWorld) doDelete(ki int) {
	var ret Value
	if w.isSet {
		ret = w.call(w.r.setProto_delete, vC18mArgs(&w.p, ki))
	} else {
		ret = w.call(w.r.mapProto_delete, vC18mArgs(&w.p, ki))
	}
	s := w.refFind(w.p.cls[ki])
	if s >= 0 {
		w.rLive[s] = false
	}
	b, isBool := ret.(valueBool)
	vAssert("wrap:delete-result", isBool && bool(b) == (s >= 0))
}

func (w *vC18mWorld) doClear() {
	var ret Value
	if w.isSet {
		ret = w.call(w.r.setProto_clear, nil)
	} else {
		ret = w.call(w.r.mapProto_clear, nil)
	}
	vAssert("wrap:clear-returns-undefined", ret == _undefined)
	for i := range w.rLive {
		w.rLive[i] = false
	}
}

// observe through the wrappers, then walk the storage in order
func (w *vC18mWorld) observe() {
	var sz Value
	if w.isSet {
		sz = w.call(w.r.setProto_getSize, nil)
	} else {
		sz = w.call(w.r.mapProto_getSize, nil)
	}
	si, isInt := sz.(valueInt)
	vAssert("wrap:size==live-entries", isInt && int(si) == w.refSize())
	for ki := range w.p.keys {
		s := w.refFind(w.p.cls[ki])
		var has Value
		if w.isSet {
			has = w.call(w.r.setProto_has, vC18mArgs(&w.p, ki))
		} else {
			has = w.call(w.r.mapProto_has, vC18mArgs(&w.p, ki))
		}
		hb, isBool := has.(valueBool)
		vAssert("wrap:has", isBool && bool(hb) == (s >= 0))
		if !w.isSet {
			v := w.call(w.r.mapProto_get, vC18mArgs(&w.p, ki))
			if s >= 0 {
				vAssert("wrap:get-present", v != nil && vC18ValIs(v, w.rVal[s]))
			} else {
				vAssert("wrap:get-absent-undefined", v == _undefined)
			}
		}
	}
	it := w.m.newIter()
	for s := range w.rLive {
		if !w.rLive[s] {
			continue
		}
		e := it.next()
		vAssert("wrap:walk-entry", e != nil)
		if e == nil {
			return
		}
		vAssert("wrap:walk-key-in-insertion-order", e.key != nil && vC18mKeyMatches(e.key, w.p.want[w.rKey[s]]))
		if !w.isSet {
			vAssert("wrap:walk-value", e.value != nil && vC18ValIs(e.value, w.rVal[s]))
		}
	}
	vAssert("wrap:walk-end", it.next() == nil)
}

func vC18mWrap(isSet bool) {
	r := vRuntime()
	variant := vChoice("pool", 4)
	w := &vC18mWorld{r: r, p: vC18mMakePool(r, variant), isSet: isSet}
	if isSet {
		o, so := vC18mNewSet(r)
		w.obj, w.m = o, so.m
	} else {
		o, mo := vC18mNewMap(r)
		w.obj, w.m = o, mo.m
	}
	// initial inserts: keys 0, 1 (often the same class as 0: update, not a new entry) and 2
	w.doSet(0)
	w.doSet(1)
	w.doSet(2)
	w.observe()
	nk := len(w.p.keys)
	for s := vBound("S"); s > 0; s-- {
		op := vChoice("op", 2*nk+1)
		switch {
		case op < nk:
			w.doSet(op)
		case op < 2*nk:
			w.doDelete(op - nk)
		default:
			w.doClear()
		}
		w.observe()
	}
	if !isSet {
		// set(k) without a value stores undefined; get of it is undefined, has is true
		ret := w.call(r.mapProto_set, []Value{w.p.keys[3]})
		vAssert("wrap:set-returns-this", ret == Value(w.obj))
		vAssert("wrap:set-without-value:get", w.call(r.mapProto_get, vC18mArgs(&w.p, 3)) == _undefined)
		vAssert("wrap:set-without-value:has", w.call(r.mapProto_has, vC18mArgs(&w.p, 3)) == Value(valueTrue))
	}
	// incompatible receivers: the other collection kind and a primitive are rejected with a TypeError and
	// leave the collection alone
	var other *Object
	if isSet {
		other, _ = vC18mNewMap(r)
	} else {
		other, _ = vC18mNewSet(r)
	}
	before := w.m.size
	f := r.mapProto_set
	g := r.mapProto_clear
	if isSet {
		f = r.setProto_add
		g = r.setProto_clear
	}
	out := vCatch(func() { f(FunctionCall{This: other, Arguments: []Value{valueInt(1), valueInt(1)}}) })
	vAssert("wrap:incompatible-receiver-TypeError", out.panicked && out.kind == "TypeError")
	out = vCatch(func() { g(FunctionCall{This: valueInt(5)}) })
	vAssert("wrap:primitive-receiver-TypeError", out.panicked && out.kind == "TypeError")
	vAssert("wrap:rejected-call-has-no-effect", w.m.size == before)
}

func H_C18_wrapMap() { vC18mWrap(false) }
func H_C18_wrapSet() { vC18mWrap(true) }

// ---------------------------------------------------------------------
// H18.4.forEach: the callback mutates the collection while forEach is iterating

// reference list for the forEach / iterator scenarios: keys are small ints, values are tags
type vC18mList struct {
	key  []int64
	val  []int64
	live []bool
}

func (l *vC18mList) find(k int64) int {
	for i := range l.key {
		if l.live[i] && l.key[i] == k {
			return i
		}
	}
	return -1
}
func (l *vC18mList) set(k, v int64) {
	if i := l.find(k); i >= 0 {
		l.val[i] = v
		return
	}
	l.key = append(l.key, k)
	l.val = append(l.val, v)
	l.live = append(l.live, true)
}
func (l *vC18mList) del(k int64) {
	if i := l.find(k); i >= 0 {
		l.live[i] = false
	}
}
func (l *vC18mList) clear() {
	for i := range l.live {
		l.live[i] = false
	}
}
func (l *vC18mList) size() int {
	n := 0
	for _, x := range l.live {
		if x {
			n++
		}
	}
	return n
}

const (
	vC18mActNone = iota
	vC18mActDelCur
	vC18mActDelLater
	vC18mActDelEarlier
	vC18mActClear
	vC18mActClearRefill
	vC18mActAdd
	vC18mActDelCurReadd
	vC18mActDelUpToCur
	vC18mActDelAllLater
	vC18mNumActs
)

// vC18mAct applies action act, triggered while the entry with key cur is being visited, through `set`,
// `del`, `clear` (which are either the reference list or the real prototype methods)
func vC18mAct(act int, cur int64, n int64, set func(k, v int64), del func(k int64), clear func()) {
	switch act {
	case vC18mActDelCur:
		del(cur)
	case vC18mActDelLater:
		del(cur + 1)
	case vC18mActDelEarlier:
		del(cur - 1)
	case vC18mActClear:
		clear()
	case vC18mActClearRefill:
		clear()
		for k := int64(1); k <= n; k++ {
			set(k, 100+k)
		}
	case vC18mActAdd:
		set(n+1, 50)
		set(cur, 60) // update of the current entry: not a new entry
	case vC18mActDelCurReadd:
		del(cur)
		set(cur, 70) // a NEW entry at the end: must be visited again
	case vC18mActDelUpToCur:
		for k := int64(1); k <= cur; k++ {
			del(k)
		}
	case vC18mActDelAllLater:
		for k := cur + 1; k <= n+1; k++ {
			del(k)
		}
	}
}

type vC18mVisit struct {
	key, val int64
}

func vC18mForEach(isSet bool) {
	r := vRuntime()
	n := int64(vBound("N"))
	nTrig := vBound("T")
	// triggers: at the trigAt[i]-th callback invocation (0-based) perform trigAct[i]
	trigAt := make([]int, nTrig)
	trigAct := make([]int, nTrig)
	for i := 0; i < nTrig; i++ {
		trigAt[i] = vChoice("trigger.at", int(n)+1)
		trigAct[i] = vChoice("trigger.act", vC18mNumActs)
	}
	maxVisits := 4*int(n) + 8

	// ---- reference: Map.prototype.forEach over the entries list (24.1.3.5 steps 5-7)
	ref := &vC18mList{}
	for k := int64(1); k <= n; k++ {
		ref.set(k, 10+k)
	}
	var want []vC18mVisit
	for idx := 0; idx < len(ref.key) && len(want) <= maxVisits; idx++ {
		if !ref.live[idx] {
			continue
		}
		call := len(want)
		cur := ref.key[idx]
		want = append(want, vC18mVisit{cur, ref.val[idx]})
		for i := 0; i < nTrig; i++ {
			if trigAt[i] == call {
				vC18mAct(trigAct[i], cur, n, ref.set, ref.del, ref.clear)
			}
		}
	}
	vAssume(len(want) <= maxVisits)

	// ---- real
	var obj *Object
	var m *orderedMap
	if isSet {
		o, so := vC18mNewSet(r)
		obj, m = o, so.m
	} else {
		o, mo := vC18mNewMap(r)
		obj, m = o, mo.m
	}
	fc := func(args ...Value) FunctionCall { return FunctionCall{This: obj, Arguments: args} }
	set := func(k, v int64) {
		if isSet {
			r.setProto_add(fc(valueInt(k)))
		} else {
			r.mapProto_set(fc(valueInt(k), valueInt(v)))
		}
	}
	del := func(k int64) {
		if isSet {
			r.setProto_delete(fc(valueInt(k)))
		} else {
			r.mapProto_delete(fc(valueInt(k)))
		}
	}
	clear := func() {
		if isSet {
			r.setProto_clear(fc())
		} else {
			r.mapProto_clear(fc())
		}
	}
	for k := int64(1); k <= n; k++ {
		set(k, 10+k)
	}
	thisArg := r.NewObject()
	var got []vC18mVisit
	argsOK := true
	cb := vC18mFunc(r, func(call FunctionCall) Value {
		if len(got) > maxVisits {
			panic(Value(asciiString("too many visits")))
		}
		ncall := len(got)
		a0, ok0 := call.Argument(0).(valueInt)
		a1, ok1 := call.Argument(1).(valueInt)
		if !ok0 || !ok1 || len(call.Arguments) != 3 || call.Argument(2) != Value(obj) || call.This != Value(thisArg) {
			argsOK = false
		}
		// Map: (value, key, map); Set: (value, value, set)
		got = append(got, vC18mVisit{int64(a1), int64(a0)})
		for i := 0; i < nTrig; i++ {
			if trigAt[i] == ncall {
				vC18mAct(trigAct[i], int64(a1), n, set, del, clear)
			}
		}
		return valueInt(12345) // the callback's result is ignored
	})
	var ret Value
	out := vCatch(func() {
		if isSet {
			ret = r.setProto_forEach(fc(cb, thisArg))
		} else {
			ret = r.mapProto_forEach(fc(cb, thisArg))
		}
	})
	vAssert("forEach:terminates-without-throw", !out.panicked)
	if out.panicked {
		return
	}
	vAssert("forEach:returns-undefined", ret == _undefined)
	vAssert("forEach:callback-arguments-and-this", argsOK)
	vAssert("forEach:number-of-visits", len(got) == len(want))
	same := len(got) == len(want)
	if same {
		for i := range got {
			if got[i].key != want[i].key {
				same = false
			}
			if !isSet && got[i].val != want[i].val {
				same = false
			}
			if isSet && got[i].val != got[i].key {
				same = false
			}
		}
	}
	vAssert("forEach:visits==entries-present-when-reached-in-order", same)
	vAssert("forEach:size-after", m.size == ref.size())
	// final content in insertion order
	it := m.newIter()
	ok := true
	for i := range ref.key {
		if !ref.live[i] {
			continue
		}
		e := it.next()
		if e == nil {
			ok = false
			break
		}
		k, isInt := e.key.(valueInt)
		if !isInt || int64(k) != ref.key[i] {
			ok = false
		}
		if !isSet {
			v, isInt := e.value.(valueInt)
			if !isInt || int64(v) != ref.val[i] {
				ok = false
			}
		}
	}
	if it.next() != nil {
		ok = false
	}
	vAssert("forEach:final-content", ok)

	// a callback that is not callable is a TypeError before anything is visited
	out = vCatch(func() {
		if isSet {
			r.setProto_forEach(fc(r.NewObject()))
		} else {
			r.mapProto_forEach(fc(r.NewObject()))
		}
	})
	vAssert("forEach:non-callable-TypeError", out.panicked && out.kind == "TypeError")
}

func H_C18_forEachMap() { vC18mForEach(false) }
func H_C18_forEachSet() { vC18mForEach(true) }

// ---------------------------------------------------------------------
// H18.4.iterObj: Map Iterator / Set Iterator objects (%MapIteratorPrototype%.next, 24.1.5)

func vC18mIterResult(v Value) (value Value, done bool, ok bool) {
	o, isObj := v.(*Object)
	if !isObj {
		return nil, false, false
	}
	d, isBool := o.self.getStr("done", nil).(valueBool)
	if !isBool {
		return nil, false, false
	}
	keys := o.self.stringKeys(true, nil)
	if len(keys) != 2 {
		return nil, false, false
	}
	return o.self.getStr("value", nil), bool(d), true
}

func vC18mIsInt(v Value, want int64) bool {
	i, ok := v.(valueInt)
	return ok && int64(i) == want
}

func H_C18_iterObj() {
	r := vRuntime()
	isSet := vChoice("isSet", 2) == 1
	kind := iterationKind(vChoice("kind", 3)) // key, value, key+value
	if isSet && kind == iterationKindKey {
		kind = iterationKindValue // Set.prototype.keys is values
	}
	n := int64(2)
	var obj *Object
	if isSet {
		obj, _ = vC18mNewSet(r)
	} else {
		obj, _ = vC18mNewMap(r)
	}
	fc := func(args ...Value) FunctionCall { return FunctionCall{This: obj, Arguments: args} }
	set := func(k, v int64) {
		if isSet {
			r.setProto_add(fc(valueInt(k)))
		} else {
			r.mapProto_set(fc(valueInt(k), valueInt(v)))
		}
	}
	del := func(k int64) {
		if isSet {
			r.setProto_delete(fc(valueInt(k)))
		} else {
			r.mapProto_delete(fc(valueInt(k)))
		}
	}
	clear := func() {
		if isSet {
			r.setProto_clear(fc())
		} else {
			r.mapProto_clear(fc())
		}
	}
	ref := &vC18mList{}
	for k := int64(1); k <= n; k++ {
		set(k, 10+k)
		ref.set(k, 10+k)
	}
	var itv Value
	if isSet {
		itv = r.createSetIterator(obj, kind)
	} else {
		itv = r.createMapIterator(obj, kind)
	}
	next := func() Value {
		if isSet {
			return r.setIterProto_next(FunctionCall{This: itv})
		}
		return r.mapIterProto_next(FunctionCall{This: itv})
	}
	pos := 0
	done := false
	step := func() {
		res := next()
		value, gotDone, ok := vC18mIterResult(res)
		vAssert("iter:result-is-{value,done}", ok)
		if !ok {
			return
		}
		if !done {
			for pos < len(ref.key) && !ref.live[pos] {
				pos++
			}
			if pos >= len(ref.key) {
				done = true
			}
		}
		if done {
			vAssert("iter:done-stays-done", gotDone && value == _undefined)
			return
		}
		k, v := ref.key[pos], ref.val[pos]
		pos++
		vAssert("iter:not-done", !gotDone)
		switch {
		case kind == iterationKindKey:
			vAssert("iter:key", vC18mIsInt(value, k))
		case kind == iterationKindValue && !isSet:
			vAssert("iter:value", vC18mIsInt(value, v))
		case kind == iterationKindValue:
			vAssert("iter:key", vC18mIsInt(value, k))
		default:
			pair, isObj := value.(*Object)
			good := false
			if isObj && isArray(pair) {
				a, isArr := pair.self.(*arrayObject)
				if isArr && len(a.values) == 2 && a.length == 2 {
					if isSet {
						good = vC18mIsInt(a.values[0], k) && vC18mIsInt(a.values[1], k)
					} else {
						good = vC18mIsInt(a.values[0], k) && vC18mIsInt(a.values[1], v)
					}
				}
			}
			vAssert("iter:entry-pair", good)
		}
	}
	// schedule: [advance j times] mutate [advance to exhaustion] refill [still done]
	j := vChoice("advance", 3)
	for ; j > 0; j-- {
		step()
	}
	act := vChoice("act", vC18mNumActs)
	cur := int64(1)
	if pos > 0 {
		cur = ref.key[pos-1]
	}
	vC18mAct(act, cur, n, set, del, clear)
	vC18mAct(act, cur, n, ref.set, ref.del, ref.clear)
	for k := 0; k < 2*int(n)+4; k++ {
		step()
	}
	vAssert("iter:exhausted", done)
	set(99, 99)
	ref.set(99, 99)
	step()
	step()
	// wrong receiver
	out := vCatch(func() {
		if isSet {
			r.setIterProto_next(FunctionCall{This: obj})
		} else {
			r.mapIterProto_next(FunctionCall{This: obj})
		}
	})
	vAssert("iter:incompatible-receiver-TypeError", out.panicked && out.kind == "TypeError")
}

// ---------------------------------------------------------------------
// H18.4.symTable: own symbol-keyed properties of an ordinary object are kept in creation order

func H_C18_symTable() {
	r := vRuntime()
	o := r.newBaseObject(nil, classObject)
	syms := []*Symbol{{desc: asciiString("s0")}, {desc: asciiString("s1")}, {desc: asciiString("s2")}, {desc: asciiString("s3")}}
	ns := len(syms)
	// reference: creation-ordered list; sym 2 is created non-configurable (delete must fail and keep its place)
	var rKey []int
	var rVal []int64
	var rLive []bool
	find := func(k int) int {
		for i := range rKey {
			if rLive[i] && rKey[i] == k {
				return i
			}
		}
		return -1
	}
	nval := int64(0)
	put := func(k int) {
		nval++
		if i := find(k); i >= 0 {
			rVal[i] = nval
			return
		}
		rKey = append(rKey, k)
		rVal = append(rVal, nval)
		rLive = append(rLive, true)
	}
	// initial: s0 (plain), s2 (non-configurable, writable), s1 (plain)
	o._putSym(syms[0], valueInt(1))
	put(0)
	o._putSym(syms[2], &valueProperty{value: valueInt(2), writable: true, enumerable: true, configurable: false})
	put(2)
	o.setOwnSym(syms[1], valueInt(3), false)
	put(1)

	valOf := func(v Value) (int64, bool) {
		if p, ok := v.(*valueProperty); ok {
			v = p.value
		}
		i, ok := v.(valueInt)
		return int64(i), ok
	}
	observe := func() {
		all := o.symbols(true, nil)
		enum := o.symbols(false, nil)
		cnt := 0
		ok := true
		for i := range rKey {
			if !rLive[i] {
				continue
			}
			if cnt >= len(all) || all[cnt] != Value(syms[rKey[i]]) {
				ok = false
			}
			cnt++
		}
		vAssert("sym:keys==creation-order", ok && cnt == len(all))
		vAssert("sym:all-enumerable-here", len(enum) == len(all))
		// iterateSymbols yields the same order with the values
		next := o.iterateSymbols()
		okIter := true
		for i := range rKey {
			if !rLive[i] {
				continue
			}
			var item propIterItem
			item, next = next()
			if next == nil {
				okIter = false
				break
			}
			got, isInt := valOf(item.value)
			if item.name != Value(syms[rKey[i]]) || !isInt || got != rVal[i] {
				okIter = false
			}
		}
		if okIter {
			_, next = next()
			okIter = next == nil
		}
		vAssert("sym:iterateSymbols==creation-order-with-values", okIter)
		for k := 0; k < ns; k++ {
			i := find(k)
			vAssert("sym:hasOwn", o.hasOwnPropertySym(syms[k]) == (i >= 0))
			v := o.getOwnPropSym(syms[k])
			if i >= 0 {
				got, isInt := valOf(v)
				vAssert("sym:getOwn-present", v != nil && isInt && got == rVal[i])
			} else {
				vAssert("sym:getOwn-absent", v == nil)
			}
		}
		n := 0
		for _, l := range rLive {
			if l {
				n++
			}
		}
		vAssert("sym:table-size", o.symValues.size == n)
	}
	observe()
	for s := vBound("S"); s > 0; s-- {
		op := vChoice("op", 3)
		k := vChoice("sym", ns)
		switch op {
		case 0: // [[Set]]
			res := o.setOwnSym(syms[k], valueInt(nval+1), false)
			vAssert("sym:set-succeeds", res)
			put(k)
		case 1: // [[DefineOwnProperty]] with a full data descriptor keeping configurability
			cfg := FLAG_TRUE
			if k == 2 && find(2) >= 0 {
				cfg = FLAG_FALSE
			}
			res := o.defineOwnPropertySym(syms[k], PropertyDescriptor{Value: valueInt(nval + 1), Writable: FLAG_TRUE, Enumerable: FLAG_TRUE, Configurable: cfg}, false)
			vAssert("sym:define-succeeds", res)
			put(k)
		default: // [[Delete]]
			res := o.deleteSym(syms[k], false)
			i := find(k)
			if k == 2 && i >= 0 {
				vAssert("sym:delete-non-configurable-fails", !res)
			} else {
				vAssert("sym:delete-succeeds", res)
				if i >= 0 {
					rLive[i] = false
				}
			}
		}
		observe()
	}
}
