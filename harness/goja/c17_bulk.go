package goja

import (
	"hash/maphash"
	"reflect"

	"github.com/dop251/goja/unistring"
)

// ---------------------------------------------------------------------
// C17 / H17.2: bulk TypedArray.prototype methods driven directly on a hand-built world
// (one ArrayBuffer of exactly N elements of the view's element type, one view with symbolic
// offset/length under the constructor's invariant (offset+length)*size <= byteLength).
// The world struct is the one of c17_ta.go (vTAWorld).

// element kinds the bulk harnesses iterate over (the bulk methods depend on the kind only through
// elemSize and toRaw/get/set, which H17.1 covers per kind)
var vC17KindsBySize = []int{vkInt16, vkUint8, vkUint32, vkFloat64}
var vC17KindsInt = []int{vkInt8, vkUint16, vkUint32, vkUint8Clamped, vkUint8, vkInt16, vkInt32}

func vC17NewTA(r *Runtime, kind int, buf *arrayBufferObject, off, length int) *typedArrayObject {
	switch kind {
	case vkUint8:
		return r.newUint8ArrayObject(buf, off, length, nil)
	case vkUint8Clamped:
		return r.newUint8ClampedArrayObject(buf, off, length, nil)
	case vkInt8:
		return r.newInt8ArrayObject(buf, off, length, nil)
	case vkUint16:
		return r.newUint16ArrayObject(buf, off, length, nil)
	case vkInt16:
		return r.newInt16ArrayObject(buf, off, length, nil)
	case vkUint32:
		return r.newUint32ArrayObject(buf, off, length, nil)
	case vkInt32:
		return r.newInt32ArrayObject(buf, off, length, nil)
	case vkFloat32:
		return r.newFloat32ArrayObject(buf, off, length, nil)
	}
	return r.newFloat64ArrayObject(buf, off, length, nil)
}

// vC17World: buffer of exactly N = vBound("N") elements; kind drawn from `kinds`; the view's
// offset and length stay SYMBOLIC unless conc (the engine forks on the byte positions of slice
// expressions, not on (offset, index) pairs).
func vC17World(name string, kinds []int) *vTAWorld { return vC17WorldG(name, kinds, 0) }

// conc: 0 = offset and length symbolic, 1 = offset concretized, 2 = both concretized
func vC17WorldG(name string, kinds []int, conc int) *vTAWorld {
	w := &vTAWorld{r: vRuntime()}
	ks := vNondetInt(name + ".kindsel")
	vAssume(ks >= 0 && ks < len(kinds))
	if nk := vBound("KINDS"); nk > 0 {
		vAssume(ks < nk)
	}
	ks = vConcretize(ks)
	w.kind = kinds[ks]
	w.size = vElemSize(w.kind)
	w.n = vBound("N") * w.size
	w.orig = vNondetBytes(name+".data", w.n)
	w.before = append([]byte{}, w.orig...)
	w.buf = w.r._newArrayBuffer(nil, nil)
	w.buf.data = w.orig
	off := vNondetInt(name + ".offset")
	length := vNondetInt(name + ".length")
	vAssume(off >= 0 && off <= vBound("N"))
	vAssume(length >= 0 && length <= vBound("N"))
	vAssume(off+length <= vBound("N"))
	if conc >= 1 {
		off = vConcretize(off)
	}
	if conc >= 2 {
		length = vConcretize(length)
	}
	w.ta = vC17NewTA(w.r, w.kind, w.buf, off, length)
	return w
}

// ---------------------------------------------------------------------
// vC17Arg: an argument value. Its ToInteger result is an arbitrary int64 (every int64 is the
// ToInteger of some Number up to float granularity: ±Infinity give Min/MaxInt64); its ToNumber
// result is the integral Number i (only used when |i| <= 2^53, see vC17NumArg). The first coercion
// runs `effect` (user code: valueOf) exactly once.

type vC17Arg struct {
	i      int64
	effect func()
	fired  *int
}

func vC17IntArg(name string, effect func()) *vC17Arg {
	n := 0
	return &vC17Arg{i: vNondetInt64(name), effect: effect, fired: &n}
}

// a Number argument restricted to integral values in the safe range (valueInt)
func vC17NumArg(name string, effect func()) *vC17Arg {
	a := vC17IntArg(name, effect)
	vAssume(a.i >= -(1<<53) && a.i <= 1<<53)
	return a
}

func (v *vC17Arg) fire() {
	*v.fired++
	if *v.fired == 1 && v.effect != nil {
		v.effect()
	}
}

func (v *vC17Arg) ToInteger() int64            { v.fire(); return v.i }
func (v *vC17Arg) toString() String            { return asciiString("<arg>") }
func (v *vC17Arg) string() unistring.String    { return "<arg>" }
func (v *vC17Arg) ToString() Value             { return asciiString("<arg>") }
func (v *vC17Arg) String() string              { return "<arg>" }
func (v *vC17Arg) ToFloat() float64            { v.fire(); return float64(v.i) }
func (v *vC17Arg) ToNumber() Value             { v.fire(); return valueInt(v.i) }
func (v *vC17Arg) ToBoolean() bool             { return true }
func (v *vC17Arg) ToObject(*Runtime) *Object   { panic("vC17Arg.ToObject") }
func (v *vC17Arg) SameAs(o Value) bool         { return v == o }
func (v *vC17Arg) Equals(o Value) bool         { return v == o }
func (v *vC17Arg) StrictEquals(o Value) bool   { return v == o }
func (v *vC17Arg) Export() interface{}         { return nil }
func (v *vC17Arg) ExportType() reflect.Type    { return nil }
func (v *vC17Arg) baseObject(*Runtime) *Object { return nil }
func (v *vC17Arg) hash(*maphash.Hash) uint64   { return 0 }

// vC17Detacher: at most one of the coercions (chosen by the solver) detaches the buffer.
// which == -1: nobody detaches.
type vC17Detacher struct {
	w     *vTAWorld
	which int
	done  bool
}

func vC17NewDetacher(w *vTAWorld, nargs int) *vC17Detacher {
	d := &vC17Detacher{w: w, which: vNondetInt("detachAt")}
	vAssume(d.which >= -1 && d.which < nargs)
	return d
}

func (d *vC17Detacher) effect(k int) func() {
	return func() {
		if d.which == k {
			d.w.buf.detach()
			d.done = true
		}
	}
}

// ---------------------------------------------------------------------
// reference helpers (summarised: pure, scalar results)

// refRelIdx: the spec's relative index clamp: rel < 0 ? max(len+rel, 0) : min(rel, len)
func refRelIdx(rel int64, l int64) int64 {
	if rel < 0 {
		if rel < -l { // also covers MinInt64 without overflow
			return 0
		}
		return l + rel
	}
	if rel > l {
		return l
	}
	return rel
}

// refCopyWithinByte: expected value of buffer byte p after %TypedArray%.prototype.copyWithin
// (ECMA-262 23.2.3.6): count = min(final-from, len-to) elements are moved with memmove semantics
// from element `from` to element `to` of the view that starts at byte voff.
func refCopyWithinSrc(p int, voff, size int, l, to, from, final int64) int {
	count := final - from
	if l-to < count {
		count = l - to
	}
	if count <= 0 {
		return p
	}
	lo := voff + int(to)*size
	hi := lo + int(count)*size
	if p < lo || p >= hi {
		return p
	}
	return p - lo + voff + int(from)*size
}

// refC17RawInt: NumericToRawBytes of an integral Number i (|i| <= 2^53) for the integer element
// kinds: i modulo 2^(8*size) (two's complement truncation), Uint8Clamped clamps to 0..255.
func refC17RawInt(kind int, i int64) uint64 {
	switch kind {
	case vkUint8, vkInt8:
		return uint64(uint8(i))
	case vkUint8Clamped:
		if i < 0 {
			return 0
		}
		if i > 255 {
			return 255
		}
		return uint64(i)
	case vkUint16, vkInt16:
		return uint64(uint16(i))
	}
	return uint64(uint32(i))
}

// H17.2 copyWithin(target, start, end): every access inside the current buffer (implicit), TypeError
// when a coercion detached the buffer and something is to be copied, bytes == memmove model clamped
// to the VIEW.
func H_C17_copyWithin() {
	w := vC17World("w", vC17KindsBySize)
	d := vC17NewDetacher(w, 3)
	to := vC17IntArg("to", d.effect(0))
	from := vC17IntArg("from", d.effect(1))
	end := vC17IntArg("end", d.effect(2))
	args := []Value{to, from, end}
	if vBound("ABSENT") == 1 && vNondetBool("end.absent") {
		vAssume(d.which != 2)
		args = args[:2]
	}
	l := int64(w.ta.length)
	out := vCatch(func() { w.r.typedArrayProto_copyWithin(FunctionCall{This: w.ta.val, Arguments: args}) })
	rto := refRelIdx(to.i, l)
	rfrom := refRelIdx(from.i, l)
	rfinal := l
	if len(args) == 3 {
		rfinal = refRelIdx(end.i, l)
	}
	count := rfinal - rfrom
	if l-rto < count {
		count = l - rto
	}
	detached := w.buf.detached // concrete on every path
	vAssert("copyWithin:detach-happened-as-chosen", detached == (d.which >= 0))
	// ECMA-262 23.2.3.6 step 17.b-c: count > 0 and the array went out of bounds (detached) -> TypeError
	wantThrow := detached && count > 0
	// known: the missing clamp of count to len-to also makes goja throw when final > from but count <= 0
	knownThrow := detached && rfinal > rfrom && count <= 0
	vAssertK("copyWithin:throw-iff-detached-and-count>0", out.panicked == wantThrow, knownThrow, "F-C17-copyWithin-detached-count0")
	if out.panicked {
		vAssert("copyWithin:TypeError", out.kind == "TypeError")
	}
	// the slab: unchanged when detached; otherwise the memmove model
	voff := w.ta.offset * w.size
	ok := true
	for p := 0; p < w.n; p++ {
		src := p
		if !detached {
			src = refCopyWithinSrc(p, voff, w.size, l, rto, rfrom, rfinal)
		}
		if w.orig[p] != vC17Pick(w.before, src) {
			ok = false
		}
	}
	// known: goja clamps the copy to the end of the BUFFER, not of the view: when to > from and the
	// view ends before the buffer does, bytes after the view are overwritten
	pastView := rfinal-rfrom > l-rto
	known := !detached && pastView && (w.ta.offset+w.ta.length)*w.size < w.n
	vAssertK("copyWithin:bytes==model", ok, known, "F-C17-copyWithin-past-view")
}

// vC17Pick: b[idx] for a symbolic idx without a bounds query (ite chain over the concrete length)
func vC17Pick(b []byte, idx int) byte {
	var r byte
	for q := 0; q < len(b); q++ {
		if q == idx {
			r = b[q]
		}
	}
	return r
}

// H17.2 fill(value, start, end)
func H_C17_fill() {
	w := vC17World("w", vC17KindsInt)
	d := vC17NewDetacher(w, 3)
	val := vC17NumArg("val", d.effect(0))
	start := vC17IntArg("start", d.effect(1))
	end := vC17IntArg("end", d.effect(2))
	args := []Value{val, start, end}
	if vBound("ABSENT") == 1 && vNondetBool("end.absent") {
		vAssume(d.which != 2)
		args = args[:2]
	}
	l := int64(w.ta.length)
	out := vCatch(func() { w.r.typedArrayProto_fill(FunctionCall{This: w.ta.val, Arguments: args}) })
	k := refRelIdx(start.i, l)
	final := l
	if len(args) == 3 {
		final = refRelIdx(end.i, l)
	}
	detached := d.which >= 0
	// ECMA-262 23.2.3.9 step 17: after the coercions, a detached/out-of-bounds array throws TypeError
	if detached {
		vAssert("fill:detached-TypeError", out.panicked && out.kind == "TypeError")
	} else {
		vAssert("fill:no-throw", !out.panicked)
	}
	vAssert("fill:value-coerced-once", *val.fired == 1)
	raw := refC17RawInt(w.kind, val.i)
	voff := w.ta.offset * w.size
	ok := true
	for p := 0; p < w.n; p++ {
		expect := w.before[p]
		e := (p - voff) / w.size
		if !detached && p >= voff && int64(e) >= k && int64(e) < final {
			expect = byte(raw >> (8 * uint((p-voff)%w.size)))
		}
		if w.orig[p] != expect {
			ok = false
		}
	}
	vAssert("fill:bytes==model", ok)
}

// ---------------------------------------------------------------------
// H17.2 indexOf / lastIndexOf / includes (integer element kinds, integral search value)

// refC17ElemInt: RawBytesToNumeric for the integer kinds
func refC17ElemInt(kind int, raw uint64) int64 {
	switch kind {
	case vkUint8, vkUint8Clamped:
		return int64(uint8(raw))
	case vkInt8:
		return int64(int8(raw))
	case vkUint16:
		return int64(uint16(raw))
	case vkInt16:
		return int64(int16(raw))
	case vkUint32:
		return int64(uint32(raw))
	}
	return int64(int32(raw))
}

// refSearchStart: first index examined by indexOf/includes (== l: nothing is examined)
func refSearchStart(n int64, l int64) int64 {
	if n >= l {
		return l
	}
	if n < 0 {
		if n < -l {
			return 0
		}
		return l + n
	}
	return n
}

// refSearchStartLast: first index examined by lastIndexOf (-1: nothing)
func refSearchStartLast(n int64, l int64) int64 {
	if n >= 0 {
		if n > l-1 {
			return l - 1
		}
		return n
	}
	if n < -l {
		return -1
	}
	return l + n
}

func refSearchUpd(want, k, l, start int64, match bool, last bool) int64 {
	if !match || k >= l {
		return want
	}
	if last {
		if k <= start {
			return k
		}
		return want
	}
	if k >= start {
		return k
	}
	return want
}

func H_C17_search() {
	op := vNondetInt("op") // 0 indexOf, 1 lastIndexOf, 2 includes
	vAssume(op >= 0 && op <= 2)
	op = vConcretize(op)
	w := vC17WorldG("w", vC17KindsInt, 1)
	d := vC17NewDetacher(w, 1)
	se := vNondetInt64("search")
	vAssume(se >= -(1<<53) && se <= 1<<53)
	from := vC17IntArg("fromIndex", d.effect(0))
	args := []Value{valueInt(se), from}
	absent := vBound("ABSENT") == 1 && vNondetBool("fromIndex.absent")
	if absent {
		vAssume(d.which != 0)
		args = args[:1]
	}
	call := FunctionCall{This: w.ta.val, Arguments: args}
	var res Value
	out := vCatch(func() {
		switch op {
		case 0:
			res = w.r.typedArrayProto_indexOf(call)
		case 1:
			res = w.r.typedArrayProto_lastIndexOf(call)
		default:
			res = w.r.typedArrayProto_includes(call)
		}
	})
	vAssert("search:no-throw", !out.panicked)
	if out.panicked {
		return
	}
	detached := w.buf.detached
	l := int64(w.ta.length)
	N := vBound("N")
	off := w.ta.offset // concrete
	n := from.i
	if absent {
		n = 0
		if op == 1 {
			n = l - 1
		}
	}
	start := refSearchStart(n, l)
	if op == 1 {
		start = refSearchStartLast(n, l)
	}
	want := int64(-1)
	if op == 1 {
		for k := 0; k < N && off+k < N; k++ {
			e := refC17ElemInt(w.kind, vRawAt(w.before, (off+k)*w.size, w.size))
			want = refSearchUpd(want, int64(k), l, start, e == se, true)
		}
	} else {
		for k := N - 1; k >= 0; k-- {
			if off+k < N {
				e := refC17ElemInt(w.kind, vRawAt(w.before, (off+k)*w.size, w.size))
				want = refSearchUpd(want, int64(k), l, start, e == se, false)
			}
		}
	}
	if detached || l == 0 {
		want = -1 // a detached array has no elements; an integral search value is never `undefined`
	}
	vAssert("search:result-defined", res != nil)
	if op == 2 {
		vAssert("search:includes==model", res.ToBoolean() == (want >= 0))
	} else {
		vAssert("search:index==model", res.ToInteger() == want)
	}
}

// ---------------------------------------------------------------------
// H17.2 set(arrayLike, offset): elements are values whose ToNumber may detach the target's buffer,
// element getters may detach it too, and so may the offset coercion.

type vC17ArrayLike struct {
	*baseObject
	elems  []Value
	onGet  []func()
	length int
}

func (a *vC17ArrayLike) getStr(name unistring.String, receiver Value) Value {
	if name == "length" {
		return valueInt(a.length)
	}
	return nil
}

func (a *vC17ArrayLike) getIdx(idx valueInt, receiver Value) Value {
	i := int(idx)
	if i >= 0 && i < len(a.elems) {
		if a.onGet[i] != nil {
			a.onGet[i]()
		}
		return a.elems[i]
	}
	return nil
}

func vC17NewArrayLike(r *Runtime, elems []Value, onGet []func()) *Object {
	o := &Object{runtime: r}
	b := &baseObject{class: classObject, val: o, extensible: true}
	a := &vC17ArrayLike{baseObject: b, elems: elems, onGet: onGet, length: len(elems)}
	o.self = a
	b.init()
	return o
}

// refC17SetExpect: byte at distance k from the start of target element (offset+i) after processing
// source element i. Events in order: 0 = offset coercion; for each j: 1+S+j = Get of element j, then
// 1+j = ToNumber of element j. Element i is stored iff the call does not throw (want == 0) and no
// detach happened up to and including its own Get and ToNumber.
func refC17SetExpect(old byte, want int, which int, i int, S int, k int, size int, raw uint64) byte {
	stored := want == 0
	if which >= 1 && which < 1+S && which-1 <= i {
		stored = false
	}
	if which >= 1+S && which-1-S <= i {
		stored = false
	}
	if which == 0 {
		stored = false
	}
	if !stored || k < 0 || k >= size {
		return old
	}
	return byte(raw >> (8 * uint(k)))
}

func H_C17_setArrayLike() {
	w := vC17World("w", vC17KindsInt)
	S := vNondetInt("srcLen")
	vAssume(S >= 0 && S <= vBound("S"))
	S = vConcretize(S)
	// detach points: 0 = offset coercion, 1+i = ToNumber of element i, 1+S+i = getter of element i
	d := vC17NewDetacher(w, 1+2*S)
	offArg := vC17IntArg("offset", d.effect(0))
	vals := make([]*vC17Arg, S)
	elems := make([]Value, S)
	onGet := make([]func(), S)
	for i := 0; i < S; i++ {
		vals[i] = vC17NumArg("elem", d.effect(1+i))
		elems[i] = vals[i]
		onGet[i] = d.effect(1 + S + i)
	}
	src := vC17NewArrayLike(w.r, elems, onGet)
	out := vCatch(func() {
		w.r.typedArrayProto_set(FunctionCall{This: w.ta.val, Arguments: []Value{src, offArg}})
	})
	l := int64(w.ta.length)
	to := offArg.i
	// ECMA-262 23.2.3.26 / 23.2.3.26.2 (SetTypedArrayFromArrayLike)
	want := 0
	if to < 0 {
		want = 1 // RangeError
	} else if d.which == 0 {
		want = 2 // TypeError: target out of bounds after the offset coercion
	} else if to > l || int64(S) > l-to {
		want = 1
	}
	vAssert("set:outcome==spec", vC17OutcomeCode(out) == want)
	// bytes: element i is stored iff the call did not throw and the buffer is still attached AFTER
	// the element's Get and ToNumber (TypedArraySetElement coerces first, then checks validity)
	voff := w.ta.offset * w.size
	ok := true
	for p := 0; p < w.n; p++ {
		expect := w.before[p]
		for i := 0; i < S; i++ {
			lo := voff + (int(to)+i)*w.size
			expect = refC17SetExpect(expect, want, d.which, i, S, p-lo, w.size, refC17RawInt(w.kind, vals[i].i))
		}
		if w.orig[p] != expect {
			ok = false
		}
	}
	// known: goja checks validity BEFORE the element's ToNumber (typedArray.set coerces inside), and
	// the element pointer is computed before the coercion: a detaching valueOf still stores into the old slab
	known := want == 0 && d.which >= 1 && d.which < 1+S
	vAssertK("set:bytes==model", ok, known, "F-C17-set-arraylike-write-after-detach")
}

// ---------------------------------------------------------------------
// H17.2 geometry validation of new TypedArray(buffer, byteOffset, length)
// (_newTypedArrayFromArrayBuffer): establishes the invariant every other C17 harness assumes.

// refCtorOutcome: ECMA-262 23.2.5.1.3 InitializeTypedArrayFromArrayBuffer. 0 ok, 1 RangeError, 2 TypeError
func refCtorOutcome(offAbsent bool, offI int64, lenAbsent bool, lenI int64, detached bool, size int, n int) int {
	off := int64(0)
	if !offAbsent {
		if offI < 0 || offI > (1<<53)-1 {
			return 1
		}
		off = offI
		if off%int64(size) != 0 {
			return 1
		}
	}
	if !lenAbsent {
		if lenI < 0 || lenI > (1<<53)-1 {
			return 1
		}
	}
	if detached {
		return 2
	}
	if lenAbsent {
		if n%size != 0 {
			return 1
		}
		if int64(n)-off < 0 {
			return 1
		}
		return 0
	}
	if off+lenI*int64(size) > int64(n) {
		return 1
	}
	return 0
}

func vC17Ctor(r *Runtime, kind int) typedArrayObjectCtor {
	switch kind {
	case vkUint8:
		return r.newUint8ArrayObject
	case vkInt16:
		return r.newInt16ArrayObject
	case vkUint32:
		return r.newUint32ArrayObject
	}
	return r.newFloat64ArrayObject
}

func H_C17_ctorFromBuffer() {
	r := vRuntime()
	ks := vNondetInt("kindsel")
	vAssume(ks >= 0 && ks < len(vC17KindsBySize))
	if nk := vBound("KINDS"); nk > 0 {
		vAssume(ks < nk)
	}
	ks = vConcretize(ks)
	kind := vC17KindsBySize[ks]
	size := vElemSize(kind)
	short := vNondetInt("short")
	vAssume(short >= 0 && short <= 1)
	short = vConcretize(short)
	n := vBound("L") - short
	ab := r._newArrayBuffer(nil, nil)
	ab.data = vNondetBytes("data", n)
	which := vNondetInt("detachAt") // -2 before the call, -1 never, 0 byteOffset coercion, 1 length coercion
	vAssume(which >= -2 && which <= 1)
	if which == -2 {
		ab.detach()
	}
	effect := func(k int) func() {
		return func() {
			if which == k {
				ab.detach()
			}
		}
	}
	offArg := vC17IntArg("byteOffset", effect(0))
	lenArg := vC17IntArg("length", effect(1))
	offAbsent := vNondetBool("byteOffset.undefined")
	lenAbsent := vNondetBool("length.undefined")
	args := []Value{ab.val, offArg, lenArg}
	if offAbsent {
		vAssume(which != 0)
		args[1] = _undefined
	}
	if lenAbsent {
		vAssume(which != 1)
		args[2] = _undefined
	}
	nt := &Object{runtime: r}
	ntb := &baseObject{class: classObject, val: nt, extensible: true}
	nt.self = ntb
	ntb.init()
	ctor := vC17Ctor(r, kind)
	var res *Object
	out := vCatch(func() { res = r._newTypedArrayFromArrayBuffer(ab, args, nt, ctor, nil) })
	want := refCtorOutcome(offAbsent, offArg.i, lenAbsent, lenArg.i, ab.detached, size, n)
	vAssert("ctor:outcome==spec", vC17OutcomeCode(out) == want)
	if !out.panicked {
		vAssert("ctor:result", res != nil)
		ta := res.self.(*typedArrayObject)
		off := int64(0)
		if !offAbsent {
			off = offArg.i
		}
		wantLen := (int64(n) - off) / int64(size)
		if !lenAbsent {
			wantLen = lenArg.i
		}
		vAssert("ctor:same-buffer", ta.viewedArrayBuf == ab)
		vAssert("ctor:offset", int64(ta.offset)*int64(size) == off)
		vAssert("ctor:length", int64(ta.length) == wantLen)
		vAssert("ctor:invariant-inside-buffer", ta.offset >= 0 && ta.length >= 0 && (ta.offset+ta.length)*size <= len(ab.data))
	}
}

// ---------------------------------------------------------------------
// H17.2 at / reverse / with

var vC17CurKind int

// symbolic-mode replacement of Runtime.typedArrayCreate for `with` (default constructor, no species):
// a fresh array of the receiver's kind over a fresh zeroed buffer of args[0] elements
func vC17StubTypedArrayCreate(r *Runtime, ctor *Object, args ...Value) *typedArrayObject {
	n := vConcretize(int(args[0].ToInteger()))
	buf := r._newArrayBuffer(nil, nil)
	buf.data = make([]byte, n*vElemSize(vC17CurKind))
	return vC17NewTA(r, vC17CurKind, buf, 0, n)
}

func vC17EnsureCtors(r *Runtime) {
	if !vSymbolic() {
		r.getUint8Array()
		r.getUint8ClampedArray()
		r.getInt8Array()
		r.getUint16Array()
		r.getInt16Array()
		r.getUint32Array()
		r.getInt32Array()
		r.getFloat32Array()
		r.getFloat64Array()
	}
}

// refC17RelIndex: at/with: index < 0 ? len + index : index  (-1 = invalid)
func refC17RelIndex(i int64, l int64) int64 {
	k := i
	if i < 0 {
		if i < -l {
			return -1
		}
		k = l + i
	}
	if k >= l {
		return -1
	}
	return k
}

func H_C17_at() {
	w := vC17WorldG("w", vC17KindsInt, 1)
	d := vC17NewDetacher(w, 1)
	idx := vC17IntArg("index", d.effect(0))
	var res Value
	out := vCatch(func() { res = w.r.typedArrayProto_at(FunctionCall{This: w.ta.val, Arguments: []Value{idx}}) })
	vAssert("at:no-throw", !out.panicked)
	if out.panicked {
		return
	}
	l := int64(w.ta.length)
	k := refC17RelIndex(idx.i, l)
	N := vBound("N")
	off := w.ta.offset
	var want int64
	for j := 0; j < N && off+j < N; j++ {
		e := refC17ElemInt(w.kind, vRawAt(w.before, (off+j)*w.size, w.size))
		if int64(j) == k {
			want = e
		}
	}
	vAssert("at:result-defined", res != nil)
	if w.buf.detached || k < 0 {
		vAssert("at:undefined", res == _undefined)
	} else {
		vAssert("at:not-undefined", res != _undefined)
		if res != _undefined {
			vAssert("at:value==RawBytesToNumeric", res.ToInteger() == want)
		}
	}
}

func H_C17_reverse() {
	w := vC17World("w", vC17KindsBySize)
	pre := vNondetBool("detachedBefore")
	if pre {
		w.buf.detach()
	}
	out := vCatch(func() { w.r.typedArrayProto_reverse(FunctionCall{This: w.ta.val}) })
	if pre {
		vAssert("reverse:detached-TypeError", out.panicked && out.kind == "TypeError")
	} else {
		vAssert("reverse:no-throw", !out.panicked)
	}
	voff := w.ta.offset * w.size
	vlen := w.ta.length * w.size
	ok := true
	for p := 0; p < w.n; p++ {
		src := refReverseSrc(p, voff, vlen, w.size, pre)
		if w.orig[p] != vC17Pick(w.before, src) {
			ok = false
		}
	}
	vAssert("reverse:bytes==model", ok)
}

// refReverseSrc: byte p of the buffer after reversing the elements of the view [voff, voff+vlen)
func refReverseSrc(p, voff, vlen, size int, detached bool) int {
	if detached || p < voff || p >= voff+vlen {
		return p
	}
	e := (p - voff) / size
	b := (p - voff) % size
	n := vlen / size
	return voff + (n-1-e)*size + b
}

func H_C17_with() {
	w := vC17WorldG("w", vC17KindsInt, 1)
	vC17CurKind = w.kind
	vC17EnsureCtors(w.r)
	if !vSymbolic() {
		w.ta = vC17NewTA(w.r, w.kind, w.buf, w.ta.offset, w.ta.length) // now with a real defaultCtor
	}
	d := vC17NewDetacher(w, 2)
	idx := vC17IntArg("index", d.effect(0))
	val := vC17NumArg("value", d.effect(1))
	var res Value
	out := vCatch(func() { res = w.r.typedArrayProto_with(FunctionCall{This: w.ta.val, Arguments: []Value{idx, val}}) })
	l := int64(w.ta.length)
	k := refC17RelIndex(idx.i, l)
	detached := w.buf.detached
	// ECMA-262 23.2.3.36 step 9: not a valid integer index (also: detached) -> RangeError
	wantThrow := detached || k < 0
	vAssert("with:throw-iff-invalid-index", out.panicked == wantThrow)
	if out.panicked {
		vAssert("with:RangeError", out.kind == "RangeError")
		return
	}
	// the receiver's buffer is untouched
	same := true
	for p := 0; p < w.n; p++ {
		if w.orig[p] != w.before[p] {
			same = false
		}
	}
	vAssert("with:receiver-unchanged", same)
	o, isObj := res.(*Object)
	vAssert("with:returns-object", isObj)
	if !isObj {
		return
	}
	a, isTA := o.self.(*typedArrayObject)
	vAssert("with:returns-typed-array", isTA)
	if !isTA {
		return
	}
	vAssert("with:fresh-buffer", a.viewedArrayBuf != w.buf)
	vAssert("with:length", int64(a.length) == l && a.offset == 0 && len(a.viewedArrayBuf.data) >= a.length*w.size)
	voff := w.ta.offset * w.size
	raw := refC17RawInt(w.kind, val.i)
	ok := true
	nd := a.viewedArrayBuf.data
	for q := 0; q < len(nd) && q < a.length*w.size; q++ {
		expect := refWithByte(vC17Pick(w.before, voff+q), q, int(k), w.size, raw)
		if nd[q] != expect {
			ok = false
		}
	}
	vAssert("with:bytes==model", ok)
}

func refWithByte(old byte, q int, k int, size int, raw uint64) byte {
	if q >= k*size && q < (k+1)*size {
		return byte(raw >> (8 * uint(q-k*size)))
	}
	return old
}

// ---------------------------------------------------------------------
// H17.2 indexOf / includes on Float32Array / Float64Array: the elements are compared as NUMBERS
// (IsStrictlyEqual for indexOf, SameValueZero for includes) with the search value.

var vC17KindsFloat = []int{vkFloat32, vkFloat64}

func refFloatMatch(ev float64, se float64, includes bool) bool {
	if ev == se {
		return true
	}
	return includes && ev != ev && se != se
}

func H_C17_searchFloat() {
	op := vNondetInt("op") // 0 indexOf, 1 includes
	vAssume(op >= 0 && op <= 1)
	op = vConcretize(op)
	w := vC17WorldG("w", vC17KindsFloat, 2)
	sev := vNumber("search")
	se := sev.ToFloat()
	call := FunctionCall{This: w.ta.val, Arguments: []Value{sev}}
	var res Value
	out := vCatch(func() {
		if op == 0 {
			res = w.r.typedArrayProto_indexOf(call)
		} else {
			res = w.r.typedArrayProto_includes(call)
		}
	})
	vAssert("searchFloat:no-throw", !out.panicked)
	if out.panicked {
		return
	}
	want := int64(-1)
	negZeroElem := false
	for k := w.ta.length - 1; k >= 0; k-- {
		raw := vRawAt(w.before, (w.ta.offset+k)*w.size, w.size)
		ev := refValueOfRaw(w.kind, raw)
		if refFloatMatch(ev, se, op == 1) {
			want = int64(k)
		}
		if ev == 0 && raw != 0 {
			negZeroElem = true
		}
	}
	// known: goja compares raw element bits with the raw bits of the search value ROUNDED to the element
	// type. Failing class: (a) includes(NaN) (payload-dependent), (b) search value 0 with a -0 element,
	// (c) Float32Array and a search value that is not representable as a float32
	nanClass := op == 1 && se != se
	zeroClass := se == 0 && negZeroElem
	f32Class := w.kind == vkFloat32 && float64(float32(se)) != se
	known := nanClass || zeroClass || f32Class
	vAssert("searchFloat:result-defined", res != nil)
	if op == 1 {
		vAssertK("searchFloat:includes==SameValueZero", res.ToBoolean() == (want >= 0), known, "F-C17-float-search-raw-compare")
	} else {
		vAssertK("searchFloat:indexOf==StrictEquality", res.ToInteger() == want, known, "F-C17-float-search-raw-compare")
	}
}

// ---------------------------------------------------------------------
// H17.2 subarray(begin, end): the new view requested from the (default) constructor lies inside the
// receiver's VIEW. Symbolically typedArraySpeciesCreate is replaced by the default path without user
// code: the real _newTypedArrayFromArrayBuffer on the receiver's buffer with the arguments goja computed.

func vC17StubSpeciesCreate(r *Runtime, ta *typedArrayObject, args []Value) *typedArrayObject {
	nt := &Object{runtime: r}
	ntb := &baseObject{class: classObject, val: nt, extensible: true}
	nt.self = ntb
	ntb.init()
	ab := args[0].(*Object).self.(*arrayBufferObject)
	o := r._newTypedArrayFromArrayBuffer(ab, args, nt, vC17Ctor(r, vC17CurKind), nil)
	return o.self.(*typedArrayObject)
}

func H_C17_subarray() {
	w := vC17World("w", vC17KindsBySize)
	vC17CurKind = w.kind
	vC17EnsureCtors(w.r)
	if !vSymbolic() {
		w.ta = vC17NewTA(w.r, w.kind, w.buf, w.ta.offset, w.ta.length)
	}
	d := vC17NewDetacher(w, 2)
	begin := vC17IntArg("begin", d.effect(0))
	end := vC17IntArg("end", d.effect(1))
	args := []Value{begin, end}
	if vNondetBool("end.undefined") {
		vAssume(d.which != 1)
		args[1] = _undefined
	}
	var res Value
	out := vCatch(func() { res = w.r.typedArrayProto_subarray(FunctionCall{This: w.ta.val, Arguments: args}) })
	l := int64(w.ta.length)
	rb := refRelIdx(begin.i, l)
	re := l
	if args[1] != _undefined {
		re = refRelIdx(end.i, l)
	}
	nl := re - rb
	if nl < 0 {
		nl = 0
	}
	detached := w.buf.detached
	// the constructor (InitializeTypedArrayFromArrayBuffer step 4) throws TypeError on a detached buffer
	vAssert("subarray:throw-iff-detached", out.panicked == detached)
	if out.panicked {
		vAssert("subarray:TypeError", out.kind == "TypeError")
		return
	}
	o, isObj := res.(*Object)
	vAssert("subarray:returns-object", isObj)
	if !isObj {
		return
	}
	a, isTA := o.self.(*typedArrayObject)
	vAssert("subarray:returns-typed-array", isTA)
	if !isTA {
		return
	}
	vAssert("subarray:same-buffer", a.viewedArrayBuf == w.buf)
	vAssert("subarray:offset", int64(a.offset) == int64(w.ta.offset)+rb)
	vAssert("subarray:length", int64(a.length) == nl)
	vAssert("subarray:inside-the-view", a.offset >= w.ta.offset && a.offset+a.length <= w.ta.offset+w.ta.length)
}
