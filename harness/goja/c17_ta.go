package goja

import "math"

// ---------------------------------------------------------------------
// C17 world: one ArrayBuffer with symbolic contents, one typed-array view with symbolic
// element type / offset / length under the constructor's invariant.

type vTAWorld struct {
	r      *Runtime
	buf    *arrayBufferObject
	ta     *typedArrayObject
	kind   int
	size   int
	n      int    // byte length of the buffer at creation
	orig   []byte // the Go slab behind the buffer (kept: must never be written after detach)
	before []byte // snapshot of the contents at creation
}

const (
	vkUint8 = iota
	vkUint8Clamped
	vkInt8
	vkUint16
	vkInt16
	vkUint32
	vkInt32
	vkFloat32
	vkFloat64
	vkNumKinds
)

func vElemSize(kind int) int {
	switch kind {
	case vkUint8, vkUint8Clamped, vkInt8:
		return 1
	case vkUint16, vkInt16:
		return 2
	case vkUint32, vkInt32, vkFloat32:
		return 4
	}
	return 8
}

func vNewTAWorld(name string) *vTAWorld {
	w := &vTAWorld{r: vRuntime()}
	maxL := vBound("L")
	n := vNondetInt(name + ".buflen")
	vAssume(n >= 0 && n <= maxL)
	n = vConcretize(n)
	w.n = n
	w.orig = vNondetBytes(name+".data", n)
	w.before = append([]byte{}, w.orig...)
	w.buf = w.r._newArrayBuffer(nil, nil)
	w.buf.data = w.orig
	kind := vNondetInt(name + ".kind")
	vAssume(kind >= 0 && kind < vkNumKinds)
	kind = vConcretize(kind)
	w.kind = kind
	w.size = vElemSize(kind)
	off := vNondetInt(name + ".offset")
	length := vNondetInt(name + ".length")
	vAssume(off >= 0)
	vAssume(length >= 0)
	vAssume(off <= n)
	vAssume(length <= n)
	vAssume((off+length)*w.size <= n)
	switch kind {
	case vkUint8:
		w.ta = w.r.newUint8ArrayObject(w.buf, off, length, nil)
	case vkUint8Clamped:
		w.ta = w.r.newUint8ClampedArrayObject(w.buf, off, length, nil)
	case vkInt8:
		w.ta = w.r.newInt8ArrayObject(w.buf, off, length, nil)
	case vkUint16:
		w.ta = w.r.newUint16ArrayObject(w.buf, off, length, nil)
	case vkInt16:
		w.ta = w.r.newInt16ArrayObject(w.buf, off, length, nil)
	case vkUint32:
		w.ta = w.r.newUint32ArrayObject(w.buf, off, length, nil)
	case vkInt32:
		w.ta = w.r.newInt32ArrayObject(w.buf, off, length, nil)
	case vkFloat32:
		w.ta = w.r.newFloat32ArrayObject(w.buf, off, length, nil)
	default:
		w.ta = w.r.newFloat64ArrayObject(w.buf, off, length, nil)
	}
	return w
}

// refRaw: NumericToRawBytes for a Number, little-endian, as a uint64 of `size` bytes
func refRaw(kind int, num Value) uint64 {
	bits := vNumberBits(num)
	switch kind {
	case vkUint8, vkInt8:
		return uint64(refToUint8(bits))
	case vkUint8Clamped:
		return uint64(refToUint8Clamp(bits))
	case vkUint16, vkInt16:
		return uint64(refToUint16(bits))
	case vkUint32, vkInt32:
		return uint64(refToUint32(bits))
	case vkFloat32:
		return uint64(math.Float32bits(float32(math.Float64frombits(bits))))
	}
	return bits
}

// refValueOfRaw: RawBytesToNumeric: the Number a raw element denotes (as a float64; NaNs compare equal)
func refValueOfRaw(kind int, raw uint64) float64 {
	switch kind {
	case vkUint8, vkUint8Clamped:
		return float64(uint8(raw))
	case vkInt8:
		return float64(int8(raw))
	case vkUint16:
		return float64(uint16(raw))
	case vkInt16:
		return float64(int16(raw))
	case vkUint32:
		return float64(uint32(raw))
	case vkInt32:
		return float64(int32(raw))
	case vkFloat32:
		return float64(math.Float32frombits(uint32(raw)))
	}
	return math.Float64frombits(raw)
}

func vRawAt(b []byte, pos, size int) uint64 {
	var r uint64
	for j := 0; j < size; j++ {
		r |= uint64(b[pos+j]) << (8 * uint(j))
	}
	return r
}

// H17.1a: indexed read with any int index: inside the buffer, value per RawBytesToNumeric, undefined outside the view
func H_C17_getIdx() {
	w := vNewTAWorld("w")
	idx := vNondetInt("idx")
	v := w.ta._getIdx(idx)
	if idx >= 0 && idx < w.ta.length {
		vAssert("get:in-range-defined", v != nil)
		if v != nil {
			want := refValueOfRaw(w.kind, vRawAt(w.before, (w.ta.offset+idx)*w.size, w.size))
			vAssert("get:value==RawBytesToNumeric", vSameNumberValue(v.ToFloat(), want))
			vAssert("get:canonical", refCanonicalNumber(v))
		}
	} else {
		vAssert("get:out-of-range-undefined", v == nil)
	}
}

// NaN payloads are not observable by script: all NaNs are the same Number
func vSameNumberValue(a, b float64) bool {
	if a != a || b != b {
		return a != a && b != b
	}
	return vFloat64bits(a) == vFloat64bits(b)
}

// H17.1b: indexed write with any index and a value whose coercion may detach the buffer
func H_C17_putIdx() {
	w := vNewTAWorld("w")
	idx := vNondetInt("idx")
	detaches := vNondetBool("valueOf.detaches")
	val := vNewValue("val", func() {
		if detaches {
			w.buf.detach()
		}
	})
	out := vCatch(func() { w.ta._putIdx(idx, val) })
	vAssert("put:no-throw", !out.panicked)
	vAssert("put:coerced-once", *val.fired == 1)
	raw := refRaw(w.kind, val.num)
	lo := (w.ta.offset + idx) * w.size
	written := idx >= 0 && idx < w.ta.length && !detaches
	// the Go slab must be written only when the buffer is still attached and the index is valid
	// the encoding of NaN is implementation-defined (ECMA-262 NumericToRawBytes): only "decodes to NaN" is required
	f := val.num.ToFloat()
	nanStore := (w.kind == vkFloat32 || w.kind == vkFloat64) && f != f
	ok := true
	for p := 0; p < w.n; p++ {
		expect := w.before[p]
		if written && p >= lo && p < lo+w.size {
			expect = byte(raw >> (8 * uint(p-lo)))
			if nanStore {
				expect = w.orig[p]
			}
		}
		if w.orig[p] != expect {
			ok = false
		}
	}
	vAssert("put:bytes==NumericToRawBytes", ok)
	if written && nanStore {
		got := refValueOfRaw(w.kind, vRawAt(w.orig, lo, w.size))
		vAssert("put:NaN-stored-as-NaN", got != got)
	}
}
