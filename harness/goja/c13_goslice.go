package goja

import (
	"math"

	"github.com/dop251/goja/unistring"
)

// ---------------------------------------------------------------------
// C13 / H13.1 — objectGoSlice (the wrapper ToValue creates for a Go []interface{} / *[]interface{}) is
// a live view of the Go slice: after every script-side operation and every Go-side mutation the Go slice
// seen through the pointer equals the reference model (written from the documented behaviour: "the
// slice is extended/truncated like an Array; vacated and newly exposed slots hold nil"), slots between
// len and cap are nil, script reads see the Go value, and no index / length makes the host panic.

type vC13World struct {
	r    *Runtime
	o    *objectGoSlice
	data *[]interface{}
	hw   int // high-water mark of len(*data): slots at or above it were never handed to the wrapper and may be stale
}

// symbolic-mode stand-in for Runtime.ToValue on the element kinds used here (identity on Values,
// int64 -> Number, nil -> null: README "ToValue" table)
func vC13StubToValue(r *Runtime, i interface{}) Value {
	switch i := i.(type) {
	case nil:
		return _null
	case Value:
		return i
	case int64:
		return intToValue(i)
	}
	panic("vC13StubToValue: element kind outside the harness")
}

func vC13NewSlice() *vC13World {
	w := &vC13World{r: vRuntime()}
	n := vNondetInt("len")
	c := vNondetInt("cap")
	vAssume(n >= 0 && n <= vBound("L") && c >= n && c <= vBound("C"))
	vAssume(c == n || c == vBound("C") || vBound("allcaps") != 0)
	n = vConcretize(n)
	c = vConcretize(c)
	// the spare capacity holds stale non-nil elements (what a Go-side truncation s = s[:n] leaves behind):
	// a script-side grow within the capacity must not expose them (seed C13_m3)
	s := make([]interface{}, c, c)
	for i := range s {
		s[i] = int64(100 + i)
	}
	s = s[:n]
	d := new([]interface{})
	*d = s
	w.data = d
	w.hw = n
	if vSymbolic() {
		obj := &Object{runtime: w.r}
		o := &objectGoSlice{baseObject: baseObject{val: obj}, data: d, origIsPtr: true}
		o.class = classArray
		o.extensible = true
		obj.self = o
		w.o = o
	} else {
		w.o = w.r.newObjectGoSlice(d, true)
	}
	return w
}

func vC13Same(a, b interface{}) bool {
	if a == nil || b == nil {
		return a == nil && b == nil
	}
	x, ok1 := a.(int64)
	y, ok2 := b.(int64)
	return ok1 && ok2 && x == y
}

// refC13Huge: class of the known finding F-C13-goslice-huge-index (index/length whose allocation
// exceeds what Go can allocate)
func refC13Huge(idx int64) bool { return idx >= 1<<40 }

var vC13HugeIdx = [...]int64{1000000000000000, 1 << 53, 1 << 62, math.MaxInt64 - 1, math.MaxInt64}

// vC13Idx: any int64 index, except the band where the wrapper would really allocate gigabytes
// (len+G .. 2^40), see outside_bounds; huge indices are drawn from a fixed list
func vC13Idx(name string, curLen int) int64 {
	if vNondetBool(name + ".huge") {
		k := vNondetInt(name + ".hugeSel")
		vAssume(k >= 0 && k < len(vC13HugeIdx))
		k = vConcretize(k)
		return vC13HugeIdx[k]
	}
	idx := vNondetInt64(name)
	vAssume(idx < int64(curLen+vBound("G")))
	if idx >= 0 {
		return int64(vConcretize(int(idx)))
	}
	return idx
}

// invariant + agreement between the script view and the Go view
func (w *vC13World) check(tag string) {
	s := *w.data
	full := s[:cap(s)]
	tailNil := true
	for i := len(s); i < len(full); i++ {
		if i < w.hw && full[i] != nil {
			tailNil = false
		}
	}
	if len(s) > w.hw {
		w.hw = len(s)
	}
	vAssert(tag+":slots-between-len-and-cap-are-nil", tailNil)
	// script reads: every index in range sees the Go element; any index out of range is absent
	agree := true
	for p := range s {
		if !w.o.hasOwnPropertyIdx(valueInt(p)) {
			agree = false
		}
		got := w.o.getIdx(valueInt(p), nil)
		e := s[p]
		if e == nil {
			if got != _null {
				agree = false
			}
		} else {
			ei, ok := e.(int64)
			gi, ok2 := got.(valueInt)
			if !ok || !ok2 || int64(gi) != ei {
				agree = false
			}
		}
	}
	vAssert(tag+":script-reads==go-slice", agree)
	q := vNondetInt64(tag + ".probe")
	vAssume(q < 0 || q >= int64(len(s)))
	vAssert(tag+":out-of-range-absent", !w.o.hasOwnPropertyIdx(valueInt(q)) && w.o.getOwnPropIdx(valueInt(q)) == nil)
}

// one step: a script-side or Go-side operation, then the Go slice must equal the model
func (w *vC13World) step(tag string) {
	before := append([]interface{}{}, (*w.data)...)
	oldLen := len(before)
	op := vNondetInt(tag + ".op")
	vAssume(op >= 0 && op < 5)
	op = vConcretize(op)
	x := int64(7)
	throw := vNondetBool(tag + ".throw")
	switch op {
	case 0: // a[idx] = x
		idx := vC13Idx(tag+".idx", oldLen)
		var res bool
		var out vOutcome
		p := vC01Guard(func() { out = vCatch(func() { res = w.o.setOwnIdx(valueInt(idx), valueInt(x), throw) }) })
		vAssertK(tag+":set-no-go-panic", !p, refC13Huge(idx), "F-C13-goslice-huge-index")
		if p {
			return
		}
		s := *w.data
		if refC13Huge(idx) {
			// beyond any possible slice length: RangeError, nothing changes (was a host panic, fixed)
			vAssert(tag+":set-huge-RangeError", out.panicked && out.kind == "RangeError")
			vAssert(tag+":set-huge-len", len(s) == oldLen)
			return
		}
		if idx < 0 {
			// not an index of a Go slice: rejected (TypeError in strict code), nothing changes
			vAssert(tag+":set-negative-rejected", !res && out.panicked == throw && (!throw || out.kind == "TypeError"))
			vAssert(tag+":set-negative-len", len(s) == oldLen)
		} else {
			vAssert(tag+":set-ok", res && !out.panicked)
			wantLen := int64(oldLen)
			if idx >= wantLen {
				wantLen = idx + 1
			}
			vAssert(tag+":set-len", int64(len(s)) == wantLen)
		}
		ok := true
		for i := range s {
			var want interface{}
			if i < oldLen {
				want = before[i]
			}
			if int64(i) == idx {
				want = x
			}
			if !vC13Same(s[i], want) {
				ok = false
			}
		}
		vAssert(tag+":set-elements==model", ok)
	case 1: // a.length = n
		n := vNondetUint32(tag + ".newLen")
		vAssume(int(n) <= oldLen+vBound("G"))
		n = uint32(vConcretize(int(n)))
		var res bool
		p := vC01Guard(func() { res = w.o.putLength(n, throw) })
		vAssert(tag+":putLength-no-go-panic", !p)
		if p {
			return
		}
		s := *w.data
		vAssert(tag+":putLength-ok", res)
		vAssert(tag+":putLength-len", len(s) == int(n))
		ok := true
		for i := range s {
			var want interface{}
			if i < oldLen {
				want = before[i]
			}
			if !vC13Same(s[i], want) {
				ok = false
			}
		}
		vAssert(tag+":putLength-elements==model", ok)
	case 2: // delete a[idx]
		idx := vNondetInt64(tag + ".idx")
		if idx >= 0 && idx < int64(oldLen) {
			idx = int64(vConcretize(int(idx)))
		}
		var res bool
		p := vC01Guard(func() { res = w.o.deleteIdx(valueInt(idx), throw) })
		vAssert(tag+":delete-no-go-panic", !p)
		if p {
			return
		}
		s := *w.data
		vAssert(tag+":delete-ok", res)
		vAssert(tag+":delete-len", len(s) == oldLen)
		ok := true
		for i := range s {
			want := before[i]
			if int64(i) == idx {
				want = nil
			}
			if !vC13Same(s[i], want) {
				ok = false
			}
		}
		vAssert(tag+":delete-elements==model", ok)
	case 3: // Go side: append
		*w.data = append(*w.data, x)
	case 4: // Go side: element write
		j := vNondetInt(tag + ".j")
		vAssume(j >= 0 && j < oldLen)
		j = vConcretize(j)
		(*w.data)[j] = x
	}
	w.check(tag)
}

func H_C13_goslice() {
	w := vC13NewSlice()
	k := vBound("K")
	if k >= 1 {
		w.step("s1")
	}
	if k >= 2 {
		w.step("s2")
	}
	if k >= 3 {
		w.step("s3")
	}
}

// symbolic-mode stand-in for valueInt.string (decimal formatting of a symbolic int64 = 64-bit divisions):
// only used to build the property name in the rejection message / prototype lookup of a negative index
func vC13StubIntString(i valueInt) unistring.String { return "<negative index>" }
