package goja

import "github.com/dop251/goja/unistring"

// ---------------------------------------------------------------------
// C04 / H04.2 — OrdinarySet (10.1.9.2) through Object.setStr / setIdx / setSym on a chain o -> P -> Q -> R of
// ordinary objects with an arbitrary receiver; the three key kinds must agree with the reference and
// therefore with each other.

// key state of one object: 0 absent, 1 plain writable value, 2 read-only data record
const (
	vksAbsent = iota
	vksPlain
	vksReadOnly
)

type vC04SetWorld struct {
	objs   [5]*Object // o, P, Q, R, U(unrelated)
	bases  [5]*baseObject
	state  [5]int
	kind   int // 0 string key, 1 index key, 2 symbol key
	sym    *Symbol
	name   unistring.String
	idxKey valueInt
}

func (w *vC04SetWorld) put(i int, v Value) {
	b := w.bases[i]
	if w.kind == 2 {
		if b.symValues == nil {
			b.symValues = newOrderedMap(nil)
		}
		b.symValues.set(w.sym, v)
		return
	}
	b.values[w.name] = v
	b.propNames = append(b.propNames, w.name)
}

func (w *vC04SetWorld) own(i int) Value {
	if w.kind == 2 {
		return w.bases[i].getOwnPropSym(w.sym)
	}
	return w.bases[i].values[w.name]
}

// refC04OrdinarySet: result and index of the object that receives the value (-1: none), all concrete
func refC04OrdinarySet(state [5]int, recv int, recvExtensible bool) (ok bool, target int) {
	// 1-2. ownDesc = first holder on the chain o,P,Q,R; none: a writable data descriptor
	for i := 0; i < 4; i++ {
		if state[i] != vksAbsent {
			if state[i] == vksReadOnly {
				return false, -1 // 2.a
			}
			break
		}
	}
	// 2.b receiver is an object here; 2.c existingDescriptor
	if state[recv] == vksReadOnly {
		return false, -1
	}
	if state[recv] == vksPlain {
		return true, recv
	}
	// 2.e CreateDataProperty(Receiver, P, V)
	if !recvExtensible {
		return false, -1
	}
	return true, recv
}

func hC04Set(kind int) {
	r := vRuntime()
	w := &vC04SetWorld{kind: kind, sym: &Symbol{desc: asciiString("s")}, name: "k", idxKey: 3}
	if kind == 1 {
		w.name = "3"
	}
	recv := vC04Choice("receiver", 0, 4)
	recvExt := vNondetBool("receiver.extensible")
	for i := 0; i < 5; i++ {
		w.objs[i], w.bases[i] = vC04Obj(r, true)
	}
	w.bases[recv].extensible = recvExt
	w.bases[0].prototype = w.objs[1]
	w.bases[1].prototype = w.objs[2]
	w.bases[2].prototype = w.objs[3]
	w.state[0] = vC04Choice("o.key", 0, 1)
	w.state[1] = vC04Choice("P.key", 0, 2)
	w.state[2] = vC04Choice("Q.key", 0, 2)
	w.state[4] = vC04Choice("U.key", 0, 2)
	// a receiver equal to o goes through setOwn*, which is H04.1's territory only when the key is own: keep it
	var recs [5]*valueProperty
	for i := 0; i < 5; i++ {
		switch w.state[i] {
		case vksPlain:
			w.put(i, valueInt(10+int64(i)))
		case vksReadOnly:
			recs[i] = &valueProperty{value: valueInt(10 + int64(i)), enumerable: true, configurable: true}
			w.put(i, recs[i])
		}
	}
	throw := vNondetBool("throw")
	val := valueInt(7)

	var res bool
	out := vCatch(func() {
		switch kind {
		case 0:
			res = w.objs[0].setStr(w.name, val, w.objs[recv], throw)
		case 1:
			res = w.objs[0].setIdx(w.idxKey, val, w.objs[recv], throw)
		default:
			res = w.objs[0].setSym(w.sym, val, w.objs[recv], throw)
		}
	})
	expOK, target := refC04OrdinarySet(w.state, recv, recvExt)
	// F-C04-setForeignSym-receiver: the symbol path compares the receiver with the wrong object
	known := kind == 2 && w.state[0] == vksAbsent && w.state[1] == vksAbsent &&
		((recv == 1 && w.state[2] != vksReadOnly) || (recv == 2 && w.state[2] == vksAbsent))

	vAssert("set:only-TypeError", refImp(out.panicked, out.kind == "TypeError"))
	vAssertK("set:result==OrdinarySet", out.panicked == refAnd(!expOK, throw) && refOr(out.panicked, res == expOK), known, "F-C04-setForeignSym-receiver")
	// only the receiver may change, and it changes exactly on success
	stateOK := true
	for i := 0; i < 5; i++ {
		got := w.own(i)
		var want Value
		switch w.state[i] {
		case vksPlain:
			want = valueInt(10 + int64(i))
		case vksReadOnly:
			want = recs[i]
			if recs[i].value != valueInt(10+int64(i)) {
				stateOK = false
			}
		}
		if i == target {
			want = val
		}
		if !vC04SetSame(got, want) {
			stateOK = false
		}
	}
	vAssertK("set:only-the-receiver-gets-the-value", stateOK, known, "F-C04-setForeignSym-receiver")
}

// the stored property is `want` (a created data property may be stored as a plain value or as an all-true record)
func vC04SetSame(got, want Value) bool {
	if got == nil || want == nil {
		return got == nil && want == nil
	}
	if p, ok := got.(*valueProperty); ok {
		if wp, ok := want.(*valueProperty); ok {
			return p == wp
		}
		return !p.accessor && p.writable && p.enumerable && p.configurable && p.value == want
	}
	return got == want
}

func H_C04_set_str() { hC04Set(0) }
func H_C04_set_idx() { hC04Set(1) }
func H_C04_set_sym() { hC04Set(2) }
