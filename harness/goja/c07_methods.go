package goja

// H07.6 fast paths of Array.prototype methods on "standard" arrays and H07.5 sort.

// vC07CatchAll: like vCatch but also reports host (Go runtime) panics instead of letting them escape, so
// that a known host panic can be tracked as a finding with vAssertK.
func vC07CatchAll(f func()) (out vOutcome, goPanic bool) {
	defer func() {
		if x := recover(); x != nil {
			k := vClassify(x)
			out.panicked = true
			out.kind = k
			if k == "GoPanic" {
				goPanic = true
			}
		}
	}()
	f()
	return
}

type vC07Std struct {
	r    *Runtime
	a    *arrayObject
	n    int
	vals []Value
}

var vC07ArrayProto *Object

// prototype chain as checkStdArrayObjWithProto expects it: Array.prototype (an arrayObject) -> Object.prototype
func vC07Protos(r *Runtime) *Object {
	op := &Object{runtime: r}
	bo := &baseObject{class: classObject, val: op, extensible: true}
	bo.init()
	op.self = bo
	ap := r.newArray(op)
	return ap.val
}

// a standard array: all slots plain values, length == len(values) == objCount, S nil slots of spare capacity
func vC07NewStd(proto *Object) *vC07Std {
	w := &vC07Std{r: vRuntime()}
	n := vNondetInt("std.len")
	vAssume(n >= 0 && n <= vBound("N"))
	n = vConcretize(n)
	w.n = n
	a := w.r.newArray(proto)
	a.values = make([]Value, n, n+vBound("S"))
	w.vals = make([]Value, n)
	for i := 0; i < n; i++ {
		v := valueInt(int64(vNondetInt8("std.val")))
		a.values[i] = v
		w.vals[i] = v
	}
	a.length = uint32(n)
	a.objCount = n
	w.a = a
	return w
}

// symbolic-mode replacement of arraySpeciesCreate (needs the global Array constructor): a fresh standard array
func vStubC07SpeciesCreate(obj *Object, size int64) *Object {
	a := obj.runtime.newArray(obj.self.proto())
	a.setLength(uint32(size), true)
	return a.val
}

func vC07SmallInt(lo, hi int) Value {
	i := vNondetInt("arg")
	vAssume(i >= lo && i <= hi)
	return valueInt(int64(vConcretize(i)))
}

func vC07Rel(rel, l int) int {
	if rel < 0 {
		rel += l
		if rel < 0 {
			rel = 0
		}
		return rel
	}
	if rel > l {
		rel = l
	}
	return rel
}

// H07.6a splice on a standard array (compact fast path): result, receiver contents, bookkeeping,
// and the cleared tail that expand() later re-slices into
func H_C07_std_splice() {
	w := vC07NewStd(vC07Protos(vRuntime()))
	a := w.a
	n := w.n
	startV := vC07SmallInt(-n-1, n+1)
	dcV := vC07SmallInt(-1, n+1)
	items := vNondetInt("items")
	vAssume(items >= 0 && items <= vBound("I"))
	items = vConcretize(items)
	args := []Value{startV, dcV}
	ins := make([]Value, items)
	for i := range ins {
		ins[i] = valueInt(int64(vNondetInt8("item")))
		args = append(args, ins[i])
	}
	var res Value
	out := vCatch(func() { res = w.r.arrayproto_splice(FunctionCall{This: a.val, Arguments: args}) })
	vAssert("splice:no-throw", !out.panicked)
	if out.panicked {
		return
	}
	start := vC07Rel(int(startV.(valueInt)), n)
	dc := int(dcV.(valueInt))
	if dc < 0 {
		dc = 0
	}
	if dc > n-start {
		dc = n - start
	}
	// expected receiver: old[:start] ++ items ++ old[start+dc:]
	want := make([]Value, 0, n+items)
	want = append(want, w.vals[:start]...)
	want = append(want, ins...)
	want = append(want, w.vals[start+dc:]...)
	vAssert("splice:length", a.length == uint32(len(want)))
	vAssert("splice:len(values)", len(a.values) == len(want))
	if len(a.values) == len(want) {
		same := true
		for i := range want {
			if a.values[i] != want[i] {
				same = false
			}
		}
		vAssert("splice:receiver-contents", same)
	}
	vAssert("splice:vacated-tail-cleared", vC07SpareNil(a))
	oc, pc := vC07DenseCounts(a)
	vAssert("splice:objCount", a.objCount == oc)
	vAssert("splice:propValueCount", a.propValueCount == pc)
	ro, _ := res.(*Object)
	vAssert("splice:returns-array", ro != nil)
	if ro == nil {
		return
	}
	ra, _ := ro.self.(*arrayObject)
	vAssert("splice:result-is-dense-array", ra != nil)
	if ra == nil {
		return
	}
	vAssert("splice:result-length", ra.length == uint32(dc) && len(ra.values) == dc)
	if len(ra.values) == dc {
		same := true
		for i := 0; i < dc; i++ {
			if ra.values[i] != w.vals[start+i] {
				same = false
			}
		}
		vAssert("splice:result-contents", same)
	}
	// a later write with a gap must see holes, not resurrected elements (what the cleared tail is for)
	if len(a.values)+1 < cap(a.values) {
		gap := uint32(len(a.values) + 1)
		a._setOwnIdx(gap, valueInt(7), true)
		vAssert("splice:gap-after-write-is-hole", a.values[gap-1] == nil)
	}
}

// the search methods with a fromIndex whose coercion runs one real mutator on the receiver
const (
	vC07FxNone    = 0
	vC07FxShrink  = 1 // a.splice(k): consistent truncation to k elements
	vC07FxGrow    = 2 // a.push(v)
	vC07NumEffect = 3
)

type vC07Search struct {
	w       *vC07Std
	from    *vValue
	fromInt int
	effect  int
	k       int
	search  Value
}

func vC07NewSearch() *vC07Search {
	s := &vC07Search{w: vC07NewStd(vC07Protos(vRuntime()))}
	a := s.w.a
	e := vNondetInt("effect")
	vAssume(e >= 0 && e < vC07NumEffect)
	s.effect = vConcretize(e)
	if s.effect == vC07FxShrink {
		k := vNondetInt("effect.k")
		vAssume(k >= 0 && k <= s.w.n)
		s.k = vConcretize(k)
	}
	r := s.w.r
	s.from = vNewValue("from", func() {
		switch s.effect {
		case vC07FxShrink:
			r.arrayproto_splice(FunctionCall{This: a.val, Arguments: []Value{valueInt(int64(s.k))}})
		case vC07FxGrow:
			r.arrayproto_push(FunctionCall{This: a.val, Arguments: []Value{valueInt(100)}})
		}
	})
	fi := vNondetInt("from.int")
	vAssume(fi >= -s.w.n-1 && fi <= s.w.n+1)
	s.fromInt = fi
	s.from.num = valueInt(int64(fi))
	s.search = valueInt(int64(vNondetInt8("search")))
	return s
}

// refC07IndexOf: ECMA-262 23.1.3.17 over "length read before the coercion, elements read after it";
// cur* = contents after the coercion (m elements, at most 5), len0 = length before
func refC07IndexOf(len0, from int, m int, c0, c1, c2, c3, c4 int64, search int64) int {
	if len0 == 0 || from >= len0 {
		return -1
	}
	k := from
	if from < 0 {
		k = len0 + from
		if k < 0 {
			k = 0
		}
	}
	cur := [5]int64{c0, c1, c2, c3, c4}
	for i := 0; i < 5; i++ {
		if i >= k && i < len0 && i < m && cur[i] == search {
			return i
		}
	}
	return -1
}

func refC07LastIndexOf(len0, from int, m int, c0, c1, c2, c3, c4 int64, search int64) int {
	if len0 == 0 {
		return -1
	}
	k := from
	if from >= 0 {
		if k > len0-1 {
			k = len0 - 1
		}
	} else {
		k = len0 + from
	}
	cur := [5]int64{c0, c1, c2, c3, c4}
	for i := 4; i >= 0; i-- {
		if i <= k && i < m && cur[i] == search {
			return i
		}
	}
	return -1
}

func (s *vC07Search) current() (m int, c [5]int64) {
	a := s.w.a
	m = len(a.values)
	for i := 0; i < m && i < 5; i++ {
		if v, ok := a.values[i].(valueInt); ok {
			c[i] = int64(v)
		}
	}
	return
}

// known class: the coercion shrank the array below the index the fast path then uses
func (s *vC07Search) staleStart() bool {
	return s.effect == vC07FxShrink && s.k < s.w.n
}

func H_C07_std_indexOf_mutatingFromIndex() {
	s := vC07NewSearch()
	var res Value
	out, goPanic := vC07CatchAll(func() {
		res = s.w.r.arrayproto_indexOf(FunctionCall{This: s.w.a.val, Arguments: []Value{s.search, s.from}})
	})
	vAssertK("indexOf:no-host-panic", !goPanic, s.staleStart(), "F-C07-fastpath-index-after-coercion")
	if goPanic {
		return
	}
	vAssert("indexOf:no-throw", !out.panicked)
	m, c := s.current()
	want := refC07IndexOf(s.w.n, s.fromInt, m, c[0], c[1], c[2], c[3], c[4], int64(s.search.(valueInt)))
	got, _ := res.(valueInt)
	// same finding: elements appended by the coercion are searched although they lie beyond the length read before it
	vAssertK("indexOf:result", res != nil && int(got) == want, s.effect == vC07FxGrow, "F-C07-fastpath-index-after-coercion")
}

func H_C07_std_includes_mutatingFromIndex() {
	s := vC07NewSearch()
	var res Value
	out, goPanic := vC07CatchAll(func() {
		res = s.w.r.arrayproto_includes(FunctionCall{This: s.w.a.val, Arguments: []Value{s.search, s.from}})
	})
	vAssertK("includes:no-host-panic", !goPanic, s.staleStart(), "F-C07-fastpath-index-after-coercion")
	if goPanic {
		return
	}
	vAssert("includes:no-throw", !out.panicked)
	m, c := s.current()
	want := refC07IndexOf(s.w.n, s.fromInt, m, c[0], c[1], c[2], c[3], c[4], int64(s.search.(valueInt))) >= 0
	vAssertK("includes:result", res == Value(valueBool(want)), s.effect == vC07FxGrow, "F-C07-fastpath-index-after-coercion")
}

func H_C07_std_lastIndexOf_mutatingFromIndex() {
	s := vC07NewSearch()
	var res Value
	out, goPanic := vC07CatchAll(func() {
		res = s.w.r.arrayproto_lastIndexOf(FunctionCall{This: s.w.a.val, Arguments: []Value{s.search, s.from}})
	})
	vAssertK("lastIndexOf:no-host-panic", !goPanic, s.staleStart(), "F-C07-fastpath-index-after-coercion")
	if goPanic {
		return
	}
	vAssert("lastIndexOf:no-throw", !out.panicked)
	m, c := s.current()
	want := refC07LastIndexOf(s.w.n, s.fromInt, m, c[0], c[1], c[2], c[3], c[4], int64(s.search.(valueInt)))
	got, _ := res.(valueInt)
	vAssert("lastIndexOf:result", res != nil && int(got) == want)
}

// ---------------------------------------------------------------------
// H07.5 sort

func vC07Func(r *Runtime, f func(FunctionCall) Value) *Object {
	o := &Object{runtime: r}
	fo := &nativeFuncObject{f: f}
	fo.class = classFunction
	fo.val = o
	fo.extensible = true
	o.self = fo
	return o
}

// elements carry key*8+originalIndex so that stability is observable; the comparator orders by key only
func vC07NewSortArray() (*vC07Std, []int64) {
	w := &vC07Std{r: vRuntime()}
	n := vNondetInt("sort.len")
	vAssume(n >= 0 && n <= vBound("N"))
	n = vConcretize(n)
	w.n = n
	a := w.r.newArray(nil)
	a.values = make([]Value, n)
	enc := make([]int64, n)
	for i := 0; i < n; i++ {
		key := vNondetInt8("sort.key")
		vAssume(key >= 0 && key < 4)
		enc[i] = int64(key)*8 + int64(i)
		a.values[i] = valueInt(enc[i])
	}
	a.length = uint32(n)
	a.objCount = n
	w.a = a
	return w, enc
}

func vC07IsPermutation(a *arrayObject, enc []int64) bool {
	if len(a.values) != len(enc) {
		return false
	}
	ok := true
	for _, e := range enc {
		cnt := 0
		for _, v := range a.values {
			if vi, isInt := v.(valueInt); isInt && int64(vi) == e {
				cnt++
			}
		}
		if cnt != 1 {
			ok = false
		}
	}
	return ok
}

// consistent comparator (numeric order on the key): output sorted, stable, a permutation
func H_C07_sort_consistent() {
	w, enc := vC07NewSortArray()
	cmp := vC07Func(w.r, func(c FunctionCall) Value {
		x, y := int64(c.Arguments[0].(valueInt)), int64(c.Arguments[1].(valueInt))
		return valueInt(x>>3 - y>>3)
	})
	out := vCatch(func() { w.r.arrayproto_sort(FunctionCall{This: w.a.val, Arguments: []Value{cmp}}) })
	vAssert("sort:no-throw", !out.panicked)
	vAssert("sort:permutation", vC07IsPermutation(w.a, enc))
	sorted := true
	for i := 1; i < len(w.a.values); i++ {
		p, q := int64(w.a.values[i-1].(valueInt)), int64(w.a.values[i].(valueInt))
		// key ascending; equal keys keep their original order (the original index is in the low bits)
		if p >= q {
			sorted = false
		}
	}
	vAssert("sort:sorted-and-stable", sorted)
}

// arbitrary (inconsistent) comparator results, including -0 and NaN: no element lost or duplicated;
// a comparator answering "equal" (+0, -0 or NaN) for every pair leaves the order unchanged
func H_C07_sort_arbitraryComparator() {
	w, enc := vC07NewSortArray()
	allZero := true
	negZero := false
	cmp := vC07Func(w.r, func(c FunctionCall) Value {
		var res Value
		switch k := vConcretize(vC07Choice("cmp.kind", 4)); k {
		case 0:
			res = valueInt(int64(vNondetInt8("cmp.int")))
			if res.(valueInt) != 0 {
				allZero = false
			}
		case 1:
			res = _negativeZero
			negZero = true
		case 2:
			res = _NaN
		default:
			res = _positiveZero
		}
		return res
	})
	out := vCatch(func() { w.r.arrayproto_sort(FunctionCall{This: w.a.val, Arguments: []Value{cmp}}) })
	vAssert("sort.any:no-throw", !out.panicked)
	vAssert("sort.any:permutation", vC07IsPermutation(w.a, enc))
	if allZero {
		same := len(w.a.values) == len(enc)
		for i := 0; same && i < len(enc); i++ {
			if w.a.values[i] != Value(valueInt(enc[i])) {
				same = false
			}
		}
		// known finding: a comparator result of -0 is treated as "less than"
		vAssertK("sort.any:all-equal-keeps-order", same, negZero, "F-C07-sort-negzero-comparator")
	}
}

func vC07Choice(name string, n int) int {
	k := vNondetInt("choice")
	vAssume(k >= 0 && k < n)
	return k
}

// comparator whose effect truncates the receiver: the in-place fast path must stay in bounds
func H_C07_sort_mutatingComparator() {
	w, _ := vC07NewSortArray()
	a := w.a
	k := vNondetInt("truncate.to")
	vAssume(k >= 0 && k <= w.n)
	k = vConcretize(k)
	calls := 0
	cmp := vC07Func(w.r, func(c FunctionCall) Value {
		calls++
		if calls == 1 {
			a.setLength(uint32(k), true)
		}
		x, y := int64(c.Arguments[0].(valueInt)), int64(c.Arguments[1].(valueInt))
		return valueInt(x>>3 - y>>3)
	})
	out, goPanic := vC07CatchAll(func() { w.r.arrayproto_sort(FunctionCall{This: a.val, Arguments: []Value{cmp}}) })
	shrunk := calls > 0 && k < w.n
	vAssertK("sort.mut:no-host-panic", !goPanic, shrunk, "F-C07-sort-comparator-truncates")
	if !goPanic {
		vAssert("sort.mut:no-throw", !out.panicked)
		vAssert("sort.mut:length>=len(values)", a.length >= uint32(len(a.values)))
	}
}
