package goja

// H07.2 — the storage bookkeeping is an invariant: one inductive step per mutator from an arbitrary valid state.

func vC07AssertDenseInv(a *arrayObject) {
	oc, pc := vC07DenseCounts(a)
	vAssert("inv:propValueCount==#property-slots", a.propValueCount == pc)
	vAssert("inv:objCount==#non-hole-slots", a.objCount == oc)
	vAssert("inv:length>=len(values)", a.length >= uint32(len(a.values)))
	vAssert("inv:spare-capacity-nil", vC07SpareNil(a))
}

func vC07AssertSparseInv(a *sparseArrayObject) {
	vAssert("inv:items-sorted-unique-below-length-nonnil", vC07SparseWellFormed(a))
	vAssert("inv:propValueCount==#property-items", a.propValueCount == vC07SparseProps(a))
}

// small index: any index up to one past the capacity (beyond that expand() allocates idx+1 slots or switches
// to sparse storage: see H07.3)
func vC07SmallIdx(limit int) uint32 {
	i := vNondetInt("idx")
	vAssume(i >= 0 && i <= limit)
	return uint32(vConcretize(i))
}

func (w *vC07Dense) othersUnchanged(except uint32) bool {
	a := w.a
	ok := true
	for i := 0; i < w.n; i++ {
		if uint32(i) != except && (i >= len(a.values) || a.values[i] != w.elems[i].val) {
			ok = false
		}
	}
	for i := w.n; i < len(a.values); i++ {
		if uint32(i) != except && a.values[i] != nil {
			ok = false
		}
	}
	return ok
}

// dense [[Set]] of an index (receiver == the array, no indexed properties on the prototype chain)
func H_C07_dense_setOwnIdx() {
	w := vC07NewDense(nil)
	a := w.a
	a.extensible = vNondetBool("extensible")
	ext := a.extensible
	lenWritable := a.lengthProp.writable
	idx := vC07SmallIdx(w.n + w.spare + 1)
	throw := vNondetBool("throw")
	val := valueInt(int64(vNondetInt32("val")))
	var ret bool
	out := vCatch(func() { ret = a._setOwnIdx(idx, val, throw) })

	// reference: OrdinarySet -> (existing data property ? writable : extensible && ArrayDefineOwnProperty's length rule)
	kind := vC07Hole
	if int(idx) < w.n {
		kind = w.elems[idx].kind
	}
	wantOK := true
	switch kind {
	case vC07Hole:
		wantOK = ext && (idx < w.len0 || lenWritable)
	case vC07Prop:
		wantOK = w.elems[idx].wr
	}
	vAssert("set:result", out.panicked || ret == wantOK)
	vAssert("set:TypeError-iff-rejected-and-throw", out.panicked == (!wantOK && throw))
	wantLen := w.len0
	if wantOK && idx >= w.len0 {
		wantLen = idx + 1
	}
	vAssert("set:length", a.length == wantLen)
	vAssert("set:others-unchanged", w.othersUnchanged(idx))
	if wantOK {
		var got Value
		if int(idx) < len(a.values) {
			got = a.values[idx]
		}
		if kind == vC07Prop {
			vAssert("set:property-kept-and-value-stored", got == w.elems[idx].val && w.elems[idx].prop.value == Value(val))
		} else {
			vAssert("set:value-stored", got == Value(val))
		}
	} else if int(idx) < w.n {
		vAssert("set:rejected-slot-unchanged", a.values[idx] == w.elems[idx].val)
	}
	vC07AssertDenseInv(a)
}

// dense delete
func H_C07_dense_deleteIdx() {
	vC07ToStringCalls = 0
	w := vC07NewDense(nil)
	a := w.a
	idx := vNondetUint32("idx")
	if idx < uint32(w.n) {
		idx = uint32(vConcretize(int(idx)))
	}
	throw := vNondetBool("throw")
	var ret bool
	if !vSymbolic() {
		// natively the stringification of the array is observed through an own toString method
		a.val.self.setOwnStr("toString", vRuntime().ToValue(func(FunctionCall) Value {
			vC07ToStringCalls++
			return asciiString("x")
		}), false)
	}
	out := vCatch(func() { ret = a._deleteIdxProp(idx, throw) })
	blocked := false
	for i := 0; i < w.n; i++ {
		b := uint32(i) == idx && w.elems[i].kind == vC07Prop && !w.elems[i].conf
		if b {
			blocked = true
		}
	}
	vAssert("delete:result", out.panicked || ret == !blocked)
	vAssert("delete:TypeError-iff-nonconfigurable-and-throw", out.panicked == (blocked && throw))
	// a delete that does not throw runs no user code (no stringification of the array for an unused message)
	vAssert("delete:no-user-code-unless-throwing", throw || vC07ToStringCalls == 0)
	vAssert("delete:length-unchanged", a.length == w.len0)
	vAssert("delete:others-unchanged", w.othersUnchanged(idx))
	if idx < uint32(w.n) && len(a.values) == w.n {
		if blocked {
			vAssert("delete:blocked-kept", a.values[idx] == w.elems[idx].val)
		} else {
			vAssert("delete:slot-is-hole", a.values[idx] == nil)
		}
	}
	vC07AssertDenseInv(a)
}

func vC07Flag(name string) Flag {
	f := vNondetInt(name)
	vAssume(f >= int(FLAG_NOT_SET) && f <= int(FLAG_TRUE))
	return Flag(f)
}

// vC07DataDescriptor: thorough tier (bound D=1): every data/generic descriptor; quick tier: the shapes that
// exercise each storage outcome (plain value, new property object, in-place update)
func vC07DataDescriptor() PropertyDescriptor {
	d := PropertyDescriptor{}
	if vBound("D") > 0 {
		if vNondetBool("desc.hasValue") {
			d.Value = valueInt(int64(vNondetInt32("desc.value")))
		}
		d.Writable = vC07Flag("desc.writable")
		d.Enumerable = vC07Flag("desc.enumerable")
		d.Configurable = vC07Flag("desc.configurable")
		return d
	}
	shape := vNondetInt("desc.shape")
	vAssume(shape >= 0 && shape <= 4)
	shape = vConcretize(shape)
	v := valueInt(int64(vNondetInt32("desc.value")))
	switch shape {
	case 0: // what createDataProperty / array literals use: stored as a plain value
		d = PropertyDescriptor{Value: v, Writable: FLAG_TRUE, Enumerable: FLAG_TRUE, Configurable: FLAG_TRUE}
	case 1:
		d = PropertyDescriptor{Value: v}
	case 2:
		d = PropertyDescriptor{Configurable: FLAG_FALSE}
	case 3:
		d = PropertyDescriptor{Value: v, Writable: FLAG_FALSE, Enumerable: FLAG_FALSE, Configurable: FLAG_FALSE}
	case 4:
		d = PropertyDescriptor{Writable: FLAG_TRUE}
	}
	return d
}

// dense [[DefineOwnProperty]] of an index with a data / generic descriptor: bookkeeping only
// (the descriptor validation itself is C04's subject)
func H_C07_dense_defineIdx() {
	w := vC07NewDense(nil)
	a := w.a
	a.extensible = vNondetBool("extensible")
	idx := vC07SmallIdx(w.n + w.spare + 1)
	desc := vC07DataDescriptor()
	throw := vNondetBool("throw")
	var ret bool
	out := vCatch(func() { ret = a._defineIdxProperty(idx, desc, throw) })
	existed := int(idx) < w.n && w.elems[idx].kind != vC07Hole
	vAssert("define:throws-only-if-throw", !out.panicked || throw)
	if out.panicked {
		vAssert("define:kind", out.kind == "TypeError")
	}
	if ret && !out.panicked {
		vAssert("define:slot-present", int(idx) < len(a.values) && a.values[idx] != nil)
		vAssert("define:length-covers-idx", a.length > idx)
		if existed {
			vAssert("define:length-unchanged", a.length == w.len0)
		}
	} else {
		vAssert("define:rejected-length-unchanged", a.length == w.len0)
		if int(idx) < w.n {
			vAssert("define:rejected-slot-identity", a.values[idx] == w.elems[idx].val)
		}
	}
	vAssert("define:others-unchanged", w.othersUnchanged(idx))
	oc, pc := vC07DenseCounts(a)
	// known finding: redefining an existing element counts it again
	redefined := existed && ret && !out.panicked
	vAssertK("define:propValueCount==#property-slots", a.propValueCount == pc, redefined, "F-C07-define-recount")
	vAssertK("define:objCount==#non-hole-slots", a.objCount == oc, redefined, "F-C07-define-recount")
	vAssert("define:length>=len(values)", a.length >= uint32(len(a.values)))
	vAssert("define:spare-capacity-nil", vC07SpareNil(a))
}

// H07.3 (thin) dense -> sparse transition in arrayObject.expand: the abstract array and the counters survive
func H_C07_dense_expand_toSparse() {
	w := vC07NewDense(nil)
	a := w.a
	idx := vNondetUint32("idx")
	vAssume(idx > 4096 && idx != 0xFFFFFFFF)
	vAssume(idx >= w.len0 || w.len0 > idx) // any length
	oc0, pc0 := w.counts()
	stays := a.expand(idx)
	vAssert("expand:switches-to-sparse", !stays) // <= N objects and idx > 4096 => idx/objCount > 10
	if stays {
		return
	}
	sa, ok := a.val.self.(*sparseArrayObject)
	vAssert("expand:self-is-sparse", ok)
	if !ok {
		return
	}
	vAssert("expand:length-kept", sa.length == w.len0)
	vAssert("expand:length-writable-kept", sa.lengthProp.writable == a.lengthProp.writable)
	vAssert("expand:extensible-kept", sa.extensible == a.extensible)
	vAssert("expand:item-count", len(sa.items) == oc0)
	vAssert("expand:propValueCount-kept", sa.propValueCount == pc0)
	j := 0
	same := true
	for i := 0; i < w.n; i++ {
		if w.elems[i].kind != vC07Hole {
			if j >= len(sa.items) || sa.items[j].idx != uint32(i) || sa.items[j].value != w.elems[i].val {
				same = false
			}
			j++
		}
	}
	vAssert("expand:items==non-hole-slots", same)
	vAssert("expand:length-prop-rebound", sa.getOwnPropStr("length") == Value(&sa.lengthProp))
	vC07AssertSparseInv(sa)
}

// ---------------------------------------------------------------------
// sparse mutators

func (w *vC07Sparse) find(idx uint32) (pos int, found bool) {
	// position of idx among the original items (number of items below idx)
	for i := 0; i < w.m; i++ {
		if w.idx[i] < idx {
			pos++
		}
		if w.idx[i] == idx {
			found = true
		}
	}
	return
}

// every original item except the one at index `except` is still there, in order, unchanged (merge walk)
func (w *vC07Sparse) othersUnchanged(except uint32) bool {
	a := w.a
	ok := true
	j := 0
	for i := 0; i < w.m; i++ {
		if w.idx[i] == except {
			continue
		}
		if j < len(a.items) && a.items[j].idx == except {
			j++
		}
		if j >= len(a.items) || a.items[j].idx != w.idx[i] || a.items[j].value != w.elems[i].val {
			ok = false
		}
		j++
	}
	return ok
}

func vC07SparseGet(a *sparseArrayObject, idx uint32) Value {
	var v Value
	for _, it := range a.items {
		if it.idx == idx {
			v = it.value
		}
	}
	return v
}

func H_C07_sparse_setOwnIdx() {
	w := vC07NewSparse(nil)
	a := w.a
	a.extensible = vNondetBool("extensible")
	ext := a.extensible
	lenWritable := a.lengthProp.writable
	idx := vNondetUint32("idx")
	vAssume(idx != 0xFFFFFFFF)
	throw := vNondetBool("throw")
	val := valueInt(int64(vNondetInt32("val")))
	var ret bool
	out := vCatch(func() { ret = a._setOwnIdx(idx, val, throw) })

	_, found := w.find(idx)
	isProp, wr := false, false
	for i := 0; i < w.m; i++ {
		hit := w.idx[i] == idx
		if hit && w.elems[i].kind == vC07Prop {
			isProp = true
			wr = w.elems[i].wr
		}
	}
	wantOK := true
	if !found {
		wantOK = ext && (idx < w.len0 || lenWritable)
	} else if isProp {
		wantOK = wr
	}
	vAssert("sparse.set:result", out.panicked || ret == wantOK)
	vAssert("sparse.set:TypeError-iff-rejected-and-throw", out.panicked == (!wantOK && throw))
	wantLen := w.len0
	if wantOK && idx >= w.len0 {
		wantLen = idx + 1
	}
	vAssert("sparse.set:length", a.length == wantLen)
	wantCount := w.m
	if wantOK && !found {
		wantCount++
	}
	vAssert("sparse.set:item-count", len(a.items) == wantCount)
	got := vC07SparseGet(a, idx)
	if wantOK && !isProp {
		vAssert("sparse.set:value-stored", got == Value(val))
	}
	if wantOK && isProp {
		pv, _ := got.(*valueProperty)
		vAssert("sparse.set:property-kept-and-value-stored", pv != nil && pv.value == Value(val))
	}
	vAssert("sparse.set:others-unchanged", w.othersUnchanged(idx))
	vC07AssertSparseInv(a)
}

func H_C07_sparse_deleteIdx() {
	vC07ToStringCalls = 0
	w := vC07NewSparse(nil)
	a := w.a
	idx := vNondetUint32("idx")
	throw := vNondetBool("throw")
	var ret bool
	if !vSymbolic() {
		// natively the stringification of the array is observed through an own toString method
		a.val.self.setOwnStr("toString", vRuntime().ToValue(func(FunctionCall) Value {
			vC07ToStringCalls++
			return asciiString("x")
		}), false)
	}
	out := vCatch(func() { ret = a._deleteIdxProp(idx, throw) })
	blocked := false
	for i := 0; i < w.m; i++ {
		b := w.idx[i] == idx && w.elems[i].kind == vC07Prop && !w.elems[i].conf
		if b {
			blocked = true
		}
	}
	_, found := w.find(idx)
	vAssert("sparse.delete:result", out.panicked || ret == !blocked)
	vAssert("sparse.delete:TypeError-iff-nonconfigurable-and-throw", out.panicked == (blocked && throw))
	// a delete that does not throw runs no user code (no stringification of the array for an unused message)
	vAssert("sparse.delete:no-user-code-unless-throwing", throw || vC07ToStringCalls == 0)
	vAssert("sparse.delete:length-unchanged", a.length == w.len0)
	wantCount := w.m
	if found && !blocked {
		wantCount--
	}
	vAssert("sparse.delete:item-count", len(a.items) == wantCount)
	vAssert("sparse.delete:others-unchanged", w.othersUnchanged(idx))
	vC07AssertSparseInv(a)
}

func H_C07_sparse_defineIdx() {
	w := vC07NewSparse(nil)
	a := w.a
	a.extensible = vNondetBool("extensible")
	idx := vNondetUint32("idx")
	vAssume(idx != 0xFFFFFFFF)
	desc := vC07DataDescriptor()
	throw := vNondetBool("throw")
	var ret bool
	out := vCatch(func() { ret = a._defineIdxProperty(idx, desc, throw) })
	_, found := w.find(idx)
	wasProp := false
	for i := 0; i < w.m; i++ {
		hit := w.idx[i] == idx && w.elems[i].kind == vC07Prop
		if hit {
			wasProp = true
		}
	}
	vAssert("sparse.define:throws-only-if-throw", !out.panicked || throw)
	okRes := ret && !out.panicked
	if okRes {
		vAssert("sparse.define:item-present", vC07SparseGet(a, idx) != nil)
		vAssert("sparse.define:length-covers-idx", a.length > idx)
		if found {
			vAssert("sparse.define:length-unchanged", a.length == w.len0)
		}
	} else {
		vAssert("sparse.define:rejected-length-unchanged", a.length == w.len0)
		vAssert("sparse.define:rejected-item-count", len(a.items) == w.m)
	}
	vAssert("sparse.define:others-unchanged", w.othersUnchanged(idx))
	vAssert("sparse.define:well-formed", vC07SparseWellFormed(a))
	// known finding: redefining an element that already is a property counts it again
	vAssertK("sparse.define:propValueCount==#property-items", a.propValueCount == vC07SparseProps(a), okRes && wasProp, "F-C07-define-recount")
}

// sparseArrayObject.add is only called for an index that is absent (after expand() declined)
func H_C07_sparse_add() {
	w := vC07NewSparse(nil)
	a := w.a
	idx := vNondetUint32("idx")
	_, found := w.find(idx)
	vAssume(!found && idx < w.len0)
	e := vC07NewElem(false)
	if e.kind == vC07Prop {
		a.propValueCount++ // the callers account for it
	}
	a.add(idx, e.val)
	vAssert("sparse.add:item-count", len(a.items) == w.m+1)
	vAssert("sparse.add:stored", vC07SparseGet(a, idx) == e.val)
	vAssert("sparse.add:others-unchanged", w.othersUnchanged(idx))
	vC07AssertSparseInv(a)
}

// the decimal property name is used for the error message only
func vStubC07FormatUint(i uint64, base int) string { return "idx" }

// H07.3b defining / writing an element far beyond the capacity of a dense array switches it to sparse storage:
// the new element and the counters must arrive there
func H_C07_dense_defineIdx_toSparse() {
	w := vC07NewDense(nil)
	a := w.a
	a.extensible = true
	a.lengthProp.writable = true
	idx := vNondetUint32("idx")
	vAssume(idx > 4096 && idx != 0xFFFFFFFF)
	useSet := vNondetBool("via.set")
	desc := vC07DataDescriptor()
	var ret bool
	out := vCatch(func() {
		if useSet {
			ret = a._setOwnIdx(idx, valueInt(5), true)
		} else {
			ret = a._defineIdxProperty(idx, desc, true)
		}
	})
	vAssert("toSparse:succeeds", ret && !out.panicked)
	sa, ok := a.val.self.(*sparseArrayObject)
	vAssert("toSparse:self-is-sparse", ok)
	if !ok {
		return
	}
	oc0, _ := w.counts()
	vAssert("toSparse:item-count", len(sa.items) == oc0+1)
	vAssert("toSparse:new-element-stored", vC07SparseGet(sa, idx) != nil)
	wantLen := w.len0
	if idx >= wantLen {
		wantLen = idx + 1
	}
	vAssert("toSparse:length", sa.length == wantLen)
	vAssert("toSparse:well-formed", vC07SparseWellFormed(sa))
	// known finding: a property element defined through the switching call is not counted
	_, isProp := vC07SparseGet(sa, idx).(*valueProperty)
	vAssertK("toSparse:propValueCount==#property-items", sa.propValueCount == vC07SparseProps(sa), isProp, "F-C07-define-switch-propcount")
}


// symbolic-mode replacement of (*Object).toString (stringifying an object runs user code): logged
var vC07ToStringCalls int

func vStubC07ObjToString(o *Object) String {
	vC07ToStringCalls++
	return asciiString("[object]")
}
