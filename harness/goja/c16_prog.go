package goja

import "github.com/dop251/goja/unistring"

// ---------------------------------------------------------------------
// H16.2: a run never writes to the scope name maps a compiled Program owns. The compiler builds one
// map per scope (scope.makeNamesMap, real code, run here on a scope with arbitrary binding flags) and
// embeds it in the enter* instruction; enterBlock/enterCatchBlock install that very map in the run's
// stash, enterFunc/enterFunc1/enterFuncBody copy it only when the function is `extensible` (its var
// scope is the target of a sloppy direct eval). Everything a run can do to a stash's names afterwards is
// done by eval code: `var` declarations (bindVars -> stash.createBinding on the nearest variable stash)
// and `delete name` (deleteVar -> stash.deleteBinding when the binding is a deletable var). Two runs A
// and B of the same Program (identical copies of its instructions, as two goroutines see them) execute
// enter-function, enter-block, then an arbitrary sequence of two such operations; every access to
// Program-owned memory is logged and any write conflicts with the other run's accesses.

type vC16Prog struct {
	fn    instruction
	block instruction
}

func vC16Names(tag string, sc *scope, n int) map[unistring.String]uint32 {
	names := []unistring.String{"a", "b"}
	for i := 0; i < n; i++ {
		b := &binding{scope: sc, name: names[i]}
		b.isConst = vNondetBool(tag + ".isConst")
		b.isStrict = vNondetBool(tag + ".isStrict")
		b.isVar = vNondetBool(tag + ".isVar")
		// compiler invariant (read off compiler.go: isStrict is only ever set together with isConst, on
		// bindings created by bindNameLexical for `const`/class declarations, which are never var bindings)
		vAssume(!b.isStrict || (b.isConst && !b.isVar))
		sc.bindings = append(sc.bindings, b)
	}
	return sc.makeNamesMap()
}

func vC16MakeProg(fnKind, blockKind, nF, nB int, extensible bool) *vC16Prog {
	p := &vC16Prog{}
	fsc := &scope{funcType: funcRegular, dynamic: extensible, variable: true}
	fnames := vC16Names("fn", fsc, nF)
	size := uint32(len(fnames))
	switch fnKind {
	case 0:
		p.fn = &enterFunc{names: fnames, stashSize: size, funcType: funcRegular, extensible: fsc.dynamic}
	case 1:
		p.fn = &enterFunc1{names: fnames, stashSize: size, funcType: funcRegular, extensible: fsc.dynamic}
	default:
		p.fn = &enterFuncBody{enterBlock: enterBlock{names: fnames, stashSize: size}, funcType: funcRegular, extensible: fsc.dynamic}
	}
	bsc := &scope{outer: fsc}
	bnames := vC16Names("block", bsc, nB)
	switch blockKind {
	case 0:
		p.block = &enterBlock{names: bnames, stashSize: uint32(len(bnames))}
	default:
		p.block = &enterCatchBlock{names: bnames, stashSize: uint32(len(bnames)) + 1}
	}
	return p
}

func vC16Name(k int) unistring.String {
	switch k {
	case 0:
		return "a"
	case 1:
		return "b"
	}
	return "zz"
}

// op sequences an eval can perform in the block: 0 `delete n0`; 1 `var n0` then `delete n1` (the only way a
// deletable binding comes to exist); 2 dynamic lookup of n0; 3 copyStash (per-iteration loop environment)
// then `delete n0`
func vC16Run(p *vC16Prog, seq, n0, n1 int, fromEval bool) {
	r := vRuntime()
	m := &vm{r: r}
	r.vm = m
	if vSymbolic() {
		g := &Object{runtime: r}
		bo := &baseObject{class: classObject, val: g, extensible: true}
		bo.init()
		g.self = bo
		r.globalObject = g
	}
	m.maxCallStackSize = 1 << 30
	m.stack = make(valueStack, 16)
	m.stack[0], m.stack[1] = _undefined, _undefined // callee, this
	m.sp = 2
	m.args = 0
	m.stash = &stash{funcType: funcRegular} // the caller's environment (its own map: not shared)
	m.prg = &Program{code: []instruction{p.fn, p.block}}
	p.fn.exec(m)
	if _, isCatch := p.block.(*enterCatchBlock); isCatch {
		m.push(valueInt(1)) // the caught value
	}
	p.block.exec(m)
	name0, name1 := vC16Name(n0), vC16Name(n1)
	_ = vCatch(func() {
		switch seq {
		case 0:
			deleteVar(name0).exec(m)
		case 1:
			// `var name` in sloppy direct eval code: only possible when the enclosing function's var
			// scope was marked dynamic by the compiler (compiler_expr.go: calleeName == "eval")
			if fromEval {
				(&bindVars{names: []unistring.String{name0}, deletable: true}).exec(m)
			}
			deleteVar(name1).exec(m)
		case 2:
			loadDynamic(name0).exec(m)
		default:
			copyStash{}.exec(m)
			deleteVar(name0).exec(m)
		}
	})
}

func H_C16_program_scope_maps_readonly() {
	fnKind := vChoice("enterFunc-kind", 3)
	blockKind := vChoice("enterBlock-kind", 2)
	nF := 1
	nB := 1 + vChoice("block.bindings-1", vBound("B"))
	extensible := vChoice("fn.extensible", 2) == 1
	seq := vChoice("ops", 4)
	n0 := vChoice("name0", 3)
	n1 := 0
	if seq == 1 {
		n1 = vChoice("name1", 3)
	}
	mk := func() *vC16Prog { return vC16MakeProg(fnKind, blockKind, nF, nB, extensible) }
	a := mk()
	vRaceBegin("A", a)
	vC16Run(a, seq, n0, n1, extensible)
	vRaceEnd()
	b := mk()
	vRaceBegin("B", b)
	vC16Run(b, seq, n0, n1, extensible)
	vRaceEnd()
	vAssertNoRace("program-scope-maps:no-write-by-a-run", "A", "B")
}

// ---------------------------------------------------------------------
// H16.3: the template-literal instruction getTaggedTmplObject hands the Program's own raw/cooked slices
// (of non-writable, non-configurable *valueProperty cells built by the compiler) to the arrays it
// creates for a run. Nothing script code can then do to those arrays may write into Program-owned
// memory: [[Set]], [[DefineOwnProperty]] with an arbitrary descriptor (including one that validates
// against the frozen element), [[Delete]], length changes. Two runs A and B on identical copies.

func vC16MakeTmpl() *getTaggedTmplObject {
	mk := func(s string) Value {
		return &valueProperty{enumerable: true, value: asciiString(s)}
	}
	return &getTaggedTmplObject{raw: []Value{mk("a"), mk("b")}, cooked: []Value{mk("a"), mk("b")}}
}

func vC16TmplRun(c *getTaggedTmplObject, useRaw bool, op, idx, vsel int, w, en, cf Flag) {
	r := vRuntime()
	m := &vm{r: r}
	r.vm = m
	m.maxCallStackSize = 1 << 30
	m.stack = make(valueStack, 8)
	m.prg = &Program{code: []instruction{c}}
	c.exec(m)
	target := m.stack[m.sp-1].(*Object)
	if useRaw {
		target = target.self.getStr("raw", nil).(*Object)
	}
	var val Value
	switch vsel {
	case 0:
		val = asciiString("a") // the current value of element 0
	case 1:
		val = asciiString("zz")
	}
	i := valueInt(int64(idx))
	_ = vCatch(func() {
		switch op {
		case 0:
			if val != nil {
				target.self.setOwnIdx(i, val, false)
			}
		case 1:
			target.self.defineOwnPropertyIdx(i, PropertyDescriptor{Value: val, Writable: w, Enumerable: en, Configurable: cf}, false)
		case 2:
			target.self.deleteIdx(i, false)
		case 3:
			target.self.setOwnStr("length", i, false)
		case 4:
			_ = target.self.getIdx(i, nil)
		default:
			target.self.defineOwnPropertyStr("length", PropertyDescriptor{Value: i, Writable: w}, false)
		}
	})
}

func H_C16_program_template_readonly() {
	useRaw := vChoice("target.raw", 2) == 1
	op := vChoice("op", 6)
	idx := vChoice("idx", 3)
	vsel := vChoice("value", 3)
	w, en, cf := vC04Flag("writable"), vC04Flag("enumerable"), vC04Flag("configurable")
	a := vC16MakeTmpl()
	vRaceBegin("A", a)
	vC16TmplRun(a, useRaw, op, idx, vsel, w, en, cf)
	vRaceEnd()
	b := vC16MakeTmpl()
	vRaceBegin("B", b)
	vC16TmplRun(b, useRaw, op, idx, vsel, w, en, cf)
	vRaceEnd()
	vAssertNoRace("program-template-cells:no-write-by-a-run", "A", "B")
}
