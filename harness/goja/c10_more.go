package goja

import "github.com/dop251/goja/unistring"

// ---------------------------------------------------------------------
// C10, third wave: thenable jobs (H10.3), then-chains on the default constructor path (H10.4), job order of
// several chains against a reference scheduler written from ECMA-262 27.2 (H10.5), promise capabilities
// and the Go-side NewPromise resolvers (H10.6).
//
// The world: natively a real Runtime (real Promise constructor/prototype); symbolically a bare Runtime whose
// global.Promise / global.PromisePrototype are hand-built ordinary objects (prototype.constructor = ctor,
// prototype.then = the REAL promiseProto_then), so that getPromise(), getPromisePrototype(),
// speciesConstructorObj and the `then` lookup of a promise run the real code on both sides.
// In every harness r.vm is a bare vm (as in H10.1).

const (
	vC10EvGet     = 1 // Get(thenable, "then")
	vC10EvThen    = 2 // thenable's then called
	vC10EvReactF  = 3 // fulfil handler ran
	vC10EvReactR  = 4 // reject handler ran
	vC10EvMarker  = 5 // a marker job ran
	vC10EvHandler = 6
)

type vC10Ev struct {
	kind int
	id   int
	arg  Value
}

type vC10Track struct {
	p  *Promise
	op PromiseRejectionOperation
}

type vC10W struct {
	r     *Runtime
	m     *vm
	log   []vC10Ev
	track []vC10Track
}

func vC10PlainObj(r *Runtime) *Object {
	o := &Object{runtime: r}
	b := &baseObject{class: classObject, val: o, extensible: true}
	b.init()
	o.self = b
	return o
}

func vC10New() *vC10W {
	w := &vC10W{r: vRuntime()}
	r := w.r
	m := &vm{r: r}
	w.m = m
	r.vm = m
	m.maxCallStackSize = 1 << 30
	m.stack = make(valueStack, 8)
	m.stash = &stash{}
	r.jobQueue = nil
	r.promiseRejectionTracker = func(p *Promise, op PromiseRejectionOperation) {
		w.track = append(w.track, vC10Track{p, op})
	}
	if vSymbolic() {
		ctor := vC10PlainObj(r)
		proto := vC10PlainObj(r)
		r.global.Promise = ctor
		r.global.PromisePrototype = proto
		proto.self._putProp("constructor", ctor, true, false, true)
		proto.self._putProp("then", r.newNativeFunc(r.promiseProto_then, "then", 2), true, false, true)
	}
	return w
}

func (w *vC10W) call(f *Object, this Value, args ...Value) Value {
	fn, ok := f.self.assertCallable()
	vAssert("callable", ok)
	return fn(FunctionCall{This: this, Arguments: args})
}

func (w *vC10W) ev(kind, id int, arg Value) { w.log = append(w.log, vC10Ev{kind, id, arg}) }

func (w *vC10W) count(kind, id int) int {
	n := 0
	for _, e := range w.log {
		if e.kind == kind && e.id == id {
			n++
		}
	}
	return n
}

// position of the first event (kind,id) in the log, -1 if absent
func (w *vC10W) pos(kind, id int) int {
	for i, e := range w.log {
		if e.kind == kind && e.id == id {
			return i
		}
	}
	return -1
}

// an object whose `then` (looked up through an observable getter) is the given native function
func (w *vC10W) thenable(id int, then func(FunctionCall) Value) *Object {
	r := w.r
	o := &Object{runtime: r}
	t := &vThenable{baseObject: baseObject{class: classObject, val: o, extensible: true}}
	t.baseObject.init()
	o.self = t
	fn := r.newNativeFunc(then, "then", 2)
	t.onThen = func() Value {
		w.ev(vC10EvGet, id, nil)
		return fn
	}
	return o
}

func (w *vC10W) reactionPair(id int) (*promiseReaction, *promiseReaction) {
	f := &promiseReaction{typ: promiseReactionFulfill, handler: &jobCallback{callback: func(c FunctionCall) Value {
		w.ev(vC10EvReactF, id, c.Argument(0))
		return _undefined
	}}}
	j := &promiseReaction{typ: promiseReactionReject, handler: &jobCallback{callback: func(c FunctionCall) Value {
		w.ev(vC10EvReactR, id, c.Argument(0))
		return _undefined
	}}}
	return f, j
}

// ---------------------------------------------------------------------
// H10.3: NewPromiseResolveThenableJob (27.2.2.2) and the resolve function's thenable branch (27.2.1.3.2
// steps 8-16). resolve(p, T1) where T1.then is a callable: nothing but Get(T1,"then") happens synchronously,
// exactly one job is enqueued; the job (FIFO with other jobs) calls then exactly once with this=T1 and two
// FRESH resolving functions of p; whatever the then does with them (resolve and reject, twice, throw after
// resolving, resolve with a second thenable T2 = nesting depth 2) the first call wins; a throw before any
// call rejects p; neither call leaves p pending for ever. The resolving functions handed to the executor are
// spent after resolve(p,T1) and the fresh ones are spent after their first use.

func H_C10_thenable_job() {
	w := vC10New()
	r := w.r
	p := r.newPromise(nil)
	resolve, reject := p.createResolvingFunctions()

	a1 := valueInt(vNondetInt64("a1"))
	a2 := valueInt(vNondetInt64("a2"))
	thrown := valueInt(vNondetInt64("thrown"))
	c := valueInt(vNondetInt64("c"))
	thrown2 := valueInt(vNondetInt64("thrown2"))
	late := valueInt(vNondetInt64("late"))

	act1 := vChoice("then1.first-action", 4)  // 0 none, 1 resolve(a1), 2 reject(a1), 3 resolve(T2)
	act2 := vChoice("then1.second-action", 3) // 0 none, 1 resolve(a2), 2 reject(a2)
	throws := vChoice("then1.throws-at-the-end", 2) == 1
	inner := 0
	if act1 == 3 {
		inner = vChoice("then2.action", 4) // 0 resolve(c), 1 reject(c), 2 throw, 3 resolve(c) then throw
	}
	attachLate := vChoice("reaction.attached-after-first-drain", 2) == 1

	var t1, t2 *Object
	var then1This, then2This Value
	var then1Args, then2Args int
	var fresh1Res, fresh1Rej, fresh2Res, fresh2Rej *Object

	t2 = w.thenable(2, func(call FunctionCall) Value {
		w.ev(vC10EvThen, 2, nil)
		then2This = call.This
		then2Args = len(call.Arguments)
		fresh2Res, _ = call.Argument(0).(*Object)
		fresh2Rej, _ = call.Argument(1).(*Object)
		switch inner {
		case 0:
			w.call(fresh2Res, _undefined, c)
		case 1:
			w.call(fresh2Rej, _undefined, c)
		case 2:
			panic(thrown2)
		case 3:
			w.call(fresh2Res, _undefined, c)
			panic(thrown2)
		}
		return _undefined
	})
	t1 = w.thenable(1, func(call FunctionCall) Value {
		w.ev(vC10EvThen, 1, nil)
		then1This = call.This
		then1Args = len(call.Arguments)
		fresh1Res, _ = call.Argument(0).(*Object)
		fresh1Rej, _ = call.Argument(1).(*Object)
		switch act1 {
		case 1:
			w.call(fresh1Res, _undefined, a1)
		case 2:
			w.call(fresh1Rej, _undefined, a1)
		case 3:
			w.call(fresh1Res, _undefined, t2)
		}
		switch act2 {
		case 1:
			w.call(fresh1Res, _undefined, a2)
		case 2:
			w.call(fresh1Rej, _undefined, a2)
		}
		if throws {
			panic(thrown)
		}
		return _undefined
	})

	if !attachLate {
		p.addReactions(w.reactionPair(0))
	}

	// ---- the synchronous part
	w.call(resolve, _undefined, t1)
	vAssert("sync:only-Get(then)-happened", len(w.log) == 1 && w.log[0].kind == vC10EvGet && w.log[0].id == 1)
	vAssert("sync:promise-still-pending", p.state == PromiseStatePending)
	vAssert("sync:exactly-one-job-enqueued", len(r.jobQueue) == 1)
	// the executor's functions are spent (alreadyResolved), also for the other one
	switch vChoice("executor-functions-called-again", 3) {
	case 1:
		w.call(resolve, _undefined, late)
	case 2:
		w.call(reject, _undefined, late)
	}
	vAssert("sync:second-call-ignored", p.state == PromiseStatePending && len(r.jobQueue) == 1 && len(w.log) == 1)
	// another job queued behind the thenable job
	r.enqueuePromiseJob(func() { w.ev(vC10EvMarker, 0, nil) })

	r.leave()
	vAssert("drain1:queue-empty", len(r.jobQueue) == 0)

	// ---- reference (27.2.1.3.1/2, 27.2.2.2)
	const (
		stPending = 0
		stFul     = 1
		stRej     = 2
		stWaitT2  = 3
	)
	st := stPending
	var val Value
	if act1 != 0 {
		st, val = act1, a1
	} else if act2 != 0 {
		st, val = act2, a2
	} else if throws {
		st, val = stRej, thrown
	}
	if st == stWaitT2 {
		switch inner {
		case 0, 3:
			st, val = stFul, c
		case 1:
			st, val = stRej, c
		case 2:
			st, val = stRej, thrown2
		}
	}
	trackAtDrain1 := len(w.track)
	if attachLate {
		vAssert("late:no-reaction-yet", w.count(vC10EvReactF, 0)+w.count(vC10EvReactR, 0) == 0)
		p.addReactions(w.reactionPair(0))
		r.leave()
		vAssert("drain2:queue-empty", len(r.jobQueue) == 0)
	}

	// then called exactly once, as a job, with the thenable as this and two fresh callable functions
	vAssert("then1:called-exactly-once", w.count(vC10EvThen, 1) == 1)
	vAssert("then1:Get-exactly-once", w.count(vC10EvGet, 1) == 1)
	vAssert("then1:this-is-thenable", then1This == Value(t1) && then1Args == 2)
	vAssert("then1:fresh-resolving-functions", fresh1Res != nil && fresh1Rej != nil && fresh1Res != resolve && fresh1Rej != reject && fresh1Res != fresh1Rej)
	if act1 == 3 {
		vAssert("then2:called-exactly-once", w.count(vC10EvThen, 2) == 1 && w.count(vC10EvGet, 2) == 1)
		vAssert("then2:this-is-thenable", then2This == Value(t2) && then2Args == 2)
		vAssert("then2:fresh-resolving-functions", fresh2Res != nil && fresh2Rej != nil && fresh2Res != fresh1Res && fresh2Rej != fresh1Rej && fresh2Res != resolve)
		// FIFO: then1, [Get T2 inside it], marker (queued before T2's job), then2
		vAssert("order:then1<Get2<marker<then2", w.pos(vC10EvThen, 1) < w.pos(vC10EvGet, 2) && w.pos(vC10EvGet, 2) < w.pos(vC10EvMarker, 0) && w.pos(vC10EvMarker, 0) < w.pos(vC10EvThen, 2))
	} else {
		vAssert("then2:never-looked-at", w.count(vC10EvThen, 2) == 0 && w.count(vC10EvGet, 2) == 0)
		vAssert("order:then1<marker", w.pos(vC10EvThen, 1) == 1 && w.pos(vC10EvMarker, 0) > w.pos(vC10EvThen, 1))
	}
	vAssert("marker:ran-exactly-once", w.count(vC10EvMarker, 0) == 1)

	// settled state and reaction
	nF, nR := w.count(vC10EvReactF, 0), w.count(vC10EvReactR, 0)
	switch st {
	case stPending:
		vAssert("state:pending-when-then-does-nothing", p.state == PromiseStatePending && p.result == nil)
		vAssert("reaction:none-while-pending", nF == 0 && nR == 0)
	case stFul:
		vAssert("state:fulfilled-by-first-call", p.state == PromiseStateFulfilled && p.result == val)
		vAssert("reaction:fulfil-exactly-once", nF == 1 && nR == 0)
		if nF == 1 {
			i := w.pos(vC10EvReactF, 0)
			vAssert("reaction:argument(F)", w.log[i].arg == val)
			vAssert("reaction:after-marker(F)", i > w.pos(vC10EvMarker, 0) && i == len(w.log)-1)
		}
	case stRej:
		vAssert("state:rejected-by-first-call", p.state == PromiseStateRejected && p.result == val)
		vAssert("reaction:reject-exactly-once", nF == 0 && nR == 1)
		if nR == 1 {
			i := w.pos(vC10EvReactR, 0)
			vAssert("reaction:argument(R)", w.log[i].arg == val)
			vAssert("reaction:after-marker(R)", i > w.pos(vC10EvMarker, 0) && i == len(w.log)-1)
		}
	}
	// HostPromiseRejectionTracker
	if st == stRej && attachLate {
		vAssert("tracker:reject-then-handle", trackAtDrain1 == 1 && len(w.track) == 2 && w.track[0].op == PromiseRejectionReject && w.track[1].op == PromiseRejectionHandle && w.track[0].p == p && w.track[1].p == p)
	} else {
		vAssert("tracker:silent", len(w.track) == 0)
	}
	// the fresh functions are spent too: later calls change nothing
	before := len(w.log)
	stBefore, resBefore := p.state, p.result
	if st != stPending {
		w.call(fresh1Res, _undefined, late)
		w.call(fresh1Rej, _undefined, late)
		if act1 == 3 {
			w.call(fresh2Res, _undefined, late)
			w.call(fresh2Rej, _undefined, late)
		}
		vAssert("spent:fresh-functions-ignored-later", p.state == stBefore && p.result == resBefore && len(r.jobQueue) == 0 && len(w.log) == before)
	}
}

// ---------------------------------------------------------------------
// H10.4: p.then(f1,r1).then(f2,r2) through the REAL promiseProto_then -> speciesConstructorObj ->
// newPromiseCapability (default constructor path) -> performPromiseThen -> addReactions, and the reaction jobs
// with a capability (27.2.2.1 NewPromiseReactionJob steps d-i). Each link: both handlers return / both throw /
// onFulfilled missing (undefined) / onRejected missing (a non-callable number) / both missing.
// Reference: a handler's return value fulfils the derived promise, a throw rejects it, a missing handler
// passes the settlement through (one job later); the handler is called exactly once with this=undefined and
// the settlement value; nothing runs synchronously; derived promises are new pending ordinary promises with
// the intrinsic prototype; HostPromiseRejectionTracker sees exactly: base promise rejected before then() ->
// reject+handle, final promise rejected -> reject.

type vC10Settle struct {
	ful bool
	val Value
}

func vC10LinkCfg(cfg int) (bF, bR int) { // 0 missing, 1 returns, 2 throws
	switch cfg {
	case 0:
		return 1, 1
	case 1:
		return 2, 2
	case 2:
		return 0, 1
	case 3:
		return 1, 0
	}
	return 0, 0
}

func H_C10_then_chain() {
	w := vC10New()
	r := w.r
	proto := r.getPromisePrototype()
	p := r.newPromise(proto)
	resolve, reject := p.createResolvingFunctions()
	v0 := valueInt(vNondetInt64("v0"))
	var ret, thr [2][2]Value
	ret[0][0] = valueInt(vNondetInt64("ret.f1"))
	ret[0][1] = valueInt(vNondetInt64("ret.r1"))
	ret[1][0] = valueInt(vNondetInt64("ret.f2"))
	ret[1][1] = valueInt(vNondetInt64("ret.r2"))
	thr[0][0] = valueInt(vNondetInt64("thr.f1"))
	thr[0][1] = valueInt(vNondetInt64("thr.r1"))
	thr[1][0] = valueInt(vNondetInt64("thr.f2"))
	thr[1][1] = valueInt(vNondetInt64("thr.r2"))
	baseFul := vChoice("base.fulfilled", 2) == 1
	settleFirst := vChoice("base.settled-before-then", 2) == 1
	var beh [2][2]int
	beh[0][0], beh[0][1] = vC10LinkCfg(vChoice("link1", 5))
	beh[1][0], beh[1][1] = vC10LinkCfg(vChoice("link2", 5))

	thisOK := true
	mk := func(link, side int) Value {
		b := beh[link][side]
		if b == 0 {
			if side == 0 {
				return _undefined
			}
			return valueInt(7) // not callable: treated as missing
		}
		kind := vC10EvReactF
		if side == 1 {
			kind = vC10EvReactR
		}
		return r.newNativeFunc(func(call FunctionCall) Value {
			w.ev(kind, link, call.Argument(0))
			if call.This != _undefined || len(call.Arguments) != 1 {
				thisOK = false
			}
			if b == 2 {
				panic(thr[link][side])
			}
			return ret[link][side]
		}, "", 1)
	}
	settle := func() {
		if baseFul {
			w.call(resolve, _undefined, v0)
		} else {
			w.call(reject, _undefined, v0)
		}
	}
	if settleFirst {
		settle()
	}
	q1o, _ := r.promiseProto_then(FunctionCall{This: p.val, Arguments: []Value{mk(0, 0), mk(0, 1)}}).(*Object)
	vAssert("then:returns-an-object", q1o != nil)
	q1, isP1 := q1o.self.(*Promise)
	vAssert("then:derived-is-a-new-pending-intrinsic-promise(1)", isP1 && q1 != p && q1.state == PromiseStatePending && q1.prototype == proto)
	q2o, _ := r.promiseProto_then(FunctionCall{This: q1o, Arguments: []Value{mk(1, 0), mk(1, 1)}}).(*Object)
	vAssert("then:returns-an-object(2)", q2o != nil)
	q2, isP2 := q2o.self.(*Promise)
	vAssert("then:derived-is-a-new-pending-intrinsic-promise(2)", isP2 && q2 != p && q2 != q1 && q2.state == PromiseStatePending && q2.prototype == proto)
	if !settleFirst {
		settle()
	}
	vAssert("then:nothing-runs-synchronously", len(w.log) == 0 && q1.state == PromiseStatePending && q2.state == PromiseStatePending)
	vAssert("then:one-job-queued-for-the-settled-base", len(r.jobQueue) == 1)
	r.enqueuePromiseJob(func() { w.ev(vC10EvMarker, 0, nil) })
	r.leave()
	vAssert("queue-empty-after-drain", len(r.jobQueue) == 0)

	// ---- reference
	step := func(in vC10Settle, link int) (out vC10Settle, ran bool, side int) {
		side = 1
		if in.ful {
			side = 0
		}
		switch beh[link][side] {
		case 0:
			return in, false, side
		case 1:
			return vC10Settle{true, ret[link][side]}, true, side
		}
		return vC10Settle{false, thr[link][side]}, true, side
	}
	in0 := vC10Settle{baseFul, v0}
	out1, ran1, side1 := step(in0, 0)
	out2, ran2, side2 := step(out1, 1)
	var want []vC10Ev
	if ran1 {
		want = append(want, vC10Ev{vC10EvReactF + side1, 0, in0.val})
	}
	want = append(want, vC10Ev{vC10EvMarker, 0, nil}) // link 2's job is enqueued by link 1's job, i.e. behind the marker
	if ran2 {
		want = append(want, vC10Ev{vC10EvReactF + side2, 1, out1.val})
	}
	vAssert("handlers:each-exactly-once-in-job-order", len(w.log) == len(want))
	if len(w.log) == len(want) {
		for i := range want {
			vAssert("handlers:which-and-order", w.log[i].kind == want[i].kind && w.log[i].id == want[i].id)
			vAssert("handlers:argument", w.log[i].arg == want[i].arg)
		}
	}
	vAssert("handlers:this-undefined-one-argument", thisOK)
	wantState := func(s vC10Settle) PromiseState {
		if s.ful {
			return PromiseStateFulfilled
		}
		return PromiseStateRejected
	}
	vAssert("derived1:settled-by-handler-result-or-passthrough", q1.state == wantState(out1) && q1.result == out1.val)
	vAssert("derived2:settled-by-handler-result-or-passthrough", q2.state == wantState(out2) && q2.result == out2.val)
	vAssert("base:unchanged", p.state == wantState(in0) && p.result == v0)
	// tracker
	var wantT []vC10Track
	if !baseFul && settleFirst {
		wantT = append(wantT, vC10Track{p, PromiseRejectionReject}, vC10Track{p, PromiseRejectionHandle})
	}
	if !out2.ful {
		wantT = append(wantT, vC10Track{q2, PromiseRejectionReject})
	}
	vAssert("tracker:count", len(w.track) == len(wantT))
	if len(w.track) == len(wantT) {
		for i := range wantT {
			vAssert("tracker:events", w.track[i].p == wantT[i].p && w.track[i].op == wantT[i].op)
		}
	}
}

// ---------------------------------------------------------------------
// H10.5: order of reaction jobs across several chains against a reference scheduler written from
// ECMA-262 27.2 (promise records with reaction lists, one FIFO job queue, NewPromiseReactionJob,
// NewPromiseResolveThenableJob, HostPromiseRejectionTracker). A program (settle base promise / then / drain,
// handlers that return, throw, settle another base promise, attach a then while the queue drains, or return
// another promise) runs on the real code (promiseProto_then, resolving functions, Runtime.leave) and on the
// model; handler log (which, kind, argument), final states and tracker events must be equal.

const (
	vC10OpSettle = 1 // a: base index
	vC10OpThen   = 2 // a: promise index, b: handler id
	vC10OpDrain  = 3
)

type vC10Op struct{ kind, a, b int }

type vC10Prog struct {
	ops     []vC10Op
	effects map[int][]vC10Op // what a handler does before completing
	retProm map[int]int      // handler id -> index of the promise it returns
}

func vC10Programs(n int) vC10Prog {
	S, T, D := vC10OpSettle, vC10OpThen, vC10OpDrain
	switch n {
	case 0: // two chains attached first, A settles before B                      -> h0 h1 h2 h3
		return vC10Prog{ops: []vC10Op{{T, 0, 0}, {T, 1, 1}, {T, 2, 2}, {T, 3, 3}, {S, 0, 0}, {S, 1, 0}, {D, 0, 0}}}
	case 1: // B settles before A                                                  -> h1 h0 h3 h2
		return vC10Prog{ops: []vC10Op{{T, 0, 0}, {T, 2, 2}, {T, 1, 1}, {T, 4, 3}, {S, 1, 0}, {S, 0, 0}, {D, 0, 0}}}
	case 2: // fan-out: q=A.then(h0); q.then(h1); q.then(h2); A.then(h3)           -> h0 h3 h1 h2
		return vC10Prog{ops: []vC10Op{{T, 0, 0}, {T, 2, 1}, {T, 2, 2}, {T, 0, 3}, {S, 0, 0}, {D, 0, 0}}}
	case 3: // then() on already settled promises, mixed
		return vC10Prog{ops: []vC10Op{{S, 0, 0}, {T, 0, 0}, {S, 1, 0}, {T, 1, 1}, {T, 2, 2}, {T, 3, 3}, {D, 0, 0}}}
	case 4: // handler h0 settles B (which has a chain)                            -> h0 h1 h2 h3
		return vC10Prog{ops: []vC10Op{{T, 0, 0}, {T, 1, 1}, {T, 2, 2}, {T, 3, 3}, {S, 0, 0}, {D, 0, 0}},
			effects: map[int][]vC10Op{0: {{S, 1, 0}}}}
	case 5: // handler h0 attaches h4 to the settled B while the queue drains      -> h0 h4 h2
		return vC10Prog{ops: []vC10Op{{S, 1, 0}, {T, 0, 0}, {T, 2, 2}, {S, 0, 0}, {D, 0, 0}},
			effects: map[int][]vC10Op{0: {{T, 1, 4}}}}
	case 6: // h0 returns the promise B: thenable job + B.then job = two extra ticks -> h0 h1 h3 h4 h2
		return vC10Prog{ops: []vC10Op{{T, 0, 0}, {T, 2, 2}, {T, 0, 1}, {T, 4, 3}, {T, 5, 4}, {S, 0, 0}, {S, 1, 0}, {D, 0, 0}},
			retProm: map[int]int{0: 1}}
	}
	// two drains, reactions attached between them, second settle call of a base ignored
	return vC10Prog{ops: []vC10Op{{T, 0, 0}, {S, 0, 0}, {S, 0, 0}, {D, 0, 0}, {T, 2, 1}, {T, 0, 2}, {T, 1, 3}, {D, 0, 0}, {S, 1, 0}, {T, 3, 4}, {D, 0, 0}}}
}

// ---- the reference scheduler
type vC10MReact struct {
	h        int
	derived  *vC10MProm
	internal *vC10MProm // non-nil: the reaction's handlers are the resolving functions of this promise
}

type vC10MProm struct {
	idx     int // -1: not observable (capability of an internal then)
	state   PromiseState
	val     Value
	reacts  []vC10MReact
	handled bool
}

type vC10MJob struct {
	react    vC10MReact
	ful      bool
	arg      Value
	thenable bool // NewPromiseResolveThenableJob(target=react.derived, thenable=x)
	x        *vC10MProm
}

type vC10MTrack struct {
	idx int
	op  PromiseRejectionOperation
}

type vC10Model struct {
	proms   []*vC10MProm
	queue   []vC10MJob
	log     []vC10Ev
	track   []vC10MTrack
	prog    vC10Prog
	throws  map[int]bool
	baseVal [2]Value
	baseFul [2]bool
}

func (m *vC10Model) settle(p *vC10MProm, ful bool, v Value) {
	if p.state != PromiseStatePending {
		return
	}
	p.val = v
	reacts := p.reacts
	p.reacts = nil
	if ful {
		p.state = PromiseStateFulfilled
	} else {
		p.state = PromiseStateRejected
		if !p.handled {
			m.track = append(m.track, vC10MTrack{p.idx, PromiseRejectionReject})
		}
	}
	for _, re := range reacts {
		m.queue = append(m.queue, vC10MJob{react: re, ful: ful, arg: v})
	}
}

func (m *vC10Model) then(src *vC10MProm, re vC10MReact) {
	switch src.state {
	case PromiseStatePending:
		src.reacts = append(src.reacts, re)
	case PromiseStateFulfilled:
		m.queue = append(m.queue, vC10MJob{react: re, ful: true, arg: src.val})
	default:
		if !src.handled {
			m.track = append(m.track, vC10MTrack{src.idx, PromiseRejectionHandle})
		}
		m.queue = append(m.queue, vC10MJob{react: re, ful: false, arg: src.val})
	}
	src.handled = true
}

func (m *vC10Model) exec(op vC10Op) {
	switch op.kind {
	case vC10OpSettle:
		m.settle(m.proms[op.a], m.baseFul[op.a], m.baseVal[op.a])
	case vC10OpThen:
		d := &vC10MProm{idx: len(m.proms)}
		m.proms = append(m.proms, d)
		m.then(m.proms[op.a], vC10MReact{h: op.b, derived: d})
	case vC10OpDrain:
		for len(m.queue) > 0 {
			job := m.queue[0]
			m.queue = m.queue[1:]
			re := job.react
			switch {
			case job.thenable:
				// x.then(resolve(target), reject(target)); x is an intrinsic promise
				m.then(job.x, vC10MReact{h: -1, derived: &vC10MProm{idx: -1}, internal: re.derived})
			case re.internal != nil:
				m.settle(re.internal, job.ful, job.arg)
				m.settle(re.derived, true, _undefined)
			default:
				kind := vC10EvReactR
				if job.ful {
					kind = vC10EvReactF
				}
				m.log = append(m.log, vC10Ev{kind, re.h, job.arg})
				for _, e := range m.prog.effects[re.h] {
					m.exec(e)
				}
				if x, ok := m.prog.retProm[re.h]; ok {
					m.queue = append(m.queue, vC10MJob{react: re, thenable: true, x: m.proms[x]})
				} else if m.throws[re.h] {
					m.settle(re.derived, false, valueInt(2000+re.h))
				} else {
					m.settle(re.derived, true, valueInt(1000+re.h))
				}
			}
		}
	}
}

func H_C10_job_order() {
	w := vC10New()
	r := w.r
	prog := vC10Programs(vChoice("program", 8))
	throws := map[int]bool{}
	switch vChoice("throwing-handlers", 3) {
	case 1:
		throws[0], throws[3] = true, true
	case 2:
		throws[1], throws[2] = true, true
	}
	var baseVal [2]Value
	var baseFul [2]bool
	baseVal[0] = valueInt(vNondetInt64("A.value"))
	baseVal[1] = valueInt(vNondetInt64("B.value"))
	baseFul[0] = vChoice("A.fulfilled", 2) == 1
	baseFul[1] = vChoice("B.fulfilled", 2) == 1

	// ---- the real side
	proto := r.getPromisePrototype()
	var real []*Promise
	var res, rej [2]*Object
	for i := 0; i < 2; i++ {
		p := r.newPromise(proto)
		res[i], rej[i] = p.createResolvingFunctions()
		real = append(real, p)
	}
	var exec func(op vC10Op)
	handler := func(h int, kind int) Value {
		return r.newNativeFunc(func(call FunctionCall) Value {
			w.ev(kind, h, call.Argument(0))
			for _, e := range prog.effects[h] {
				exec(e)
			}
			if x, ok := prog.retProm[h]; ok {
				return real[x].val
			}
			if throws[h] {
				panic(valueInt(2000 + h))
			}
			return valueInt(1000 + h)
		}, "", 1)
	}
	exec = func(op vC10Op) {
		switch op.kind {
		case vC10OpSettle:
			if baseFul[op.a] {
				w.call(res[op.a], _undefined, baseVal[op.a])
			} else {
				w.call(rej[op.a], _undefined, baseVal[op.a])
			}
		case vC10OpThen:
			d, _ := r.promiseProto_then(FunctionCall{This: real[op.a].val, Arguments: []Value{handler(op.b, vC10EvReactF), handler(op.b, vC10EvReactR)}}).(*Object)
			dp, _ := d.self.(*Promise)
			real = append(real, dp)
		case vC10OpDrain:
			r.leave()
			vAssert("queue-empty-after-drain", len(r.jobQueue) == 0)
		}
	}
	for _, op := range prog.ops {
		exec(op)
	}

	// ---- the model
	m := &vC10Model{prog: prog, throws: throws, baseVal: baseVal, baseFul: baseFul}
	m.proms = []*vC10MProm{{idx: 0}, {idx: 1}}
	for _, op := range prog.ops {
		m.exec(op)
	}

	vAssert("model:sanity-all-jobs-consumed", len(m.queue) == 0 && len(m.log) >= 2)
	vAssert("jobs:each-reaction-exactly-once", len(w.log) == len(m.log))
	if len(w.log) == len(m.log) {
		for i := range m.log {
			vAssert("jobs:spec-FIFO-order", w.log[i].id == m.log[i].id && w.log[i].kind == m.log[i].kind)
			vAssert("jobs:argument", w.log[i].arg == m.log[i].arg)
		}
	}
	vAssert("promises:same-number-created", len(real) == len(m.proms))
	if len(real) == len(m.proms) {
		for i := range real {
			vAssert("promises:final-state", real[i].state == m.proms[i].state)
			if x, ok := prog.retProm[0]; ok && i == 2 {
				// resolved with the promise x: adopts its state
				vAssert("promises:adopted-state", real[i].state == real[x].state && real[i].result == real[x].result)
			}
			vAssert("promises:final-result", real[i].result == m.proms[i].val)
		}
	}
	vAssert("tracker:count", len(w.track) == len(m.track))
	if len(w.track) == len(m.track) {
		for i := range m.track {
			idx := -1
			for k := range real {
				if real[k] == w.track[i].p {
					idx = k
				}
			}
			vAssert("tracker:events", idx == m.track[i].idx && w.track[i].op == m.track[i].op)
		}
	}
}

// ---------------------------------------------------------------------
// H10.6: promise capabilities and the Go-side resolvers. (a) newPromiseCapability(%Promise%) (27.2.1.5 on
// the intrinsic path) + promiseCapability.resolve/reject/try; (b) Runtime.NewPromise(): the returned Go
// functions are the promise's resolving functions behind ToValue + runWrapped, so a call from outside the
// runtime drains the job queue before it returns (reactions have run, queue empty), a call made while a run
// is active (call stack not empty) only queues, an uncatchable error raised by a job comes back as the
// error, the remaining jobs are dropped and the interrupt flag is cleared.
// Reference: first settling call wins; resolve(own promise) rejects with a TypeError; resolve(nil) fulfils
// with null; each reaction exactly once, attachment order, right argument; tracker as in 27.2.1.9.

func H_C10_capability() {
	w := vC10New()
	r, m := w.r, w.m
	v1 := valueInt(vNondetInt64("v1"))
	v2 := valueInt(vNondetInt64("v2"))
	thrown := valueInt(vNondetInt64("thrown"))
	via := vChoice("via", 3) // 0 capability, 1 NewPromise called from outside, 2 NewPromise called while a run is active
	early := vChoice("reactions.attached-before-settlement", 2) == 1
	proto := r.getPromisePrototype()

	var p *Promise
	var pcap *promiseCapability
	var goRes, goRej func(interface{}) error
	if via == 0 {
		pcap = r.newPromiseCapability(r.getPromise())
		po := pcap.promise
		vAssert("capability:promise-object", po != nil)
		var isP bool
		p, isP = po.self.(*Promise)
		vAssert("capability:new-pending-intrinsic-promise", isP && p.state == PromiseStatePending && p.prototype == proto && p.val == po)
		_, c1 := pcap.resolveObj.self.assertCallable()
		_, c2 := pcap.rejectObj.self.assertCallable()
		vAssert("capability:functions-callable-and-distinct", c1 && c2 && pcap.resolveObj != pcap.rejectObj)
	} else {
		p, goRes, goRej = r.NewPromise()
		vAssert("NewPromise:new-pending-intrinsic-promise", p != nil && p.state == PromiseStatePending && p.prototype == proto && p.val != nil && p.val.self == objectImpl(p))
		if via == 2 {
			m.callStack = append(m.callStack, context{pc: 3})
		}
	}
	interrupts := false
	if via == 1 && early {
		interrupts = vChoice("reaction0.hits-an-interrupt", 2) == 1
	}
	intErr := &InterruptedError{iface: "stop"}
	attach := func() {
		for k := 0; k < 2; k++ {
			f, j := w.reactionPair(k)
			if k == 0 && interrupts {
				boom := func(c FunctionCall) Value {
					w.ev(vC10EvHandler, 0, c.Argument(0))
					m.Interrupt("stop")
					panic(intErr)
				}
				f.handler.callback, j.handler.callback = boom, boom
			}
			p.addReactions(f, j)
		}
	}
	if early {
		attach()
	}

	// ---- first settling call
	const (
		stPending = 0
		stFul     = 1
		stRej     = 2
		stRejTE   = 3
	)
	st := stPending
	var val Value
	var err1, err2 error
	tryRet, tryWant := true, true
	if via == 0 {
		switch vChoice("capability.op1", 6) {
		case 0:
			pcap.resolve(v1)
			st, val = stFul, v1
		case 1:
			pcap.reject(v1)
			st, val = stRej, v1
		case 2:
			tryRet, tryWant = pcap.try(func() {}), true
		case 3:
			tryRet, tryWant = pcap.try(func() { panic(thrown) }), false
			st, val = stRej, thrown
		case 4:
			pcap.resolve(pcap.promise)
			st = stRejTE
		default:
			t := w.thenable(1, func(call FunctionCall) Value {
				w.ev(vC10EvThen, 1, nil)
				f, _ := call.Argument(0).(*Object)
				w.call(f, _undefined, v1)
				return _undefined
			})
			pcap.resolve(t)
			st, val = stFul, v1
			vAssert("capability:thenable-not-called-synchronously", w.count(vC10EvThen, 1) == 0 && len(r.jobQueue) == 1)
		}
		vAssert("capability.try:result", tryRet == tryWant)
	} else {
		switch vChoice("NewPromise.op1", 4) {
		case 0:
			err1 = goRes(v1)
			st, val = stFul, v1
		case 1:
			err1 = goRej(v1)
			st, val = stRej, v1
		case 2:
			err1 = goRes(nil)
			st, val = stFul, _null
		default:
			err1 = goRes(p) // ToValue(*Promise) is the promise object: self-resolution
			st = stRejTE
		}
	}
	// ---- second settling call (ignored unless the first one left the promise pending)
	op2 := vChoice("op2", 3)
	if op2 != 0 {
		if via == 0 {
			if op2 == 1 {
				pcap.resolve(v2)
			} else {
				pcap.reject(v2)
			}
		} else if op2 == 1 {
			err2 = goRes(v2)
		} else {
			err2 = goRej(v2)
		}
		if st == stPending {
			st, val = op2, v2
		}
	}
	trackAtSettle := len(w.track)

	// ---- Go-side calls: drained or not when they return
	if via == 1 && early {
		if interrupts && st != stPending {
			vAssert("outside:uncatchable-job-error-returned", err1 == error(intErr) && err2 == nil)
			vAssert("outside:remaining-jobs-dropped", len(r.jobQueue) == 0 && len(w.log) == 1 && w.log[0].kind == vC10EvHandler)
			vAssert("outside:interrupt-flag-cleared", m.interrupted == 0)
		} else {
			vAssert("outside:no-error", err1 == nil && err2 == nil)
			vAssert("outside:reactions-ran-before-the-call-returned", len(r.jobQueue) == 0 && len(w.log) == 2)
		}
	}
	if via == 1 && !early {
		vAssert("outside:no-error(no reactions)", err1 == nil && err2 == nil && len(r.jobQueue) == 0 && len(w.log) == 0)
	}
	if via == 2 {
		vAssert("inside:no-error", err1 == nil && err2 == nil)
		want := 0
		if early {
			want = 2
		}
		vAssert("inside:jobs-only-queued", len(w.log) == 0 && len(r.jobQueue) == want)
		m.callStack = m.callStack[:0]
	}
	if !early {
		nlog := len(w.log)
		attach()
		// settled: one job per reaction pair; still pending (nothing called yet, or waiting for the thenable job): none
		wantJobs := 2
		if st == stPending {
			wantJobs = 0
		}
		if nlog == 1 { // the thenable's Get was logged: its job is queued, the promise is pending
			wantJobs = 1
		}
		vAssert("late:jobs-queued-only-for-a-settled-promise", len(w.log) == nlog && len(r.jobQueue) == wantJobs)
	}
	if !interrupts {
		r.leave()
	}
	vAssert("queue-empty-at-the-end", len(r.jobQueue) == 0)

	// ---- state
	switch st {
	case stPending:
		vAssert("state:pending", p.state == PromiseStatePending)
	case stFul:
		vAssert("state:fulfilled-first-call-wins", p.state == PromiseStateFulfilled && p.result == val)
	case stRej:
		vAssert("state:rejected-first-call-wins", p.state == PromiseStateRejected && p.result == val)
	default:
		o, isObj := p.result.(*Object)
		vAssert("state:self-resolution-TypeError", p.state == PromiseStateRejected && isObj && vClassify(o) == "TypeError")
	}
	// ---- reactions
	if interrupts {
		return
	}
	nThen := 0
	if len(w.log) > 0 && w.log[0].kind == vC10EvGet {
		vAssert("capability:thenable-job", len(w.log) >= 2 && w.log[1].kind == vC10EvThen && w.count(vC10EvThen, 1) == 1 && w.count(vC10EvGet, 1) == 1)
		nThen = 2
	}
	if st == stPending {
		vAssert("reactions:none-while-pending", len(w.log) == 0)
	} else {
		wantKind := vC10EvReactR
		if st == stFul {
			wantKind = vC10EvReactF
		}
		vAssert("reactions:each-exactly-once", len(w.log) == nThen+2)
		if len(w.log) == nThen+2 {
			a, b := w.log[nThen], w.log[nThen+1]
			vAssert("reactions:attachment-order-and-kind", a.id == 0 && b.id == 1 && a.kind == wantKind && b.kind == wantKind)
			if st != stRejTE {
				vAssert("reactions:argument", a.arg == val && b.arg == val)
			} else {
				vAssert("reactions:argument(TypeError)", a.arg == p.result && b.arg == p.result)
			}
		}
	}
	// ---- tracker
	if (st == stRej || st == stRejTE) && !early {
		vAssert("tracker:reject-then-handle", trackAtSettle == 1 && len(w.track) == 2 && w.track[0].op == PromiseRejectionReject && w.track[1].op == PromiseRejectionHandle && w.track[0].p == p && w.track[1].p == p)
	} else {
		vAssert("tracker:silent", len(w.track) == 0)
	}
}

// ---------------------------------------------------------------------
// H10.7: PromiseResolve(C, x) (27.2.4.7.1) with C = %Promise% - used by Promise.resolve, the combinators,
// finally and by `await` (func.go: asyncRunner.step does promiseResolve(...).self.(*Promise) unchecked).
// Reference: the result is always a promise; it is x itself iff IsPromise(x) and Get(x,"constructor") is C;
// "constructor" is read only when IsPromise(x); otherwise a NEW intrinsic promise resolved with x (non-thenable:
// fulfilled with x at once; thenable: pending, exactly one job, then called once in that job).

type vC10Obj struct {
	baseObject
	onGet func(name unistring.String) Value
}

func (t *vC10Obj) getStr(name unistring.String, receiver Value) Value {
	if v := t.onGet(name); v != nil {
		return v
	}
	return t.baseObject.getStr(name, receiver)
}

func H_C10_promiseResolve() {
	w := vC10New()
	r := w.r
	C := r.getPromise()
	proto := r.getPromisePrototype()
	v := valueInt(vNondetInt64("v"))
	// 0 number; 1 intrinsic promise; 2 promise with an own "constructor" that is not C;
	// 3 ordinary object whose constructor is C; 4 ordinary object, other constructor; 5 thenable, other constructor
	kind := vChoice("x", 6)
	other := vC10PlainObj(r)
	ctorGets := 0
	var x Value
	var xp *Promise
	var xRes *Object
	mkObj := func(ctor Value, then Value) *Object {
		o := &Object{runtime: r}
		t := &vC10Obj{baseObject: baseObject{class: classObject, val: o, extensible: true}}
		t.baseObject.init()
		o.self = t
		t.onGet = func(name unistring.String) Value {
			switch name {
			case "constructor":
				ctorGets++
				return ctor
			case "then":
				w.ev(vC10EvGet, 1, nil)
				return then
			}
			return nil
		}
		return o
	}
	switch kind {
	case 0:
		x = v
	case 1, 2:
		xp = r.newPromise(proto)
		xRes, _ = xp.createResolvingFunctions()
		if kind == 2 {
			xp._putProp("constructor", other, true, false, true)
		}
		x = xp.val
	case 3:
		x = mkObj(C, _undefined)
	case 4:
		x = mkObj(other, _undefined)
	default:
		x = mkObj(other, r.newNativeFunc(func(call FunctionCall) Value {
			w.ev(vC10EvThen, 1, nil)
			f, _ := call.Argument(0).(*Object)
			w.call(f, _undefined, v)
			return _undefined
		}, "then", 2))
	}
	res := r.promiseResolve(C, x)
	vAssert("PromiseResolve:returns-an-object", res != nil)
	rp, isP := res.self.(*Promise)
	vAssertK("PromiseResolve:result-is-a-promise", isP, kind == 3, "F-C10-promiseResolve-nonpromise")
	if !isP {
		return
	}
	switch kind {
	case 1:
		vAssert("PromiseResolve:same-promise-when-constructor-is-C", res == xp.val && len(r.jobQueue) == 0)
		return
	}
	vAssert("PromiseResolve:new-intrinsic-promise", Value(res) != x && rp.prototype == proto)
	switch kind {
	case 0, 3, 4:
		vAssert("PromiseResolve:fulfilled-with-x", rp.state == PromiseStateFulfilled && rp.result == x && len(r.jobQueue) == 0)
	case 2:
		vAssert("PromiseResolve:pending-on-the-promise-x", rp.state == PromiseStatePending && len(r.jobQueue) == 1)
		r.leave()
		vAssert("PromiseResolve:still-pending-while-x-is", rp.state == PromiseStatePending && len(r.jobQueue) == 0)
		w.call(xRes, _undefined, v)
		r.leave()
		vAssert("PromiseResolve:adopts-the-state-of-x", rp.state == PromiseStateFulfilled && rp.result == v && len(r.jobQueue) == 0)
	case 5:
		vAssert("PromiseResolve:thenable-only-queued", rp.state == PromiseStatePending && len(r.jobQueue) == 1 && w.count(vC10EvThen, 1) == 0 && w.count(vC10EvGet, 1) == 1)
		r.leave()
		vAssert("PromiseResolve:thenable-called-once-in-its-job", w.count(vC10EvThen, 1) == 1 && w.count(vC10EvGet, 1) == 1 && rp.state == PromiseStateFulfilled && rp.result == v && len(r.jobQueue) == 0)
	}
	vAssert("tracker:silent", len(w.track) == 0)
	// last, because a failing known-finding assertion ends the path
	if kind >= 3 {
		vAssertK("PromiseResolve:constructor-read-only-when-IsPromise(x)", ctorGets == 0, true, "F-C10-promiseResolve-nonpromise")
	}
}

// ---------------------------------------------------------------------
// H10.8: Promise.prototype.finally (27.2.5.3) through the real promiseProto_finally -> invoke("then") ->
// promiseProto_then -> thenFinally/catchFinally -> promiseResolve -> invoke("then", valueThunk/thrower).
// Reference: onFinally is called exactly once, with this=undefined and no arguments, as a job; the result
// promise adopts the original settlement when onFinally returns a value or a promise that fulfils; it is
// rejected with onFinally's throw / with the reason of the rejected promise it returns; a non-callable
// onFinally passes the settlement through; nothing runs synchronously; queue empty after the drain.

func H_C10_finally() {
	w := vC10New()
	r := w.r
	proto := r.getPromisePrototype()
	p := r.newPromise(proto)
	resolve, reject := p.createResolvingFunctions()
	v0 := valueInt(vNondetInt64("v0"))
	rv := valueInt(vNondetInt64("returned"))
	tv := valueInt(vNondetInt64("thrown"))
	xv := valueInt(vNondetInt64("x.value"))
	baseFul := vChoice("base.fulfilled", 2) == 1
	settleFirst := vChoice("base.settled-before-finally", 2) == 1
	beh := vChoice("onFinally", 5) // 0 returns a value, 1 throws, 2 returns a fulfilled promise, 3 returns a rejected promise, 4 not callable
	calls, nargs := 0, 0
	var this Value
	var onFinally Value = valueInt(5)
	var xp *Promise
	if beh != 4 {
		onFinally = r.newNativeFunc(func(call FunctionCall) Value {
			calls++
			nargs += len(call.Arguments)
			this = call.This
			switch beh {
			case 1:
				panic(tv)
			case 2, 3:
				xp = r.newPromise(proto)
				xres, xrej := xp.createResolvingFunctions()
				if beh == 2 {
					w.call(xres, _undefined, xv)
				} else {
					w.call(xrej, _undefined, xv)
				}
				return xp.val
			}
			return rv
		}, "", 0)
	}
	settle := func() {
		if baseFul {
			w.call(resolve, _undefined, v0)
		} else {
			w.call(reject, _undefined, v0)
		}
	}
	if settleFirst {
		settle()
	}
	qo, _ := r.promiseProto_finally(FunctionCall{This: p.val, Arguments: []Value{onFinally}}).(*Object)
	vAssert("finally:returns-an-object", qo != nil)
	q, isP := qo.self.(*Promise)
	vAssert("finally:new-pending-intrinsic-promise", isP && q != p && q.state == PromiseStatePending && q.prototype == proto)
	if !settleFirst {
		settle()
	}
	vAssert("finally:nothing-runs-synchronously", calls == 0 && len(r.jobQueue) == 1)
	r.leave()
	vAssert("queue-empty-after-drain", len(r.jobQueue) == 0)
	wantFul, wantVal := baseFul, Value(v0)
	switch beh {
	case 1:
		wantFul, wantVal = false, tv
	case 3:
		wantFul, wantVal = false, xv
	}
	if beh == 4 {
		vAssert("finally:non-callable-never-called", calls == 0)
	} else {
		vAssert("finally:onFinally-exactly-once-no-arguments", calls == 1 && nargs == 0)
	}
	if wantFul {
		vAssert("finally:result-fulfilled", q.state == PromiseStateFulfilled && q.result == wantVal)
	} else {
		vAssert("finally:result-rejected", q.state == PromiseStateRejected && q.result == wantVal)
	}
	vAssert("finally:original-unchanged", p.result == v0 && (p.state == PromiseStateFulfilled) == baseFul)
	// tracker events of the two observable promises
	var evP, evQ []PromiseRejectionOperation
	lastIsQ := false
	for _, t := range w.track {
		lastIsQ = false
		if t.p == p {
			evP = append(evP, t.op)
		}
		if t.p == q {
			evQ = append(evQ, t.op)
			lastIsQ = true
		}
	}
	if !baseFul && settleFirst {
		vAssert("tracker:original-reject-then-handle", len(evP) == 2 && evP[0] == PromiseRejectionReject && evP[1] == PromiseRejectionHandle)
	} else {
		vAssert("tracker:original-silent", len(evP) == 0)
	}
	if wantFul {
		vAssert("tracker:result-silent", len(evQ) == 0)
	} else {
		vAssert("tracker:result-rejected-unhandled-last", len(evQ) == 1 && evQ[0] == PromiseRejectionReject && lastIsQ)
	}
	// last, because a failing known-finding assertion ends the path
	if beh != 4 {
		vAssertK("finally:onFinally-this-is-undefined", this == _undefined, true, "F-C10-finally-nil-this")
	}
}
