package goja

import (
	"hash/maphash"
	"reflect"

	"github.com/dop251/goja/unistring"
)

// ---------------------------------------------------------------------
// Runtime, errors, outcome classification

// marker objects standing for the error constructors / thrown errors in symbolic mode
var (
	vTypeErrorObj      = &Object{}
	vRangeErrorObj     = &Object{}
	vSyntaxErrorObj    = &Object{}
	vReferenceErrorObj = &Object{}
	vOtherErrorObj     = &Object{}
)

var vTheRuntime *Runtime

// vRuntime: natively a real runtime; symbolically a bare one (kernels are driven directly and
// error construction is stubbed, so no global object is needed)
func vRuntime() *Runtime {
	if vTheRuntime == nil {
		if vSymbolic() {
			vTheRuntime = &Runtime{}
		} else {
			vTheRuntime = New()
		}
	}
	return vTheRuntime
}

func vResetRuntime() { vTheRuntime = nil }

func init() { vResetHooks = append(vResetHooks, vResetRuntime) }

// symbolic-mode replacements (listed in harness configs under "stubs")
func vStubNewTypeError(r *Runtime, args ...interface{}) *Object { return vTypeErrorObj }
func vStubTypeErrorResult(r *Runtime, throw bool, args ...interface{}) {
	if throw {
		panic(vTypeErrorObj)
	}
}
func vStubNewError(r *Runtime, typ *Object, msg string) Value { return typ }
func vStubNewErrorf(r *Runtime, typ *Object, format string, args ...interface{}) Value {
	return typ
}
func vStubGetTypeError(r *Runtime) *Object      { return vTypeErrorObj }
func vStubGetRangeError(r *Runtime) *Object     { return vRangeErrorObj }
func vStubGetSyntaxError(r *Runtime) *Object    { return vSyntaxErrorObj }
func vStubGetReferenceError(r *Runtime) *Object { return vReferenceErrorObj }

type vOutcome struct {
	panicked bool
	kind     string // "", "TypeError", "RangeError", "SyntaxError", "ReferenceError", "OtherJS", "GoPanic"
}

func vClassify(x interface{}) string {
	switch e := x.(type) {
	case *Object:
		if vSymbolic() {
			switch e {
			case vTypeErrorObj:
				return "TypeError"
			case vRangeErrorObj:
				return "RangeError"
			case vSyntaxErrorObj:
				return "SyntaxError"
			case vReferenceErrorObj:
				return "ReferenceError"
			}
			return "OtherJS"
		}
		if n := e.Get("name"); n != nil {
			switch n.String() {
			case "TypeError", "RangeError", "SyntaxError", "ReferenceError":
				return n.String()
			}
		}
		return "OtherJS"
	case *Exception:
		if o, ok := e.val.(*Object); ok {
			return vClassify(o)
		}
		return "OtherJS"
	case typeError:
		return "TypeError"
	case rangeError:
		return "RangeError"
	case syntaxError:
		return "SyntaxError"
	case referenceError:
		return "ReferenceError"
	case Value:
		return "OtherJS"
	case vAssumeFailedMarker:
		panic(x)
	}
	return "GoPanic"
}

type vAssumeFailedMarker interface{ vIsAssumeFailed() }

// vCatch runs f and classifies how it ended. Go runtime errors are NOT swallowed: they are
// re-panicked so that they surface as "no-escaping-panic".
func vCatch(f func()) (out vOutcome) {
	defer func() {
		if x := recover(); x != nil {
			k := vClassify(x)
			if k == "GoPanic" {
				panic(x)
			}
			out.panicked = true
			out.kind = k
		}
	}()
	f()
	return
}

// ---------------------------------------------------------------------
// vValue: an arbitrary coercible JS value. Each numeric coercion first runs `effect` (once),
// then yields the canonical Number `num`. Works natively too (it is an in-package Value).

type vValue struct {
	num    Value
	effect func()
	fired  *int
}

func vNewValue(name string, effect func()) *vValue {
	n := 0
	return &vValue{num: vNumber(name), effect: effect, fired: &n}
}

func (v *vValue) fire() {
	*v.fired++
	if *v.fired == 1 && v.effect != nil {
		v.effect()
	}
}

func (v *vValue) ToInteger() int64            { v.fire(); return v.num.ToInteger() }
func (v *vValue) toString() String            { v.fire(); return v.num.toString() }
func (v *vValue) string() unistring.String    { v.fire(); return v.num.string() }
func (v *vValue) ToString() Value             { v.fire(); return v.num.ToString() }
func (v *vValue) String() string              { v.fire(); return v.num.String() }
func (v *vValue) ToFloat() float64            { v.fire(); return v.num.ToFloat() }
func (v *vValue) ToNumber() Value             { v.fire(); return v.num }
func (v *vValue) ToBoolean() bool             { return true }
func (v *vValue) ToObject(*Runtime) *Object   { panic("vValue.ToObject") }
func (v *vValue) SameAs(o Value) bool         { return v == o }
func (v *vValue) Equals(o Value) bool         { return v == o }
func (v *vValue) StrictEquals(o Value) bool   { return v == o }
func (v *vValue) Export() interface{}         { return nil }
func (v *vValue) ExportType() reflect.Type    { return nil }
func (v *vValue) baseObject(*Runtime) *Object { return nil }
func (v *vValue) hash(*maphash.Hash) uint64   { return 0 }
