package goja

// C20 / H20.2d+H20.4 — the optimised RegExp.prototype[Symbol.split] (regexpproto_stdSplitter on an unmodified
// RegExp object) against ECMA-262 22.2.6.14 executed over the same abstract matcher (c20_engine.go).

var vC20LastArray []Value

// symbolic-mode replacement for (*Runtime).newArrayValues: record the element list
func vStubC20NewArrayValues(r *Runtime, values []Value) *Object {
	vC20LastArray = values
	return &Object{runtime: r}
}

func vStubC20SpeciesConstructorObj(r *Runtime, o, defaultConstructor *Object) *Object {
	return defaultConstructor
}

// vC20StdRegexp: a RegExp object in pristine state whose pattern is executed by the (abstract) regexp2 engine
func vC20StdRegexp(r *Runtime, p *regexpPattern) *regexpObject {
	var proto *Object
	if vSymbolic() {
		g := &guardedObject{}
		proto = &Object{runtime: r, self: g}
		g.val = proto
		r.global.stdRegexpProto = g
	} else {
		proto = r.getRegExpPrototype()
	}
	rx := r.newRegexpObject(proto)
	rx.pattern = p
	rx.source = asciiString("x")
	return rx
}

type vC20Piece struct{ a, b int } // element range of a substring; a == -1: undefined

// vC20RefSplit: ECMA-262 RegExp.prototype[@@split] steps 13-20 in matcher-element space
func vC20RefSplit(t *vC20Matcher, geo *vC20Geo, lim int, withGroup bool) (out []vC20Piece, abutEmpty bool) {
	size := geo.L
	if lim == 0 {
		return
	}
	if size == 0 {
		if t.first(0, 0) < 0 {
			out = append(out, vC20Piece{0, 0})
		}
		return
	}
	p, q := 0, 0
	for iter := 0; iter <= 2*size+2 && q < size; iter++ {
		m := t.first(q, size)
		if m < 0 || m >= size {
			break
		}
		q = m
		e := q + vConcretize(t.lenAt(q))
		if e == p {
			if p > 0 {
				abutEmpty = true
			}
			q++
			continue
		}
		out = append(out, vC20Piece{p, q})
		if len(out) == lim {
			return
		}
		p = e
		if withGroup {
			if vConcretize(refC20B2I(t.gokAt(q))) == 1 {
				gs := q + vConcretize(t.gaAt(q))
				out = append(out, vC20Piece{gs, gs + vConcretize(t.glAt(q))})
			} else {
				out = append(out, vC20Piece{-1, -1})
			}
			if len(out) == lim {
				return
			}
		}
		q = p
	}
	out = append(out, vC20Piece{p, size})
	return
}

// vC20IsPiece: v is the substring [a,b) (UTF-16 offsets) of the all-non-ASCII subject u, or undefined for a<0
func vC20IsPiece(v Value, u []uint16, a, b int) bool {
	if a < 0 {
		return v == _undefined
	}
	if a == b {
		str, ok := v.(String)
		return ok && str.Length() == 0
	}
	us, ok := v.(unicodeString)
	if !ok || len(us) != b-a+1 {
		return false
	}
	same := true
	for i := a; i < b; i++ {
		if us[1+i-a] != u[i] {
			same = false
		}
	}
	return same
}

func H_C20_split() {
	s, u := vC20Subject("s")
	for i := range u {
		vAssume(u[i] >= 0x80) // keeps String.Substring from forking on ASCII-ness; irrelevant for indices
	}
	full := vNondetBool("fullUnicode")
	if vBound("FULL") == 0 {
		vAssume(!full) // quick tier: u-flag index translation of the same list code is covered by H20.2.r2.findAll
	}
	withGroup := vBound("G") > 0
	t := vC20NewMatcher("m", withGroup)
	if vBound("GFULL") == 0 {
		for q := 0; q < vC20P; q++ {
			vAssume(t.ga[q] == 0 && t.gl[q] <= 1) // capture = empty or first element of the match / look-ahead
		}
	}
	r := vRuntime()
	rx := vC20StdRegexp(r, &regexpPattern{src: "x", unicode: full, regexp2Wrapper: &regexp2Wrapper{rx: vC20Rx()}})
	geo := vC20Geometry(u, full)
	lim := vNondetInt("limit")
	vAssume(lim >= -1 && lim <= vBound("LIM"))
	lim = vConcretize(lim)
	var limitValue Value = _undefined
	if lim >= 0 {
		limitValue = valueInt(lim)
	}
	vC20LastArray = nil
	var ret Value
	out := vCatch(func() {
		ret = r.regexpproto_stdSplitter(FunctionCall{This: rx.val, Arguments: []Value{s, limitValue}})
	})
	vAssert("split:no-throw", !out.panicked)
	if out.panicked {
		return
	}
	vAssert("split:took-the-optimised-path", rx.standard)
	vals := vC20LastArray
	if !vSymbolic() {
		vals = ret.(*Object).self.(*arrayObject).values
	}
	exp, abutEmpty := vC20RefSplit(t, geo, lim, withGroup)
	countOK := len(vals) == len(exp)
	if abutEmpty {
		vAssertK("split:length==spec", countOK, true, "F-C20-split-empty-match-abutting")
		return
	}
	vAssert("split:length==spec", countOK)
	if !countOK {
		return
	}
	ok := true
	capOK := true
	for i := range exp {
		a, b := exp[i].a, exp[i].b
		if a >= 0 {
			a, b = geo.off(a), geo.off(b)
		}
		if !vC20IsPiece(vals[i], u, a, b) {
			if withGroup && i%2 == 1 {
				capOK = false
			} else {
				ok = false
			}
		}
	}
	vAssert("split:substrings==spec", ok)
	vAssert("split:captures==spec", capOK)
}
