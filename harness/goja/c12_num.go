package goja

import (
	"math"

	"github.com/dop251/goja/ftoa"
)

// C12 / H12.2 — Number.prototype.toFixed / toExponential / toPrecision / toString front-ends
// (ECMA-262 21.1.3.2, .3, .5, .6): argument conversion, order of the NaN/Infinity cases and the
// RangeError, and the (mode, precision) / radix handed to the formatting kernels.
//
// In symbolic mode ftoa.FToStr / ftoa.FToBaseStr are replaced by an injective encoding of their
// arguments, so "result == FToStr(x, specMode, specDigits)" holds iff the arguments are the specified ones.

func vC12Marker(buf []byte, tag byte, a, b uint64) []byte {
	buf = append(buf, '<', tag)
	for i := 0; i < 8; i++ {
		buf = append(buf, byte(a>>(8*uint(i))))
	}
	for i := 0; i < 8; i++ {
		buf = append(buf, byte(b>>(8*uint(i))))
	}
	return append(buf, '>')
}

func vStubC12FToStr(d float64, mode ftoa.FToStrMode, precision int, buffer []byte) []byte {
	// non-finite values as the real FToStr prints them (established by H12.1)
	if d != d {
		return append(buffer, "NaN"...)
	}
	if d > math.MaxFloat64 {
		return append(buffer, "Infinity"...)
	}
	if d < -math.MaxFloat64 {
		return append(buffer, "-Infinity"...)
	}
	return vC12Marker(buffer, 'f', math.Float64bits(d), uint64(mode)<<32|uint64(uint32(precision)))
}

func vStubC12FToBaseStr(num float64, radix int) string {
	return string(vC12Marker(nil, 'b', math.Float64bits(num), uint64(radix)))
}

// integer-valued Numbers print as ToString(number) too
func vStubC12IntString(i valueInt) string {
	return string(ftoa.FToStr(float64(i), ftoa.ModeStandard, 0, nil))
}

// vC12Arg: undefined or an arbitrary Number
func vC12Arg(name string) (Value, bool) {
	if vNondetBool(name + ".undefined") {
		return _undefined, true
	}
	return vNumber(name), false
}

func refC12NonFinite(bits uint64) bool { return (bits>>52)&0x7ff == 0x7ff }

const (
	vC12Fixed = iota
	vC12Exponential
	vC12Precision
	vC12ToString
)

func vC12FrontEnd(which int) {
	r := vRuntime()
	x := vNumber("x")
	arg, undef := vC12Arg("digits")
	xf := math.Float64frombits(vNumberBits(x))
	nonFinite := refC12NonFinite(vNumberBits(x))
	var n int64 // ToIntegerOrInfinity(arg), clamped to int64
	if !undef {
		n = refToIntegerClamp(vNumberBits(arg))
	}

	// the specification
	wantRange := false
	var want string
	switch which {
	case vC12Fixed: // 21.1.3.3: range check first, then non-finite -> ToString
		if n < 0 || n > 100 {
			wantRange = true
		} else if nonFinite {
			want = string(ftoa.FToStr(xf, ftoa.ModeStandard, 0, nil))
		} else {
			want = string(ftoa.FToStr(xf, ftoa.ModeFixed, int(n), nil))
		}
	case vC12Exponential: // 21.1.3.2: non-finite -> ToString first, then range check
		if nonFinite {
			want = string(ftoa.FToStr(xf, ftoa.ModeStandard, 0, nil))
		} else if undef {
			want = string(ftoa.FToStr(xf, ftoa.ModeStandardExponential, 0, nil))
		} else if n < 0 || n > 100 {
			wantRange = true
		} else {
			want = string(ftoa.FToStr(xf, ftoa.ModeExponential, int(n)+1, nil))
		}
	case vC12Precision: // 21.1.3.5
		if undef || nonFinite {
			want = string(ftoa.FToStr(xf, ftoa.ModeStandard, 0, nil))
		} else if n < 1 || n > 100 {
			wantRange = true
		} else {
			want = string(ftoa.FToStr(xf, ftoa.ModePrecision, int(n), nil))
		}
	default: // 21.1.3.6: radix check first
		if undef {
			n = 10
		}
		if n < 2 || n > 36 {
			wantRange = true
		} else if nonFinite || n == 10 {
			want = string(ftoa.FToStr(xf, ftoa.ModeStandard, 0, nil))
		} else {
			want = ftoa.FToBaseStr(xf, int(n))
		}
	}

	call := FunctionCall{This: x}
	if !undef || vNondetBool("explicit-undefined") {
		call.Arguments = []Value{arg}
	}
	var ret Value
	out := vCatch(func() {
		switch which {
		case vC12Fixed:
			ret = r.numberproto_toFixed(call)
		case vC12Exponential:
			ret = r.numberproto_toExponential(call)
		case vC12Precision:
			ret = r.numberproto_toPrecision(call)
		default:
			ret = r.numberproto_toString(call)
		}
	})
	if wantRange {
		vAssert("frontend:RangeError-exactly-when-specified", out.panicked && out.kind == "RangeError")
		return
	}
	vAssert("frontend:no-throw-in-range", !out.panicked)
	if out.panicked {
		return
	}
	s, isStr := ret.(String)
	vAssert("frontend:returns-string", isStr)
	if isStr {
		vAssert("frontend:text==kernel(spec mode, spec digits)", s.String() == want)
	}
}

func H_C12_toFixed()       { vC12FrontEnd(vC12Fixed) }
func H_C12_toExponential() { vC12FrontEnd(vC12Exponential) }
func H_C12_toPrecision()   { vC12FrontEnd(vC12Precision) }
func H_C12_toString()      { vC12FrontEnd(vC12ToString) }

// ---------------------------------------------------------------------
// H12.3 — parseInt(string, radix) kernel (ECMA-262 19.2.5 steps 4-16 on the already trimmed string)

func refC12DigitVal(c byte) int {
	switch {
	case c >= '0' && c <= '9':
		return int(c - '0')
	case c >= 'a' && c <= 'z':
		return int(c-'a') + 10
	case c >= 'A' && c <= 'Z':
		return int(c-'A') + 10
	}
	return 99
}

// vC12RefParseInt: (sign, mathInt, isNaN) — ordinary forking code, run before the kernel
func vC12RefParseInt(s string, radix int) (neg bool, m int64, nan bool) {
	if len(s) > 0 && s[0] == '-' { // steps 4-5
		neg = true
	}
	if len(s) > 0 && (s[0] == '+' || s[0] == '-') {
		s = s[1:]
	}
	R := radix // steps 6-9 (radix already ToInt32'ed)
	strip := true
	if R != 0 {
		if R < 2 || R > 36 {
			return false, 0, true
		}
		if R != 16 {
			strip = false
		}
	} else {
		R = 10
	}
	if strip && len(s) >= 2 && s[0] == '0' && (s[1] == 'x' || s[1] == 'X') { // step 10
		s = s[2:]
		R = 16
	}
	cnt := 0
	for i := 0; i < len(s); i++ { // steps 11-14
		d := refC12DigitVal(s[i])
		if d >= R {
			break
		}
		m = m*int64(R) + int64(d)
		cnt++
	}
	if cnt == 0 {
		return false, 0, true
	}
	return neg, m, false
}

var vC12Radices = [...]int{0, 16, 37, 36, 10, 2, 8, 1, -10}

func H_C12_parseInt() {
	n := vNondetInt("len")
	vAssume(n >= 0 && n <= vBound("N"))
	n = vConcretize(n)
	s := vNondetString("s", n)
	ri := vNondetInt("radixIndex")
	vAssume(ri >= 0 && ri < vBound("R") && ri < len(vC12Radices))
	ri = vConcretize(ri)
	radix := vC12Radices[ri]

	neg, m, nan := vC12RefParseInt(s, radix)
	v, _ := parseInt(s, radix)

	if nan {
		f, isF := v.(valueFloat)
		vAssert("parseInt:NaN-exactly-when-no-digits-or-bad-radix", isF && float64(f) != float64(f))
		return
	}
	vAssert("parseInt:canonical", refCanonicalNumber(v))
	if neg && m == 0 {
		// step 15: mathInt = 0 and sign = -1 -> -0
		f, isF := v.(valueFloat)
		vAssertK("parseInt:value", isF && vFloat64bits(float64(f)) == 1<<63, true, "F-C12-parseInt-minus-zero")
		return
	}
	want := m
	if neg {
		want = -m
	}
	i, isI := v.(valueInt)
	vAssert("parseInt:value", isI && int64(i) == want)
}
