package goja

import "errors"

// ---------------------------------------------------------------------
// H03.2 / H10.2 / H14.1 / H15.2: the Go-boundary wrappers (runWrapped, RunProgram) around an
// arbitrary "script". The script is a harness closure that leaves the VM stacks unbalanced (as a
// program interrupted mid-way does), enqueues jobs, and then returns or panics with any payload.

type vWrapWorld struct {
	r       *Runtime
	m       *vm
	reentr  bool
	payload int // -1: normal completion
	arg     interface{}
	thrown  Value
	origEx  *Exception
	njobs   int
	jobLog  []int
	jobBad  int // index of the job that hits an uncatchable error (-1: none)
	nested  int // number of jobs enqueued by job 0 while the queue is being drained
	// entry levels
	eTry, eIter, eRef, eCall, eSp int
	eStash                       *stash
}

func vNewWrapWorld() *vWrapWorld {
	w := &vWrapWorld{r: vRuntime()}
	m := &vm{r: w.r}
	w.m = m
	w.r.vm = m
	m.maxCallStackSize = 1 << 30
	m.sb = -1
	m.stash = &stash{}
	w.eStash = m.stash
	w.reentr = vChoice("reentrant", 2) == 1
	if w.reentr {
		// called from a native function of an outer run: frames, operands and a try marker exist
		m.stack = make(valueStack, 8)
		for i := range m.stack {
			m.stack[i] = valueInt(200 + i)
		}
		m.sp = 3
		m.callStack = append(m.callStack, context{pc: 7, sb: 1})
		m.tryStack = append(m.tryStack, tryFrame{catchPos: tryPanicMarker, finallyPos: -1, finallyRet: -1, stash: m.stash})
		m.iterStack = append(m.iterStack, iterStackItem{})
		m.refStack = append(m.refStack, &unresolvedRef{runtime: w.r, name: "outer"})
	} else {
		m.stack = make(valueStack, 8)
	}
	w.eTry, w.eIter, w.eRef, w.eCall, w.eSp = len(m.tryStack), len(m.iterStack), len(m.refStack), len(m.callStack), m.sp
	w.payload = vChoice("payload", vpNumPayloads+1) - 1
	switch w.payload {
	case vpValue:
		w.thrown = valueInt(vNondetInt64("thrown"))
		w.arg = w.thrown
	case vpObject:
		o := &Object{runtime: w.r}
		w.thrown = o
		w.arg = o
	case vpException:
		w.thrown = valueInt(42)
		w.origEx = &Exception{val: w.thrown}
		w.arg = w.origEx
	case vpTypeError:
		w.arg = typeError("boom")
	case vpInterrupt:
		// an interrupt is raised by the poll in vm.run after Interrupt() set the flag
		m.Interrupt("stop")
		w.arg = &InterruptedError{iface: "stop"}
	case vpStackOvf:
		w.arg = &StackOverflowError{}
	case vpForeign:
		w.arg = errors.New("foreign")
	}
	w.njobs = vChoice("jobs", 3)
	w.jobBad = -1
	if w.njobs > 0 && vNondetBool("job.uncatchable") {
		w.jobBad = vChoice("job.bad", w.njobs)
	}
	w.nested = vChoice("job.enqueues", 3)
	return w
}

// the script's effects before the outcome: unbalanced stacks, queued jobs
func (w *vWrapWorld) unbalance() {
	m := w.m
	// a script frame entered a function, a try block, a for-of loop and pushed operands
	m.pushCtx()
	m.pushTryFrame(-1, -1) // a try statement whose handlers are already spent
	m.iterStack = append(m.iterStack, iterStackItem{})
	m.refStack = append(m.refStack, &unresolvedRef{runtime: w.r, name: "inner"})
	m.stack[m.sp] = valueInt(1)
	m.sp++
	m.newStash()
	for i := 0; i < w.njobs; i++ {
		id := i
		w.r.jobQueue = append(w.r.jobQueue, func() { w.job(id) })
	}
}

// the "script": unbalanced effects, jobs, then the outcome
func (w *vWrapWorld) script() {
	m := w.m
	w.unbalance()
	if w.payload >= 0 {
		panic(w.arg)
	}
	// normal completion: the script leaves everything balanced
	m.sp--
	m.refStack = m.refStack[:len(m.refStack)-1]
	m.iterStack = m.iterStack[:len(m.iterStack)-1]
	m.popTryFrame()
	m.popCtx()
}

func (w *vWrapWorld) job(id int) {
	w.jobLog = append(w.jobLog, id)
	if id == 0 {
		for n := 0; n < w.nested; n++ {
			nid := 100 + n
			w.r.jobQueue = append(w.r.jobQueue, func() { w.job(nid) })
		}
	}
	if id == w.jobBad {
		panic(&StackOverflowError{})
	}
}

type vWrapResult struct {
	err      error
	panicked bool
	panicVal interface{}
}

func (w *vWrapWorld) catchable() bool { return w.payload >= 0 && w.payload <= vpTypeError }

func (w *vWrapWorld) checkAfter(res vWrapResult, what string) {
	m := w.m
	// outcome classification (C14)
	jobFails := !w.reentr && w.jobBad >= 0 && (w.payload < 0 || w.catchable())
	switch {
	case jobFails:
		// the drain after the script hits an uncatchable error in a job: that error is what the host sees
		_, isSO := res.err.(*StackOverflowError)
		vAssert("job-uncatchable-error-returned", isSO && !res.panicked)
	case w.payload < 0:
		vAssert("normal:no-error", res.err == nil && !res.panicked)
	case w.catchable():
		ex, isEx := res.err.(*Exception)
		vAssert("catchable:exception-returned", isEx && !res.panicked)
		if isEx {
			if w.payload == vpException {
				vAssert("catchable:same-exception", ex == w.origEx)
			}
			if w.payload != vpTypeError {
				vAssert("catchable:value-identity", ex.val == w.thrown)
			}
		}
	case w.payload == vpInterrupt || w.payload == vpStackOvf:
		vAssert("uncatchable:returned-as-error", !res.panicked && res.err == w.arg)
	default:
		vAssert("foreign:repanicked-same-value", res.panicked && res.panicVal == w.arg)
	}
	// no execution state leaks (C03)
	vAssert("tryStack-restored", len(m.tryStack) == w.eTry)
	vAssert("iterStack-restored", len(m.iterStack) == w.eIter)
	vAssert("refStack-restored", len(m.refStack) == w.eRef)
	vAssert("callStack-restored", len(m.callStack) == w.eCall)
	if w.payload != vpForeign {
		vAssert("stash-restored", m.stash == w.eStash)
		if w.reentr {
			vAssert("sp-restored", m.sp == w.eSp)
		}
	}
	if !w.reentr && w.payload != vpForeign {
		// outermost call: the job queue is drained (C10) or dropped (C15) before control returns
		vAssert("jobQueue-empty", len(w.r.jobQueue) == 0)
		uncatchable := w.payload == vpInterrupt || w.payload == vpStackOvf
		if uncatchable {
			vAssert("uncatchable:no-job-ran", len(w.jobLog) == 0)
			vAssert("uncatchable:interrupt-flag-cleared", m.interrupted == 0)
		} else {
			// FIFO, each exactly once, nested job after the initially queued ones; a job hitting an
			// uncatchable error stops the drain
			want := w.njobs
			if w.jobBad >= 0 {
				want = w.jobBad + 1
			} else if w.njobs > 0 {
				want = w.njobs + w.nested
			}
			vAssert("jobs:count", len(w.jobLog) == want)
			ok := true
			for i := 0; i < len(w.jobLog); i++ {
				exp := i
				if i >= w.njobs {
					exp = 100 + i - w.njobs
				}
				if w.jobLog[i] != exp {
					ok = false
				}
			}
			vAssert("jobs:fifo", ok)
		}
	}
	if w.reentr {
		// a nested call must not touch the outer run's queue or interrupt state
		vAssert("reentrant:jobs-not-run", len(w.jobLog) == 0)
		vAssert("reentrant:jobs-kept", len(w.r.jobQueue) == w.njobs)
		if w.payload == vpInterrupt {
			vAssert("reentrant:interrupt-flag-kept", m.interrupted != 0)
		}
	}
}

func H_C03_runWrapped() {
	w := vNewWrapWorld()
	var res vWrapResult
	func() {
		defer func() {
			if x := recover(); x != nil {
				if _, isAssume := x.(vAssumeFailedMarker); isAssume {
					panic(x)
				}
				res.panicked = true
				res.panicVal = x
			}
		}()
		res.err = w.r.runWrapped(w.script)
	}()
	w.checkAfter(res, "runWrapped")
}

// RunProgram around the real vm.run loop: the program consists of one harness instruction that
// performs the script's effects, so the real interrupt poll and halting logic are executed too.
var vCurWrap *vWrapWorld

type vScriptInstr struct{}

func (vScriptInstr) exec(m *vm) {
	w := vCurWrap
	if w.payload == vpInterrupt {
		// Interrupt() arrives from another goroutine while the script is mid-way: unbalanced state,
		// then the next poll of the run loop raises the InterruptedError
		w.unbalance()
		m.Interrupt("stop")
		m.pc++
		return
	}
	w.script()
	m.pc = len(m.prg.code) // halt
}

type vNopInstr struct{}

func (vNopInstr) exec(m *vm) { m.pc++ }

func H_C03_RunProgram() {
	w := vNewWrapWorld()
	vCurWrap = w
	if w.payload == vpInterrupt {
		w.m.ClearInterrupt() // the flag is raised by the script instruction instead
	}
	prg := &Program{code: []instruction{vScriptInstr{}, vNopInstr{}, vNopInstr{}}}
	var res vWrapResult
	func() {
		defer func() {
			if x := recover(); x != nil {
				if _, isAssume := x.(vAssumeFailedMarker); isAssume {
					panic(x)
				}
				res.panicked = true
				res.panicVal = x
			}
		}()
		_, res.err = w.r.RunProgram(prg)
	}()
	if w.payload == vpInterrupt {
		ie, isIE := res.err.(*InterruptedError)
		vAssert("RunProgram:interrupted-error", isIE && !res.panicked)
		if isIE {
			vAssert("RunProgram:interrupt-value", ie.Value() == "stop")
			w.arg = res.err
		}
	}
	if w.reentr && w.payload != vpForeign {
		// RunProgram's own frame (callee/this slots) is removed again
		vAssert("RunProgram:sp", w.m.sp == w.eSp)
	}
	w.checkAfter(res, "RunProgram")
}
