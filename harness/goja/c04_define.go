package goja

import "github.com/dop251/goja/unistring"

// ---------------------------------------------------------------------
// C04 / H04.1 — baseObject._defineOwnProperty against ECMA-262 10.1.6.3
// ValidateAndApplyPropertyDescriptor, over the whole decision table.
//
// Encoding shared by the C04 and C11 harnesses:
//   kind   : 0 absent, 1 data, 2 accessor
//   flag   : goja's Flag (0 not set, 1 false, 2 true)
//   fn id  : -1 field absent, 0 undefined, 1 function f1, 2 function f2
//   value  : absent / undefined / a Number with symbolic payload (SameValue = payload equality)

// a callable object that needs no global object (works natively and symbolically)
func vC04Func(r *Runtime) *Object {
	o := &Object{runtime: r}
	f := &nativeFuncObject{}
	f.val = o
	f.class = classFunction
	f.extensible = true
	f.f = func(FunctionCall) Value { return _undefined }
	f.baseObject.init()
	o.self = f
	return o
}

// a bare ordinary object
func vC04Obj(r *Runtime, extensible bool) (*Object, *baseObject) {
	o := &Object{runtime: r}
	b := &baseObject{class: classObject, val: o, extensible: extensible}
	b.init()
	o.self = b
	return o, b
}

type vC04World struct {
	r      *Runtime
	f1, f2 *Object
}

func vC04NewWorld() *vC04World {
	r := vRuntime()
	return &vC04World{r: r, f1: vC04Func(r), f2: vC04Func(r)}
}

func (w *vC04World) fnOf(id int) *Object {
	switch id {
	case 1:
		return w.f1
	case 2:
		return w.f2
	}
	return nil
}

// descriptor field for a getter/setter id
func (w *vC04World) fnField(id int) Value {
	switch id {
	case 0:
		return _undefined
	case 1:
		return w.f1
	case 2:
		return w.f2
	}
	return nil
}

func (w *vC04World) idOf(o *Object) int {
	if o == nil {
		return 0
	}
	if o == w.f1 {
		return 1
	}
	if o == w.f2 {
		return 2
	}
	return 99
}

// a small choice, concretized (pointer-valued choices cannot be merged)
func vC04Choice(name string, lo, hi int) int {
	x := vNondetInt(name)
	vAssume(x >= lo && x <= hi)
	return vConcretize(x)
}

// a JS value for a data property: undefined or a Number with symbolic payload
func vC04DataValue(name string) Value {
	if vC04Choice(name+".isUndef", 0, 1) == 1 {
		return _undefined
	}
	i := vNondetInt64(name + ".i")
	vAssume(i >= -(1<<53) && i <= 1<<53)
	return valueInt(i)
}

func vC04CurValue(name string, anyValue bool) Value {
	if anyValue {
		return vC04DataValue(name)
	}
	i := vNondetInt64(name + ".i")
	vAssume(i >= -(1<<53) && i <= 1<<53)
	return valueInt(i)
}

// SameValue restricted to the value universe of these harnesses (nil = absent)
func vC04SameValue(a, b Value) bool {
	if a == nil || b == nil {
		return a == nil && b == nil
	}
	if x, ok := a.(valueInt); ok {
		if y, ok := b.(valueInt); ok {
			return int64(x) == int64(y)
		}
		return false
	}
	if _, ok := b.(valueInt); ok {
		return false
	}
	return a == b
}

// the current property, both as goja's representation and as a spec record
type vC04Cur struct {
	kind    int
	w, e, c bool
	value   Value // data
	g, s    int   // accessor (0 undefined, 1, 2)
	// goja representation
	repr Value
	// accessor records reached through a data->accessor conversion keep the old writable bit
	staleWritable bool
}

// vC04Current draws an arbitrary current property state. maxFn bounds the function ids of the current
// accessor (by symmetry id 2 adds nothing when the descriptor ranges over {undefined, f1, f2}).
func (w *vC04World) current(name string, allowAbsent bool, maxFn int, anyValue bool) *vC04Cur {
	cur := &vC04Cur{}
	lo := 1
	if allowAbsent {
		lo = 0
	}
	// shape: 0 absent, 1 plain value (all-true data), 2 data valueProperty, 3 accessor valueProperty
	shape := vC04Choice(name+".shape", lo, 3)
	switch shape {
	case 0:
		cur.kind = 0
	case 1:
		cur.kind = 1
		cur.w, cur.e, cur.c = true, true, true
		cur.value = vC04CurValue(name+".value", anyValue)
		cur.repr = cur.value
	case 2:
		cur.kind = 1
		cur.w = vNondetBool(name + ".writable")
		cur.e = vNondetBool(name + ".enumerable")
		cur.c = vNondetBool(name + ".configurable")
		cur.value = vC04CurValue(name+".value", anyValue)
		cur.repr = &valueProperty{value: cur.value, writable: cur.w, enumerable: cur.e, configurable: cur.c}
	default:
		cur.kind = 2
		cur.e = vNondetBool(name + ".enumerable")
		cur.c = vNondetBool(name + ".configurable")
		cur.g = vC04Choice(name+".getter", 0, maxFn)
		cur.s = vC04Choice(name+".setter", 0, maxFn)
		// the writable bit of an accessor record is not observable; goja leaves it at whatever the
		// record had before it became an accessor (reachable: {x:1} -> defineProperty(get) keeps true)
		// representation invariant (maintained by _defineOwnProperty since the fix of
		// F-C04-accessor-to-data-stale-writable and by every literal/template producer): an accessor
		// property never carries writable=true
		cur.staleWritable = vNondetBool(name + ".staleWritable")
		vAssume(!cur.staleWritable)
		cur.repr = &valueProperty{accessor: true, writable: cur.staleWritable, enumerable: cur.e, configurable: cur.c,
			getterFunc: w.fnOf(cur.g), setterFunc: w.fnOf(cur.s)}
	}
	return cur
}

type vC04Desc struct {
	d          PropertyDescriptor
	hasV       bool
	dG, dS     int // -1 absent
	dW, dE, dC int
}

func vC04Flag(name string) Flag {
	f := vNondetInt(name)
	vAssume(f >= 0 && f <= 2)
	return Flag(f)
}

// vC04Descriptor draws an arbitrary *valid* descriptor (ToPropertyDescriptor never yields both accessor and
// data fields). family: 0 = generic/data descriptors, 1 = accessor descriptors.
func (w *vC04World) descriptor(name string, family int, cur *vC04Cur) *vC04Desc {
	d := &vC04Desc{dG: -1, dS: -1}
	d.d.Enumerable = vC04Flag(name + ".enumerable")
	d.d.Configurable = vC04Flag(name + ".configurable")
	if family == 0 {
		d.d.Writable = vC04Flag(name + ".writable")
		if vC04Choice(name+".hasValue", 0, 1) == 1 {
			d.hasV = true
			d.d.Value = vC04DataValue(name + ".value")
		}
	} else {
		d.dG = vC04Choice(name+".get", -1, 2)
		d.dS = vC04Choice(name+".set", -1, 2)
		vAssume(d.dG >= 0 || d.dS >= 0)
		// symmetry: against an undefined current function, f1 and f2 are both just "another function"
		vAssume(!(cur != nil && cur.kind == 2 && cur.g == 0 && d.dG == 2))
		vAssume(!(cur != nil && cur.kind == 2 && cur.s == 0 && d.dS == 2))
		d.d.Getter = w.fnField(d.dG)
		d.d.Setter = w.fnField(d.dS)
	}
	d.dW, d.dE, d.dC = int(d.d.Writable), int(d.d.Enumerable), int(d.d.Configurable)
	return d
}

// ---- the reference: ECMA-262 10.1.6.3 ValidateAndApplyPropertyDescriptor ----

type refC04Result struct {
	ok      bool
	kind    int
	w, e, c bool
	vsel    int // data value: 0 undefined, 1 Desc.[[Value]], 2 current value
	g, s    int
}

const (
	refFlagNotSet = 0
	refFlagFalse  = 1
	refFlagTrue   = 2
)

func refAnd(a, b bool) bool { return a && b }
func refOr(a, b bool) bool  { return a || b }

// (not summarised: the name does not start with ref, so that the engine if-converts every line)
// The reference is written as a sequence of two-operand boolean assignments and simple conditional
// assignments (each is if-converted by the engine: the summary stays a single path).
// Step numbers refer to ECMA-262 10.1.6.3. a != b on booleans is exclusive or.
func specC04Validate(ext bool, curKind int, curW, curE, curC bool, curG, curS int,
	dW, dE, dC int, dHasV bool, dSameV bool, dG, dS int) refC04Result {
	hasG := dG >= 0
	hasS := dS >= 0
	hasW := dW != refFlagNotSet
	hasE := dE != refFlagNotSet
	hasC := dC != refFlagNotSet
	dWb := dW == refFlagTrue
	dEb := dE == refFlagTrue
	dCb := dC == refFlagTrue
	descAccessor := hasG || hasS
	descData := dHasV || hasW
	descSpecific := descAccessor || descData // not a generic descriptor
	absent := curKind == 0
	present := !absent
	curData := curKind == 1
	curAccessor := curKind == 2

	// 2.a: absent and not extensible
	rejAbsent := absent && !ext

	// 5.a Desc.[[Configurable]] is true
	rej := dCb
	// 5.b Desc has [[Enumerable]] and it differs
	eDiffers := dEb != curE
	rej5b := hasE && eDiffers
	rej = rej || rej5b
	// 5.c not generic and the kind differs
	kindDiffers := descAccessor != curAccessor
	rej5c := descSpecific && kindDiffers
	rej = rej || rej5c
	// 5.d accessor: Desc has [[Get]] / [[Set]] and SameValue is false
	gDiffers := dG != curG
	sDiffers := dS != curS
	rejG := hasG && gDiffers
	rejS := hasS && sDiffers
	rejGS := rejG || rejS
	rej5d := curAccessor && rejGS
	rej = rej || rej5d
	// 5.e non-writable data: Desc.[[Writable]] true, or Desc has [[Value]] and SameValue is false
	vDiffers := dHasV && !dSameV
	rejWV := dWb || vDiffers
	roData := curData && !curW
	rej5e := roData && rejWV
	rej = rej || rej5e
	// step 5 applies to a present, non-configurable current property only
	nonConfigurable := present && !curC
	rejPresent := nonConfigurable && rej

	var res refC04Result
	rejected := rejAbsent || rejPresent
	res.ok = !rejected

	// [[Enumerable]] / [[Configurable]]: the Desc field if present, else the current one (absent: default false)
	keepE := present && !hasE
	keptE := keepE && curE
	res.e = keptE || dEb
	keepC := present && !hasC
	keptC := keepC && curC
	res.c = keptC || dCb

	// 2.c / 6.a an accessor descriptor creates / converts to an accessor; 6.c a generic one leaves an accessor alone
	staysAccessor := curAccessor && !descData
	toAccessor := descAccessor || staysAccessor
	res.kind = 1
	if toAccessor {
		res.kind = 2
	}
	// 6.c keeps the function not mentioned; 2.c / 6.a default it to undefined
	g := 0
	if curAccessor {
		g = curG
	}
	if hasG {
		g = dG
	}
	if !toAccessor {
		g = 0
	}
	res.g = g
	st := 0
	if curAccessor {
		st = curS
	}
	if hasS {
		st = dS
	}
	if !toAccessor {
		st = 0
	}
	res.s = st
	// data attributes: 2.d / 6.b default to false / undefined, 6.c keeps the current ones
	keepW := curData && !hasW
	keptW := keepW && curW
	wr := keptW || dWb
	res.w = wr && !toAccessor
	vsel := 0
	if curData {
		vsel = 2
	}
	if dHasV {
		vsel = 1
	}
	if toAccessor {
		vsel = 0
	}
	res.vsel = vsel
	return res
}

func refC04ValueOK(vsel int, eqUndef, eqDesc, eqCur bool) bool {
	switch vsel {
	case 0:
		return eqUndef
	case 1:
		return eqDesc
	}
	return eqCur
}

// known defect classes (see known_findings.d/C04.json)
// F-C04-kind-change-nonconfigurable: the kind check looks at Value / *object-valued* Get/Set only
func refC04KnownKindChange(curKind int, curC bool, dW int, dHasV bool, dG, dS int) bool {
	if curC {
		return false
	}
	if curKind == 2 {
		return dW != refFlagNotSet && !dHasV
	}
	if curKind == 1 {
		return (dG >= 0 || dS >= 0) && dG <= 0 && dS <= 0
	}
	return false
}

// F-C04-accessor-to-data-stale-writable: accessor -> data conversion keeps the record's old writable bit
func refC04KnownStaleWritable(curKind int, curC bool, stale bool, dW int, dHasV bool) bool {
	return curKind == 2 && curC && stale && dHasV && dW == refFlagNotSet
}

// the record goja produced
type vC04Got struct {
	kind    int
	w, e, c bool
	value   Value
	g, s    int
}

func (w *vC04World) decode(v Value) vC04Got {
	if p, ok := v.(*valueProperty); ok {
		kind := 1
		if p.accessor {
			kind = 2
		}
		return vC04Got{kind: kind, w: p.writable, e: p.enumerable, c: p.configurable, value: p.value,
			g: w.idOf(p.getterFunc), s: w.idOf(p.setterFunc)}
	}
	return vC04Got{kind: 1, w: true, e: true, c: true, value: v}
}

// refImp: a ⇒ b
func refImp(a, b bool) bool { return !a || b }

func hC04Define(family int) {
	w := vC04NewWorld()
	ext := vNondetBool("extensible")
	_, b := vC04Obj(w.r, ext)
	cur := w.current("cur", true, 1, family == 0)
	d := w.descriptor("desc", family, cur)
	throw := vNondetBool("throw")

	sameV := false
	if d.hasV && cur.kind == 1 {
		sameV = vC04SameValue(d.d.Value, cur.value)
	}
	ref := specC04Validate(ext, cur.kind, cur.w, cur.e, cur.c, cur.g, cur.s, d.dW, d.dE, d.dC, d.hasV, sameV, d.dG, d.dS)
	kKind := refC04KnownKindChange(cur.kind, cur.c, d.dW, d.hasV, d.dG, d.dS)
	kStale := refC04KnownStaleWritable(cur.kind, cur.c, cur.staleWritable, d.dW, d.hasV)

	var val Value
	var ok bool
	out := vCatch(func() { val, ok = b._defineOwnProperty(unistring.String("p"), cur.repr, d.d, throw) })

	if out.panicked {
		vAssert("define:throws-only-TypeError", out.kind == "TypeError")
		vAssert("define:throws-only-when-asked", throw)
		vAssert("define:throw==reject", !ref.ok)
		return
	}
	vAssertK("define:accept==ValidateAndApply", ok == ref.ok, kKind, "F-C04-kind-change-nonconfigurable")
	if !ok {
		vAssert("define:reject-returns-false-iff-no-throw", !throw)
		return
	}
	got := w.decode(val)
	present := cur.kind != 0
	nc := refAnd(present, !cur.c)
	// --- essential invariants, stated independently of the reference algorithm ---
	vAssert("inv:non-extensible-gains-no-key", refOr(present, ext))
	vAssert("inv:nonconfigurable-stays-nonconfigurable", refImp(nc, !got.c))
	vAssert("inv:nonconfigurable-keeps-enumerable", refImp(nc, got.e == cur.e))
	vAssertK("inv:nonconfigurable-keeps-kind", refImp(nc, got.kind == cur.kind), kKind, "F-C04-kind-change-nonconfigurable")
	roData := refAnd(refAnd(nc, cur.kind == 1), refAnd(!cur.w, got.kind == 1))
	vAssert("inv:nonwritable-stays-nonwritable", refImp(roData, !got.w))
	vAssert("inv:nonwritable-keeps-value", refImp(roData, vC04SameValue(got.value, cur.value)))
	ncAcc := refAnd(nc, refAnd(cur.kind == 2, got.kind == 2))
	vAssert("inv:nonconfigurable-accessor-keeps-functions", refImp(ncAcc, refAnd(got.g == cur.g, got.s == cur.s)))
	// --- the resulting record equals the reference ---
	both := ref.ok
	vAssert("define:result-kind", refImp(both, got.kind == ref.kind))
	vAssert("define:result-enumerable", refImp(both, got.e == ref.e))
	vAssert("define:result-configurable", refImp(both, got.c == ref.c))
	data := refAnd(both, refAnd(got.kind == 1, ref.kind == 1))
	vAssertK("define:result-writable", refImp(data, got.w == ref.w), kStale, "F-C04-accessor-to-data-stale-writable")
	vAssert("define:result-value", refImp(data, refC04ValueOK(ref.vsel, got.value == _undefined,
		vC04SameValue(got.value, d.d.Value), vC04SameValue(got.value, cur.value))))
	acc := refAnd(both, refAnd(got.kind == 2, ref.kind == 2))
	// the representation invariant assumed for the pre-state is re-established (inductive step)
	rawW := false
	if p, isProp := val.(*valueProperty); isProp {
		rawW = p.accessor && p.writable
	}
	vAssert("inv:accessor-never-writable", !rawW)
	vAssert("define:result-getter", refImp(acc, got.g == ref.g))
	vAssert("define:result-setter", refImp(acc, got.s == ref.s))
}

// H04.1a: generic and data descriptors
func H_C04_define_data() { hC04Define(0) }

// H04.1b: accessor descriptors
func H_C04_define_accessor() { hC04Define(1) }
