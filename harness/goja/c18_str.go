package goja

import "hash/maphash"

// H18.3c — string keys that reach a Map/Set from the Go host (Runtime.ToValue(string)) in different byte
// forms. runtime.go documents: "The string value must be a valid UTF-8. If it is not, invalid characters are
// replaced with utf8.RuneError" — so the ECMAScript value of a host string is the UTF-16 form of its
// decoding with U+FFFD replacement, and SameValueZero on strings is equality of those code unit sequences.

// maphash in symbolic mode: an uninterpreted function of the bytes written (equal bytes => equal hash)
var vC18HashBuf []byte

func vStubC18HashWriteString(h *maphash.Hash, s string) (int, error) {
	vC18HashBuf = append(vC18HashBuf, s...)
	return len(s), nil
}
func vStubC18HashSum64(h *maphash.Hash) uint64 {
	acc := uint64(len(vC18HashBuf))
	var pack uint64
	for i, b := range vC18HashBuf {
		pack = pack<<8 | uint64(b)
		if i%8 == 7 {
			acc = vUF64("maphash", acc, pack)
			pack = 0
		}
	}
	return vUF64("maphash", acc, pack)
}
func vStubC18HashReset(h *maphash.Hash) { vC18HashBuf = vC18HashBuf[:0] }

// refC18Units: UTF-16 form of the UTF-8 decoding (Go / WHATWG replacement: one U+FFFD per offending byte) of a
// byte string of n <= 3 bytes; result packed as count<<48 | u0<<32 | u1<<16 | u2
func refC18Units(b0, b1, b2 byte, n int) uint64 {
	var u [3]uint64
	cnt := 0
	bs := [5]byte{b0, b1, b2, 0, 0}
	pos := 0
	for k := 0; k < 3; k++ {
		if pos >= n {
			break
		}
		c0, c1, c2 := bs[pos], bs[pos+1], bs[pos+2]
		rem := n - pos
		cp := uint64(0xFFFD)
		w := 1
		switch {
		case c0 < 0x80:
			cp = uint64(c0)
		case c0 >= 0xC2 && c0 <= 0xDF:
			if rem >= 2 && c1 >= 0x80 && c1 <= 0xBF {
				cp = uint64(c0&0x1F)<<6 | uint64(c1&0x3F)
				w = 2
			}
		case c0 >= 0xE0 && c0 <= 0xEF:
			lo, hi := byte(0x80), byte(0xBF)
			if c0 == 0xE0 {
				lo = 0xA0
			}
			if c0 == 0xED {
				hi = 0x9F
			}
			if rem >= 3 && c1 >= lo && c1 <= hi && c2 >= 0x80 && c2 <= 0xBF {
				cp = uint64(c0&0x0F)<<12 | uint64(c1&0x3F)<<6 | uint64(c2&0x3F)
				w = 3
			}
		}
		u[cnt] = cp
		cnt++
		pos += w
	}
	return uint64(cnt)<<48 | u[0]<<32 | u[1]<<16 | u[2]
}

func vC18HostString(name string) (string, uint64) {
	n := vNondetInt(name + ".len")
	vAssume(n >= 1 && n <= vBound("L"))
	n = vConcretize(n)
	b := vNondetBytes(name, n)
	bs := [3]byte{}
	copy(bs[:], b)
	return string(b), refC18Units(bs[0], bs[1], bs[2], n)
}

func H_C18_strkeys() {
	r := vRuntime()
	a, ua := vC18HostString("a")
	// the partner: a fixed host string in each byte class
	sel := vNondetInt("b.sel")
	vAssume(sel >= 0 && sel <= vBound("P"))
	sel = vConcretize(sel)
	b, ub := "\xef\xbf\xbd", uint64(1<<48|0xFFFD<<32) // U+FFFD, well-formed
	switch sel {
	case 2:
		b, ub = "\xfe", uint64(1<<48|0xFFFD<<32) // ill-formed: decodes to U+FFFD
	case 1:
		b, ub = "A", uint64(1<<48|0x41<<32)
	case 3:
		b, ub = "\xc3\xa9", uint64(1<<48|0xE9<<32) // U+00E9
	}
	va, vb := r.ToValue(a), r.ToValue(b)
	same := ua == ub
	// known class: two host strings with different bytes (so at least one is ill-formed UTF-8) and the same value
	known := same && a != b
	vAssertK("host-strings:SameAs==code-unit-equality", va.SameAs(vb) == same, known, "F-C18-imported-string-invalid-utf8-equality")
	vAssert("host-strings:SameAs-symmetric", va.SameAs(vb) == vb.SameAs(va))
	m := newOrderedMap(&maphash.Hash{})
	m.set(va, valueInt(1))
	vAssertK("host-strings:has-after-set", m.has(vb) == same, known, "F-C18-imported-string-invalid-utf8-equality")
	m.set(vb, valueInt(2))
	sz := 2
	if same {
		sz = 1
	}
	vAssertK("host-strings:size", m.size == sz, known, "F-C18-imported-string-invalid-utf8-equality")
}
