package goja

// H15.1: poll latency of the real vm.run loop. A program of N counting instructions; the instruction at
// a chosen index is where Interrupt(v) (called from another goroutine) takes effect. At most that one
// instruction completes after the flag is set: the very next poll raises *InterruptedError carrying v.
// ClearInterrupt() before the poll cancels it.

var vPollExecuted int
var vPollAt int
var vPollClear bool
var vPollValue interface{}

type vPollInstr struct{ idx int }

func (p vPollInstr) exec(m *vm) {
	vPollExecuted++
	if p.idx == vPollAt {
		m.Interrupt(vPollValue)
		if vPollClear {
			m.ClearInterrupt()
		}
	}
	m.pc++
}

func H_C15_pollLatency() {
	r := vRuntime()
	m := &vm{r: r}
	r.vm = m
	m.maxCallStackSize = 1 << 30
	m.stack = make(valueStack, 4)
	m.stash = &stash{}
	n := vBound("N")
	code := make([]instruction, n)
	for i := range code {
		code[i] = vPollInstr{i}
	}
	m.prg = &Program{code: code}
	vPollExecuted = 0
	vPollAt = vChoice("interrupt.at", n+1) - 1 // -1: never; otherwise the index of the instruction during which it arrives
	vPollClear = vChoice("cleared", 2) == 1
	vPollValue = "why"
	pre := vChoice("flag-set-before-run", 2) == 1
	if pre {
		m.Interrupt("early")
	}
	var got interface{}
	func() {
		defer func() {
			if x := recover(); x != nil {
				if _, isAssume := x.(vAssumeFailedMarker); isAssume {
					panic(x)
				}
				got = x
			}
		}()
		m.run()
	}()
	ie, isIE := got.(*InterruptedError)
	switch {
	case pre:
		// idle interrupt: the first poll fires before any instruction
		vAssert("pre-set:fires-before-first-instruction", isIE && vPollExecuted == 0 && ie.Value() == "early")
	case vPollAt >= 0 && !vPollClear:
		vAssert("interrupt:at-most-the-current-instruction-completes", isIE && vPollExecuted == vPollAt+1)
		if isIE {
			vAssert("interrupt:carries-value", ie.Value() == "why")
		}
		vAssert("interrupt:pc-after-the-interrupted-instruction", m.pc == vPollAt+1)
	default:
		vAssert("no-interrupt:runs-to-completion", got == nil && vPollExecuted == n && m.pc == n)
	}
}
