package goja

import (
	"math"
	"unsafe"

	"github.com/dop251/goja/unistring"
)

// ---------------------------------------------------------------------
// C17, second wave (H17.4 ...): set(typedArray), sort with a detaching comparator, ArrayBuffer.prototype.slice,
// DataView / TypedArray(typedArray) constructors, toReversed / toSorted / slice with the default species.
// Reuses vTAWorld / vC17* of c17_ta.go, c17_bulk.go, c17_dv.go.

// the bare symbolic Runtime has nil element constructors: every typedArrayObject.defaultCtor would be nil
// and `src.defaultCtor == ta.defaultCtor` always true. Symbolically the constructors are distinct marker
// objects; natively the real constructors are created.
func vC17MoreCtors(r *Runtime) {
	if !vSymbolic() {
		vC17EnsureCtors(r)
		return
	}
	if r.global.Uint8Array != nil {
		return
	}
	r.global.Uint8Array = vC17NewKindCtor(r, vkUint8)
	r.global.Uint8ClampedArray = vC17NewKindCtor(r, vkUint8Clamped)
	r.global.Int8Array = vC17NewKindCtor(r, vkInt8)
	r.global.Uint16Array = vC17NewKindCtor(r, vkUint16)
	r.global.Int16Array = vC17NewKindCtor(r, vkInt16)
	r.global.Uint32Array = vC17NewKindCtor(r, vkUint32)
	r.global.Int32Array = vC17NewKindCtor(r, vkInt32)
	r.global.Float32Array = vC17NewKindCtor(r, vkFloat32)
	r.global.Float64Array = vC17NewKindCtor(r, vkFloat64)
}

// vC17FnObj: an object that is a constructor (construct), a callable (call) and whose @@species is itself.
// Works identically in both modes (the real speciesConstructor / toConstructor / assertCallable code runs).
type vC17FnObj struct {
	*baseObject
	construct func(args []Value, newTarget *Object) *Object
	call      func(FunctionCall) Value
}

func (f *vC17FnObj) assertConstructor() func(args []Value, newTarget *Object) *Object {
	return f.construct
}

func (f *vC17FnObj) assertCallable() (func(FunctionCall) Value, bool) {
	return f.call, f.call != nil
}

func (f *vC17FnObj) getSym(s *Symbol, receiver Value) Value {
	if s == SymSpecies {
		return f.val
	}
	return nil
}

func vC17NewFnObj(r *Runtime, construct func(args []Value, newTarget *Object) *Object, call func(FunctionCall) Value) *Object {
	o := &Object{runtime: r}
	b := &baseObject{class: classObject, val: o, extensible: true}
	o.self = &vC17FnObj{baseObject: b, construct: construct, call: call}
	b.init()
	return o
}

// symbolic stand-in for the intrinsic %Uint8Array% ...: `new Ctor(n)` is a fresh zero-filled array of n elements
func vC17NewKindCtor(r *Runtime, kind int) *Object {
	return vC17NewFnObj(r, func(args []Value, newTarget *Object) *Object {
		n := vConcretize(int(args[0].ToInteger()))
		buf := r._newArrayBuffer(nil, nil)
		buf.data = make([]byte, n*vElemSize(kind))
		return vC17NewTA(r, kind, buf, 0, n).val
	}, nil)
}

// vC17RawPick: little-endian raw element of `size` bytes at the symbolic byte position pos (ite chain, no
// bounds query; positions outside b contribute 0)
func vC17RawPick(b []byte, pos, size int) uint64 {
	var r uint64
	for q := 0; q < len(b); q++ {
		for j := 0; j < size; j++ {
			if q == pos+j {
				r |= uint64(b[q]) << (8 * uint(j))
			}
		}
	}
	return r
}

func vC17IsFloatKind(k int) bool { return k == vkFloat32 || k == vkFloat64 }

// refC17RawOfBits: NumericToRawBytes of the Number with the float64 bit pattern `bits` (little-endian raw)
func refC17RawOfBits(kind int, bits uint64) uint64 {
	switch kind {
	case vkUint8, vkInt8:
		return uint64(refToUint8(bits))
	case vkUint8Clamped:
		return uint64(refToUint8Clamp(bits))
	case vkUint16, vkInt16:
		return uint64(refToUint16(bits))
	case vkUint32, vkInt32:
		return uint64(refToUint32(bits))
	case vkFloat32:
		return uint64(math.Float32bits(float32(math.Float64frombits(bits))))
	}
	return bits
}

// refC17Convert: raw element of kind ks -> raw element of kind kd: RawBytesToNumeric then NumericToRawBytes
// (integer -> integer kinds stay in integer arithmetic; anything involving a float kind goes through the
// Number's float64 bit pattern)
func refC17Convert(kd, ks int, sraw uint64) uint64 {
	if ks == vkFloat32 || ks == vkFloat64 {
		return refC17RawOfBits(kd, math.Float64bits(refValueOfRaw(ks, sraw)))
	}
	v := refC17ElemInt(ks, sraw)
	if kd == vkFloat32 {
		return uint64(math.Float32bits(float32(float64(v))))
	}
	if kd == vkFloat64 {
		return math.Float64bits(float64(v))
	}
	return refC17RawInt(kd, v)
}

// refC17Sel: byte k of raw when sel, else old
func refC17Sel(old byte, sel bool, raw uint64, k int) byte {
	if sel && k >= 0 && k < 8 {
		return byte(raw >> (8 * uint(k)))
	}
	return old
}

// ---------------------------------------------------------------------
// H17.4 set(typedArray, offset): SetTypedArrayFromTypedArray (ECMA-262 23.2.3.26.1)

// (target kind, source kind)
var vC17SetPairs = [][2]int{
	{vkInt8, vkUint8},         // same element size, different type: direction chosen by address comparison
	{vkUint8, vkInt16},        // target elements smaller
	{vkInt16, vkUint8},        // target elements bigger
	{vkUint16, vkUint16},      // same type: byte copy (memmove)
	{vkUint8Clamped, vkInt16}, // clamping conversion
	{vkUint32, vkInt16},
	{vkInt16, vkInt32},
	{vkFloat32, vkInt16}, // int -> float32
	{vkInt32, vkFloat32}, // float32 -> int (NaN -> 0, modular)
}

type vC17Pair struct {
	r                *Runtime
	dbuf, sbuf       *arrayBufferObject
	dorig, dbefore   []byte
	sorig, sbefore   []byte
	dst, src         *typedArrayObject
	kd, ks, dsz, ssz int
	L                int
	mode             int // 0 same buffer, 1 other buffer (source address lower), 2 other buffer (source address higher)
}

func vC17View(name string, r *Runtime, kind int, buf *arrayBufferObject, L int) *typedArrayObject {
	size := vElemSize(kind)
	off := vNondetInt(name + ".offset")
	length := vNondetInt(name + ".length")
	vAssume(off >= 0 && off <= L)
	vAssume(length >= 0 && length <= L)
	vAssume((off+length)*size <= L)
	return vC17NewTA(r, kind, buf, off, length)
}

func vC17NewPair(pair int) *vC17Pair {
	w := &vC17Pair{r: vRuntime()}
	vC17MoreCtors(w.r)
	w.kd, w.ks = vC17SetPairs[pair][0], vC17SetPairs[pair][1]
	w.dsz, w.ssz = vElemSize(w.kd), vElemSize(w.ks)
	w.L = vBound("L")
	w.mode = vChoice("mode", 3)
	w.dorig = vNondetBytes("dst.data", w.L)
	w.dbefore = append([]byte{}, w.dorig...)
	w.dbuf = w.r._newArrayBuffer(nil, nil)
	w.dbuf.data = w.dorig
	if w.mode == 0 {
		w.sbuf, w.sorig, w.sbefore = w.dbuf, w.dorig, w.dbefore
	} else {
		w.sorig = vNondetBytes("src.data", w.L)
		w.sbefore = append([]byte{}, w.sorig...)
		w.sbuf = w.r._newArrayBuffer(nil, nil)
		w.sbuf.data = w.sorig
		// the engine numbers storage objects in the order their address is first taken
		if w.mode == 1 {
			vC17Touch(w.sorig)
			vC17Touch(w.dorig)
		} else {
			vC17Touch(w.dorig)
			vC17Touch(w.sorig)
		}
	}
	w.dst = vC17View("dst", w.r, w.kd, w.dbuf, w.L)
	w.src = vC17View("src", w.r, w.ks, w.sbuf, w.L)
	return w
}

var vC17TouchSink uintptr

func vC17Touch(b []byte) {
	if len(b) > 0 {
		vC17TouchSink += uintptr(unsafe.Pointer(&b[0]))
	}
}

func H_C17_setTA() {
	np := len(vC17SetPairs)
	if b := vBound("PAIRS"); b > 0 && b < np {
		np = b
	}
	w := vC17NewPair(vChoice("pair", np))
	// detach: -1 never, 0 offset coercion detaches the target buffer, 1 offset coercion detaches the source
	// buffer, 2 source buffer detached before the call
	which := vNondetInt("detach")
	vAssume(which >= -1 && which <= 2)
	if w.mode == 0 {
		vAssume(which <= 0)
	}
	if which == 2 {
		w.sbuf.detach()
	}
	offArg := vC17IntArg("offset", func() {
		if which == 0 {
			w.dbuf.detach()
		}
		if which == 1 {
			w.sbuf.detach()
		}
	})
	out, goPanic := vC07CatchAll(func() {
		w.r.typedArrayProto_set(FunctionCall{This: w.dst.val, Arguments: []Value{w.src.val, offArg}})
	})
	to := offArg.i
	lt, ls := int64(w.dst.length), int64(w.src.length)
	want := 0
	if to < 0 {
		want = 1
	} else if w.dbuf.detached || w.sbuf.detached {
		want = 2
	} else if to > lt || ls > lt-to {
		want = 1
	}
	// known: with different element types goja takes &data[byteOffset] of both views before looking at the
	// length: an EMPTY source whose view starts at the end of its buffer (or an empty buffer), or a target
	// position at the end of the target buffer, is a Go index-out-of-range panic
	srcAtEnd := w.src.offset*w.ssz >= w.L
	dstAtEnd := (int64(w.dst.offset)+to)*int64(w.dsz) >= int64(w.L)
	known := want == 0 && w.kd != w.ks && (srcAtEnd || dstAtEnd)
	vAssertK("setTA:no-host-panic", !goPanic, known, "F-C17-set-typedarray-empty-panic")
	if goPanic {
		return
	}
	vAssert("setTA:outcome==spec", vC17OutcomeCode(out) == want)
	vAssert("setTA:offset-coerced-once", *offArg.fired == 1)
	// bytes: when source and target share the buffer the source is cloned first, i.e. every target element
	// is the conversion of the ORIGINAL source element
	lo := (w.dst.offset + int(to)) * w.dsz
	hi := lo + w.src.length*w.dsz
	ok := true
	for p := 0; p < w.L; p++ {
		i := (p - lo) / w.dsz
		k := (p - lo) % w.dsz
		sraw := vC17RawPick(w.sbefore, (w.src.offset+i)*w.ssz, w.ssz)
		draw := refC17Convert(w.kd, w.ks, sraw)
		expect := refC17Sel(w.dbefore[p], want == 0 && p >= lo && p < hi, draw, k)
		if w.dorig[p] != expect {
			ok = false
		}
	}
	vAssert("setTA:bytes==SetTypedArrayFromTypedArray", ok)
	if w.mode != 0 {
		same := true
		for p := 0; p < w.L; p++ {
			if w.sorig[p] != w.sbefore[p] {
				same = false
			}
		}
		vAssert("setTA:source-buffer-unchanged", same)
	}
}

// ---------------------------------------------------------------------
// H17.4 sort(comparefn): typedArraySortCtx.Less/Swap under sort.Stable with a comparator that returns
// arbitrary results and may detach the buffer at any call.

var vC17SortCmp func(FunctionCall) Value

// symbolic-mode replacement of Runtime.toCallable (natively the comparator is a real native function object)
func vC17StubToCallable(r *Runtime, v Value) func(FunctionCall) Value { return vC17SortCmp }

// refC17SortLess: x sorts strictly before y in the default TypedArray order (numeric, -0 before +0, NaN last)
func refC17SortLess(kind int, rx, ry uint64) bool {
	if kind == vkFloat32 || kind == vkFloat64 {
		fx := refValueOfRaw(kind, rx)
		fy := refValueOfRaw(kind, ry)
		if fx != fx {
			return false
		}
		if fy != fy {
			return true
		}
		if fx < fy {
			return true
		}
		if fx == 0 && fy == 0 {
			return math.Signbit(fx) && !math.Signbit(fy)
		}
		return false
	}
	return refC17ElemInt(kind, rx) < refC17ElemInt(kind, ry)
}

func vC17CmpArg(r *Runtime) Value {
	if vSymbolic() {
		return &Object{runtime: r}
	}
	return r.ToValue(func(call FunctionCall) Value { return vC17SortCmp(call) })
}

// vC17PermOK: the first l elements (of `size` bytes, starting at element offset off) of a are a
// permutation of those of b
func vC17PermOK(a, b []byte, off, l, size, N int) bool {
	ok := true
	for i := 0; i < N; i++ {
		e := vC17RawPick(b, (off+i)*size, size)
		cb, ca := 0, 0
		for j := 0; j < N; j++ {
			bj := vC17RawPick(b, (off+j)*size, size)
			aj := vC17RawPick(a, (off+j)*size, size)
			if j < l && bj == e {
				cb++
			}
			if j < l && aj == e {
				ca++
			}
		}
		if i < l && ca != cb {
			ok = false
		}
	}
	return ok
}

func H_C17_sort() {
	w := vC17World("w", vC17KindsBySize)
	N := vBound("N")
	useCmp := vChoice("comparator", 2) == 1
	pre := false
	if !useCmp {
		pre = vNondetBool("detachedBefore")
		if pre {
			w.buf.detach()
		}
	}
	detachAt := vNondetInt("detachAtCall")
	vAssume(detachAt >= -1 && detachAt <= N)
	calls := 0
	badArgs := false
	var atDetach []byte
	vC17SortCmp = func(call FunctionCall) Value {
		k := calls
		calls++
		if len(call.Arguments) != 2 || call.Arguments[0] == nil || call.Arguments[1] == nil {
			badArgs = true
		}
		if k == detachAt {
			atDetach = append([]byte{}, w.orig...)
			w.buf.detach()
		}
		c := vNondetInt64("cmp.result")
		vAssume(c >= -1 && c <= 1)
		return valueInt(c)
	}
	args := []Value{}
	if useCmp {
		args = append(args, vC17CmpArg(w.r))
	}
	out := vCatch(func() { w.r.typedArrayProto_sort(FunctionCall{This: w.ta.val, Arguments: args}) })
	if pre {
		vAssert("sort:detached-TypeError", out.panicked && out.kind == "TypeError")
	} else {
		vAssert("sort:no-throw", !out.panicked)
	}
	vAssert("sort:comparator-gets-two-values", !badArgs)
	off, l := w.ta.offset, w.ta.length
	// bytes outside the view are never touched
	outside := true
	for p := 0; p < w.n; p++ {
		if (p < off*w.size || p >= (off+l)*w.size) && w.orig[p] != w.before[p] {
			outside = false
		}
	}
	vAssert("sort:outside-view-untouched", outside)
	if atDetach != nil {
		// nothing is written into the slab after the comparator detached the buffer
		same := true
		for p := 0; p < w.n; p++ {
			if w.orig[p] != atDetach[p] {
				same = false
			}
		}
		vAssert("sort:no-write-after-detach", same)
		vAssert("sort:perm-at-detach", vC17PermOK(atDetach, w.before, off, l, w.size, N))
		return
	}
	if pre {
		same := true
		for p := 0; p < w.n; p++ {
			if w.orig[p] != w.before[p] {
				same = false
			}
		}
		vAssert("sort:detached-untouched", same)
		return
	}
	vAssert("sort:permutation", vC17PermOK(w.orig, w.before, off, l, w.size, N))
	if !useCmp {
		sorted := true
		for i := 0; i+1 < N; i++ {
			x := vC17RawPick(w.orig, (off+i)*w.size, w.size)
			y := vC17RawPick(w.orig, (off+i+1)*w.size, w.size)
			if i+1 < l && refC17SortLess(w.kind, y, x) {
				sorted = false
			}
		}
		vAssert("sort:default-order-sorted", sorted)
	}
}

// ---------------------------------------------------------------------
// shared: an object whose "prototype" lookup runs user code (newTarget of a constructor call)

type vC17HookObj struct {
	*baseObject
	onProto func()
}

func (a *vC17HookObj) getStr(name unistring.String, receiver Value) Value {
	if name == "prototype" && a.onProto != nil {
		a.onProto()
	}
	return nil // not an object: the default prototype is used
}

func vC17NewHookObj(r *Runtime, onProto func()) *Object {
	o := &Object{runtime: r}
	b := &baseObject{class: classObject, val: o, extensible: true}
	o.self = &vC17HookObj{baseObject: b, onProto: onProto}
	b.init()
	return o
}

func vC17CtorOf(r *Runtime, kind int) typedArrayObjectCtor {
	switch kind {
	case vkUint8:
		return r.newUint8ArrayObject
	case vkUint8Clamped:
		return r.newUint8ClampedArrayObject
	case vkInt8:
		return r.newInt8ArrayObject
	case vkUint16:
		return r.newUint16ArrayObject
	case vkInt16:
		return r.newInt16ArrayObject
	case vkUint32:
		return r.newUint32ArrayObject
	case vkInt32:
		return r.newInt32ArrayObject
	case vkFloat32:
		return r.newFloat32ArrayObject
	}
	return r.newFloat64ArrayObject
}

// ---------------------------------------------------------------------
// H17.4 new DataView(buffer, byteOffset, byteLength): geometry validation (ECMA-262 25.3.2.1)

// 0 ok, 1 RangeError, 2 TypeError. which: -2 detached before, -1 never, 0 byteOffset coercion, 1 byteLength
// coercion, 2 newTarget.prototype getter
func refC17DVCtor(offCoerced bool, offI int64, lenCoerced bool, lenI int64, which int, L int64) int {
	off := int64(0)
	if offCoerced {
		if offI < 0 || offI > (1<<53)-1 {
			return 1
		}
		off = offI
	}
	if which == -2 || which == 0 {
		return 2
	}
	if off > L {
		return 1
	}
	if lenCoerced {
		if lenI < 0 || lenI > (1<<53)-1 {
			return 1
		}
		if off+lenI > L { // the byte length read BEFORE the coercion
			return 1
		}
	}
	if which >= 1 {
		return 2
	}
	return 0
}

func H_C17_newDataView() {
	r := vRuntime()
	L := vBound("L")
	ab := r._newArrayBuffer(nil, nil)
	ab.data = vNondetBytes("data", L)
	which := vNondetInt("detachAt")
	vAssume(which >= -2 && which <= 2)
	if which == -2 {
		ab.detach()
	}
	effect := func(k int) func() {
		return func() {
			if which == k {
				ab.detach()
			}
		}
	}
	offArg := vC17IntArg("byteOffset", effect(0))
	lenArg := vC17IntArg("byteLength", effect(1))
	nargs := vChoice("nargs", 3) + 1
	args := []Value{ab.val, offArg, lenArg}[:nargs]
	offCoerced, lenCoerced := nargs >= 2, nargs >= 3
	if nargs >= 2 && vNondetBool("byteOffset.undefined") {
		args[1] = _undefined // ToIndex(undefined) = 0, no user code
		offCoerced = false
	}
	if nargs >= 3 && vNondetBool("byteLength.undefined") {
		args[2] = _undefined
		lenCoerced = false
	}
	if !offCoerced {
		vAssume(which != 0)
	}
	if !lenCoerced {
		vAssume(which != 1)
	}
	nt := vC17NewHookObj(r, effect(2))
	var res *Object
	out := vCatch(func() { res = r.newDataView(args, nt) })
	want := refC17DVCtor(offCoerced, offArg.i, lenCoerced, lenArg.i, which, int64(L))
	// known: goja compares byteOffset+byteLength with the CURRENT length (0 after the byteLength coercion detached
	// the buffer): RangeError where the specification reaches step 10 and throws TypeError
	known := which == 1 && want == 2 && offOf(offCoerced, offArg.i)+lenArg.i > 0
	vAssertK("newDataView:outcome==spec", vC17OutcomeCode(out) == want, known, "F-C17-dataview-ctor-detach-error-class")
	if !out.panicked {
		vAssert("newDataView:result", res != nil)
		dv, isDV := res.self.(*dataViewObject)
		vAssert("newDataView:is-DataView", isDV)
		if !isDV {
			return
		}
		off := offOf(offCoerced, offArg.i)
		wantLen := int64(L) - off
		if lenCoerced {
			wantLen = lenArg.i
		}
		vAssert("newDataView:same-buffer", dv.viewedArrayBuf == ab)
		vAssert("newDataView:byteOffset", int64(dv.byteOffset) == off)
		vAssert("newDataView:byteLength", int64(dv.byteLen) == wantLen)
		vAssert("newDataView:inside-buffer", dv.byteOffset >= 0 && dv.byteLen >= 0 && dv.byteOffset+dv.byteLen <= len(ab.data))
	}
}

func offOf(coerced bool, i int64) int64 {
	if coerced {
		return i
	}
	return 0
}

// ---------------------------------------------------------------------
// H17.4 new TypedArray(typedArray): InitializeTypedArrayFromTypedArray (ECMA-262 23.2.5.1.2)

func H_C17_ctorFromTA() {
	np := len(vC17SetPairs)
	if b := vBound("PAIRS"); b > 0 && b < np {
		np = b
	}
	pair := vChoice("pair", np)
	r := vRuntime()
	vC17MoreCtors(r)
	kd, ks := vC17SetPairs[pair][0], vC17SetPairs[pair][1]
	dsz, ssz := vElemSize(kd), vElemSize(ks)
	L := vBound("L")
	sorig := vNondetBytes("src.data", L)
	sbefore := append([]byte{}, sorig...)
	sbuf := r._newArrayBuffer(nil, nil)
	sbuf.data = sorig
	src := vC17View("src", r, ks, sbuf, L)
	which := vNondetInt("detachAt") // -2 before, -1 never, 0 newTarget.prototype getter
	vAssume(which >= -2 && which <= 0)
	if which == -2 {
		sbuf.detach()
	}
	nt := vC17NewHookObj(r, func() {
		if which == 0 {
			sbuf.detach()
		}
	})
	var res *Object
	out := vCatch(func() { res = r._newTypedArrayFromTypedArray(src, nt, vC17CtorOf(r, kd), nil) })
	if which != -1 {
		vAssert("ctorTA:detached-TypeError", out.panicked && out.kind == "TypeError")
	} else {
		vAssert("ctorTA:no-throw", !out.panicked)
	}
	same := true
	for p := 0; p < L; p++ {
		if sorig[p] != sbefore[p] {
			same = false
		}
	}
	vAssert("ctorTA:source-unchanged", same)
	if out.panicked {
		return
	}
	vAssert("ctorTA:result", res != nil)
	a, isTA := res.self.(*typedArrayObject)
	vAssert("ctorTA:is-typed-array", isTA)
	if !isTA {
		return
	}
	vAssert("ctorTA:fresh-buffer", a.viewedArrayBuf != sbuf && !a.viewedArrayBuf.detached)
	vAssert("ctorTA:geometry", a.offset == 0 && a.length == src.length && a.elemSize == dsz && len(a.viewedArrayBuf.data) == src.length*dsz)
	nd := a.viewedArrayBuf.data
	ok := true
	for q := 0; q < len(nd); q++ {
		i, k := q/dsz, q%dsz
		draw := refC17Convert(kd, ks, vC17RawPick(sbefore, (src.offset+i)*ssz, ssz))
		if nd[q] != byte(draw>>(8*uint(k))) {
			ok = false
		}
	}
	vAssert("ctorTA:bytes==converted-source-elements", ok)
}

// ---------------------------------------------------------------------
// H17.4 ArrayBuffer.prototype.slice(start, end) with an arbitrary species constructor (ECMA-262 25.1.6.7)

func H_C17_abSlice() {
	r := vRuntime()
	L := vBound("L")
	orig := vNondetBytes("data", L)
	before := append([]byte{}, orig...)
	ab := r._newArrayBuffer(nil, nil)
	ab.data = orig
	// -2 detached before the call, -1 never, 0 start coercion, 1 end coercion, 2 inside the species constructor
	which := vNondetInt("detachAt")
	vAssume(which >= -2 && which <= 2)
	if which == -2 {
		ab.detach()
	}
	effect := func(k int) func() {
		return func() {
			if which == k {
				ab.detach()
			}
		}
	}
	start := vC17IntArg("start", effect(0))
	end := vC17IntArg("end", effect(1))
	args := []Value{start, end}
	endUndef := vBound("ABSENT") == 1 && vNondetBool("end.undefined")
	if endUndef {
		vAssume(which != 1)
		args[1] = _undefined
	}
	// species result: 0 fresh buffer of exactly newLen bytes, 1 one byte longer, 2 one byte shorter, 3 the
	// receiver itself, 4 a fresh detached buffer, 5 not an ArrayBuffer
	nsp := 6
	if b := vBound("SP"); b > 0 && b < nsp {
		nsp = b
	}
	sp := vChoice("species", nsp)
	calls := 0
	gotLen := int64(-1)
	var freshSlab, freshBefore []byte
	var fresh *arrayBufferObject
	ctor := vC17NewFnObj(r, func(cargs []Value, nt *Object) *Object {
		calls++
		gotLen = cargs[0].ToInteger()
		if which == 2 {
			ab.detach()
		}
		if sp == 3 {
			return ab.val
		}
		if sp == 5 {
			return vC17NewHookObj(r, nil)
		}
		n := vConcretize(int(gotLen))
		if sp == 1 {
			n++
		}
		if sp == 2 && n > 0 {
			n--
		}
		freshSlab = vNondetBytes("fresh", n)
		freshBefore = append([]byte{}, freshSlab...)
		fresh = r._newArrayBuffer(nil, nil)
		fresh.data = freshSlab
		if sp == 4 {
			fresh.detach()
		}
		return fresh.val
	}, nil)
	ab.baseObject._putProp("constructor", ctor, true, false, true)
	var res Value
	out := vCatch(func() { res = r.arrayBufferProto_slice(FunctionCall{This: ab.val, Arguments: args}) })
	l := int64(L)
	first := refRelIdx(start.i, l)
	final := l
	if !endUndef {
		final = refRelIdx(end.i, l)
	}
	newLen := final - first
	if newLen < 0 {
		newLen = 0
	}
	want := 0
	if which == -2 || sp >= 3 || which >= 0 || (sp == 2 && newLen > 0) {
		want = 2
	}
	// known: goja does not throw on a receiver that is already detached (it slices an empty buffer), and
	// performs steps 18-22 (new detached / same object / too small / receiver detached meanwhile) only when
	// newLen > 0
	known := which == -2 || (newLen == 0 && sp != 5)
	vAssertK("abSlice:outcome==spec", vC17OutcomeCode(out) == want, known, "F-C17-arraybuffer-slice-missing-checks")
	if which != -2 {
		vAssert("abSlice:species-called-once-with-newLen", calls == 1 && gotLen == newLen)
	}
	// the receiver's slab is never written
	same := true
	for p := 0; p < L; p++ {
		if orig[p] != before[p] {
			same = false
		}
	}
	vAssert("abSlice:receiver-unchanged", same)
	// the species result: bytes [0,newLen) are the receiver's bytes [first,final) iff the call returned
	copied := !out.panicked && newLen > 0
	ok := true
	for q := 0; q < len(freshSlab); q++ {
		expect := freshBefore[q]
		if copied && int64(q) < newLen {
			expect = vC17Pick(before, int(first)+q)
		}
		if freshSlab[q] != expect {
			ok = false
		}
	}
	vAssert("abSlice:result-bytes==model", ok)
	if !out.panicked && want == 0 {
		vAssert("abSlice:returns-species-result", fresh != nil && res == Value(fresh.val))
	}
}

// ---------------------------------------------------------------------
// H17.4 toReversed / toSorted (default constructor) and slice (species constructor)

func vC17WorldWithCtors(name string, kinds []int, conc int) *vTAWorld {
	vC17MoreCtors(vRuntime()) // before the view is created: defaultCtor is the (real / stand-in) constructor
	return vC17WorldG(name, kinds, conc)
}

func vC17AsTA(v Value) *typedArrayObject {
	if o, ok := v.(*Object); ok {
		if a, ok := o.self.(*typedArrayObject); ok {
			return a
		}
	}
	return nil
}

func vC17Unchanged(a, b []byte) bool {
	same := true
	for p := 0; p < len(a); p++ {
		if a[p] != b[p] {
			same = false
		}
	}
	return same
}

func H_C17_toReversed() {
	w := vC17WorldWithCtors("w", vC17KindsBySize, 0)
	pre := vNondetBool("detachedBefore")
	if pre {
		w.buf.detach()
	}
	var res Value
	out := vCatch(func() { res = w.r.typedArrayProto_toReversed(FunctionCall{This: w.ta.val}) })
	vAssert("toReversed:receiver-unchanged", vC17Unchanged(w.orig, w.before))
	if pre {
		vAssert("toReversed:detached-TypeError", out.panicked && out.kind == "TypeError")
		return
	}
	vAssert("toReversed:no-throw", !out.panicked)
	a := vC17AsTA(res)
	vAssert("toReversed:returns-typed-array", a != nil)
	if a == nil {
		return
	}
	l := w.ta.length
	vAssert("toReversed:fresh-same-geometry", a.viewedArrayBuf != w.buf && a.length == l && a.elemSize == w.size && (a.offset+a.length)*w.size <= len(a.viewedArrayBuf.data))
	nd := a.viewedArrayBuf.data
	ok := true
	for q := 0; q < l*w.size && q < len(nd); q++ {
		e, k := q/w.size, q%w.size
		if nd[a.offset*w.size+q] != vC17Pick(w.before, (w.ta.offset+l-1-e)*w.size+k) {
			ok = false
		}
	}
	vAssert("toReversed:bytes==reversed-view", ok)
}

func H_C17_toSorted() {
	w := vC17WorldWithCtors("w", vC17KindsBySize, 0)
	N := vBound("N")
	useCmp := vChoice("comparator", 2) == 1
	detachAt := vNondetInt("detachAtCall") // the comparator may detach the RECEIVER's buffer (the copy is unreachable for it)
	vAssume(detachAt >= -1 && detachAt <= N)
	calls := 0
	args := []Value{}
	if useCmp {
		args = append(args, vC17NewFnObj(w.r, nil, func(call FunctionCall) Value {
			k := calls
			calls++
			if k == detachAt {
				w.buf.detach()
			}
			c := vNondetInt64("cmp.result")
			vAssume(c >= -1 && c <= 1)
			return valueInt(c)
		}))
	}
	var res Value
	out := vCatch(func() { res = w.r.typedArrayProto_toSorted(FunctionCall{This: w.ta.val, Arguments: args}) })
	vAssert("toSorted:no-throw", !out.panicked)
	vAssert("toSorted:receiver-unchanged", vC17Unchanged(w.orig, w.before))
	a := vC17AsTA(res)
	vAssert("toSorted:returns-typed-array", a != nil)
	if a == nil {
		return
	}
	l := w.ta.length
	vAssert("toSorted:fresh-same-geometry", a.viewedArrayBuf != w.buf && a.offset == 0 && a.length == l && len(a.viewedArrayBuf.data) == l*w.size)
	nd := a.viewedArrayBuf.data
	if len(nd) != l*w.size {
		return
	}
	// permutation of the receiver's view
	ok := true
	for i := 0; i < l; i++ {
		e := vC17RawPick(w.before, (w.ta.offset+i)*w.size, w.size)
		cb, ca := 0, 0
		for j := 0; j < l; j++ {
			if vC17RawPick(w.before, (w.ta.offset+j)*w.size, w.size) == e {
				cb++
			}
			if vRawAt(nd, j*w.size, w.size) == e {
				ca++
			}
		}
		if ca != cb {
			ok = false
		}
	}
	vAssert("toSorted:permutation-of-view", ok)
	if !useCmp {
		sorted := true
		for i := 0; i+1 < l; i++ {
			if refC17SortLess(w.kind, vRawAt(nd, (i+1)*w.size, w.size), vRawAt(nd, i*w.size, w.size)) {
				sorted = false
			}
		}
		vAssert("toSorted:default-order-sorted", sorted)
	}
}

// slice(start, end). Species result: 0 default constructor (fresh zero-filled array of the same type),
// 1 an array of the same type over the SAME buffer at element offset doff (overlap: the specification copies
// byte by byte in ascending order), 2 a fresh array one element too short, 3 a fresh array of another type
// of the same element size (element-wise conversion), 4 default result but the constructor detaches the receiver
func H_C17_slice() {
	nsp := 5
	if b := vBound("SP"); b > 0 && b < nsp {
		nsp = b
	}
	sp := vChoice("species", nsp)
	conc := 2
	w := vC17WorldWithCtors("w", vC17KindsBySize, conc)
	N := vBound("N")
	if sp != 0 {
		vAssume(w.ta.offset == 0 && w.ta.length == N)
	}
	which := vNondetInt("detachAt") // -2 before, -1 never, 0 start coercion, 1 end coercion
	vAssume(which >= -2 && which <= 1)
	if sp != 0 {
		vAssume(which == -1)
	}
	if which == -2 {
		w.buf.detach()
	}
	effect := func(k int) func() {
		return func() {
			if which == k {
				w.buf.detach()
			}
		}
	}
	start := vC17IntArg("start", effect(0))
	end := vC17IntArg("end", effect(1))
	args := []Value{start, end}
	endUndef := vBound("ABSENT") == 1 && vNondetBool("end.undefined")
	if endUndef {
		vAssume(which != 1)
		args[1] = _undefined
	}
	otherKind := vkInt8
	switch w.kind {
	case vkInt16:
		otherKind = vkUint16
	case vkUint32:
		otherKind = vkInt32
	case vkFloat64:
		otherKind = vkFloat64
	}
	doff := 0
	var dst *typedArrayObject
	var dstSlab []byte
	if sp != 0 {
		if sp == 1 {
			doff = vNondetInt("species.offset")
			vAssume(doff >= 0 && doff <= N)
			doff = vConcretize(doff)
		}
		ctor := vC17NewFnObj(w.r, func(cargs []Value, nt *Object) *Object {
			n := vConcretize(int(cargs[0].ToInteger()))
			switch sp {
			case 1:
				dst = vC17NewTA(w.r, w.kind, w.buf, doff, N-doff)
				dstSlab = w.orig
				return dst.val
			case 2:
				if n > 0 {
					n--
				}
			case 4:
				w.buf.detach()
			}
			k := w.kind
			if sp == 3 {
				k = otherKind
			}
			buf := w.r._newArrayBuffer(nil, nil)
			dstSlab = make([]byte, n*w.size)
			buf.data = dstSlab
			dst = vC17NewTA(w.r, k, buf, 0, n)
			return dst.val
		}, nil)
		w.ta.baseObject._putProp("constructor", ctor, true, false, true)
	}
	var res Value
	out := vCatch(func() { res = w.r.typedArrayProto_slice(FunctionCall{This: w.ta.val, Arguments: args}) })
	l := int64(w.ta.length)
	rs := refRelIdx(start.i, l)
	re := l
	if !endUndef {
		re = refRelIdx(end.i, l)
	}
	cnt := re - rs
	if cnt < 0 {
		cnt = 0
	}
	want := 0
	if which == -2 {
		want = 2
	} else if sp == 2 && cnt > 0 {
		want = 2 // TypedArrayCreate: result shorter than requested
	} else if sp == 1 && cnt > int64(N-doff) {
		want = 2
	} else if cnt > 0 && (which >= 0 || sp == 4) {
		want = 2 // receiver out of bounds after the species constructor
	}
	vAssert("slice:outcome==spec", vC17OutcomeCode(out) == want)
	if sp != 1 {
		vAssert("slice:receiver-unchanged", vC17Unchanged(w.orig, w.before))
	}
	if out.panicked || want != 0 {
		if sp == 1 {
			vAssert("slice:throw-leaves-buffer-unchanged", vC17Unchanged(w.orig, w.before))
		}
		return
	}
	a := vC17AsTA(res)
	vAssert("slice:returns-typed-array", a != nil)
	if a == nil {
		return
	}
	if sp == 0 {
		dstSlab = a.viewedArrayBuf.data
		vAssert("slice:default-species-fresh-exact", a.viewedArrayBuf != w.buf && a.offset == 0 && int64(a.length) == cnt && int64(len(dstSlab)) == cnt*int64(w.size))
	} else {
		vAssert("slice:returns-species-result", a == dst)
	}
	// model with concrete geometry: ascending copy (bytes for the same type, elements otherwise)
	s := vConcretize(int(rs))
	c := vConcretize(int(cnt))
	model := append([]byte{}, w.before...)
	dmodel := model
	if sp != 1 {
		dmodel = make([]byte, len(dstSlab))
	}
	sbase := (w.ta.offset + s) * w.size
	dbase := doff * w.size
	if sp == 3 && otherKind != w.kind {
		for i := 0; i < c; i++ {
			draw := refC17Convert(otherKind, w.kind, vRawAt(model, sbase+i*w.size, w.size))
			for k := 0; k < w.size; k++ {
				dmodel[dbase+i*w.size+k] = byte(draw >> (8 * uint(k)))
			}
		}
	} else {
		for i := 0; i < c*w.size; i++ {
			dmodel[dbase+i] = model[sbase+i]
		}
	}
	ok := len(dmodel) == len(dstSlab)
	for q := 0; q < len(dstSlab) && q < len(dmodel); q++ {
		if dstSlab[q] != dmodel[q] {
			ok = false
		}
	}
	vAssert("slice:bytes==ascending-copy-model", ok)
}

// ---------------------------------------------------------------------
// H17.4 aliasing: two views over one buffer and the []byte a Go embedder obtains by Export() see the same bytes

var vC17AliasKinds = []int{vkUint8, vkInt16, vkUint32, vkInt8, vkUint16, vkInt32, vkUint8Clamped}

func H_C17_alias() {
	r := vRuntime()
	L := vBound("L")
	nk := len(vC17AliasKinds)
	if b := vBound("KINDS"); b > 0 && b < nk {
		nk = b
	}
	ka := vC17AliasKinds[vChoice("kindA", nk)]
	kb := vC17AliasKinds[vChoice("kindB", nk)]
	sa, sb := vElemSize(ka), vElemSize(kb)
	orig := vNondetBytes("data", L)
	ab := r._newArrayBuffer(nil, nil)
	ab.data = orig
	A := vC17View("A", r, ka, ab, L)
	B := vC17View("B", r, kb, ab, L)
	exp, isAB := ab.export(nil).(ArrayBuffer)
	vAssert("alias:export-is-ArrayBuffer", isAB)
	if !isAB {
		return
	}
	goBytes := exp.Bytes()
	vAssert("alias:export-same-backing-array", len(goBytes) == L && (L == 0 || &goBytes[0] == &orig[0]))
	// 1. a store through view A ...
	idx := vNondetInt("idx")
	val := vC17NumArg("val", nil)
	before := append([]byte{}, orig...)
	A._putIdx(idx, val)
	valid := idx >= 0 && idx < A.length
	raw := refC17RawInt(ka, val.i)
	lo := (A.offset + idx) * sa
	ok := true
	for p := 0; p < L; p++ {
		expect := refC17Sel(before[p], valid && p >= lo && p < lo+sa, raw, p-lo)
		if goBytes[p] != expect {
			ok = false
		}
	}
	vAssert("alias:store-visible-in-exported-bytes", ok)
	// 2. ... and a store by Go code into the exported slice are both seen by view B
	gp := vNondetInt("go.pos")
	gv := vNondetUint8("go.val")
	if gp >= 0 && gp < L {
		goBytes[gp] = gv
	}
	j := vNondetInt("j")
	got := B._getIdx(j)
	if j >= 0 && j < B.length {
		vAssert("alias:B-defined", got != nil)
		if got != nil {
			vAssert("alias:B-reads-current-bytes", got.ToInteger() == refC17ElemInt(kb, vC17RawPick(orig, (B.offset+j)*sb, sb)))
		}
	} else {
		vAssert("alias:B-out-of-range-undefined", got == nil)
	}
	// 3. after Detach() the embedder's slice is no longer reachable from script
	snap := append([]byte{}, orig...)
	vAssert("alias:detach", exp.Detach() && exp.Detached() && exp.Bytes() == nil && !exp.Detach())
	val2 := vC17NumArg("val2", nil)
	A._putIdx(idx, val2)
	vAssert("alias:no-read-after-detach", A._getIdx(idx) == nil && B._getIdx(j) == nil)
	vAssert("alias:no-write-after-detach", vC17Unchanged(orig, snap))
}
