package goja

import "regexp"

// C20 / H20.2e — the linear-time engine wrapper (Go regexp) on the ASCII fast path of match/replace/split.
// (*regexp.Regexp).FindAllStringSubmatchIndex is stubbed by its documented contract over the abstract matcher:
// "successive non-overlapping matches ...; empty matches abutting a preceding match are ignored"
// (mirrors regexp.(*Regexp).allMatches). No native realisation exists (RE2 syntax cannot express a
// position-anchored table), so counterexamples of this harness are not replayed ("no_replay"); the JS
// reproducers in known_findings.d/C20.json were run by hand against the unchanged tree.

func vStubC20FindAllStringSubmatchIndex(re *regexp.Regexp, s string, n int) [][]int {
	t := vC20M
	L := len(s)
	var out [][]int
	pos, prevMatchEnd := 0, -1
	for iter := 0; iter <= L+1 && pos <= L && (n < 0 || len(out) < n); iter++ {
		q := t.first(pos, L)
		if q < 0 {
			break
		}
		e := q + vConcretize(t.lenAt(q))
		accept := true
		if e == q {
			if q == prevMatchEnd {
				accept = false
			}
			pos = q + 1
		} else {
			pos = e
		}
		prevMatchEnd = e
		if accept {
			out = append(out, []int{q, e})
		}
	}
	return out
}

func vStubC20SubexpNames(re *regexp.Regexp) []string { return []string{""} }

func H_C20_re_findAll() {
	n := vNondetInt("s.len")
	vAssume(n >= 0 && n <= vBound("N"))
	n = vConcretize(n)
	s := vNondetString("s", n)
	for i := 0; i < n; i++ {
		vAssume(s[i] < 0x80)
	}
	t := vC20NewMatcher("m", false)
	sticky := vNondetBool("sticky")
	limit := vNondetInt("limit")
	vAssume(limit == -1 || limit == 1)
	limit = vConcretize(limit)
	var w *regexpWrapper
	if !vSymbolic() {
		w = (*regexpWrapper)(regexp.MustCompile("x"))
	}
	results := w.findAllSubmatchIndex(s, limit, sticky)
	geo := &vC20Geo{n: n, b1: true, b2: true, b3: true, L: n}
	exp, emptyNotLast := vC20RefMatchList(t, geo, 0, limit, sticky)
	abut := false
	for i := 1; i < len(exp); i++ {
		pl := vConcretize(t.lenAt(exp[i-1]))
		if pl > 0 && exp[i] == exp[i-1]+pl && vConcretize(t.lenAt(exp[i])) == 0 {
			abut = true
		}
	}
	countOK := len(results) == len(exp)
	if abut {
		vAssertK("re.findAll:count==spec-iteration", countOK, true, "F-C20-re2-drops-empty-match-abutting")
		return
	}
	if sticky && emptyNotLast {
		vAssertK("re.findAll:count==spec-iteration", countOK, true, "F-C20-sticky-global-empty-match")
		return
	}
	vAssert("re.findAll:count==spec-iteration", countOK)
	ok := true
	for i := 0; i < len(results) && i < len(exp); i++ {
		vReach("re.findAll:match-reached")
		r := results[i]
		if len(r.indexes) != 2 || r.indexes[0] != exp[i] || r.indexes[1] != exp[i]+t.lenAt(exp[i]) {
			ok = false
		}
	}
	vAssert("re.findAll:indices==spec-iteration", ok)
}
