package goja

import (
	"hash/maphash"
	"reflect"

	"github.com/dop251/goja/unistring"
)

// C18 — Map/Set storage (map.go: orderedMap, orderedMapIter) against the [[MapData]] semantics of
// ECMA-262 24.1 / 24.1.5.1 (CreateMapIterator): an append-only list of entries whose key becomes
// "empty" on delete/clear; iterators are an index into that list.

// ---------------------------------------------------------------------
// abstract key: SameValueZero == identity of id; the hash is chosen by the solver

type vC18Key struct {
	id int
	h  uint64
}

func (k *vC18Key) ToInteger() int64         { return 0 }
func (k *vC18Key) toString() String         { return stringEmpty }
func (k *vC18Key) string() unistring.String { return "" }
func (k *vC18Key) ToString() Value          { return stringEmpty }
func (k *vC18Key) String() string           { return "" }
func (k *vC18Key) ToFloat() float64         { return 0 }
func (k *vC18Key) ToNumber() Value          { return valueInt(0) }
func (k *vC18Key) ToBoolean() bool          { return true }
func (k *vC18Key) ToObject(*Runtime) *Object {
	panic("vC18Key.ToObject")
}
func (k *vC18Key) SameAs(o Value) bool {
	o2, ok := o.(*vC18Key)
	return ok && o2.id == k.id
}
func (k *vC18Key) Equals(o Value) bool         { return k.SameAs(o) }
func (k *vC18Key) StrictEquals(o Value) bool   { return k.SameAs(o) }
func (k *vC18Key) Export() interface{}         { return nil }
func (k *vC18Key) ExportType() reflect.Type    { return nil }
func (k *vC18Key) baseObject(*Runtime) *Object { return nil }
func (k *vC18Key) hash(*maphash.Hash) uint64   { return k.h }

// ---------------------------------------------------------------------
// world = real orderedMap + reference list with tombstones + up to two live iterators

type vC18World struct {
	m    *orderedMap
	keys []Value // key pool
	cls  []int   // SameValueZero class of each pool key (smallest pool index of an equal key); concrete per path
	want []Value // the key as it must be stored (−0 normalised to +0)

	// reference [[MapData]]
	rCls  []int   // class of the key of slot i
	rKey  []int   // pool index of the key that created slot i
	rVal  []int64 // value tag of slot i
	rLive []bool  // false = key is "empty"

	it    [2]*orderedMapIter
	rPos  [2]int // reference iterator: index of the next slot to examine
	rDone [2]bool

	nval int64
}

func vC18NewWorld(keys []Value, cls []int, want []Value) *vC18World {
	return &vC18World{m: newOrderedMap(nil), keys: keys, cls: cls, want: want}
}

// pool of n abstract keys, hashes chosen by the solver (any collision pattern)
func vC18AbstractPool(n int) *vC18World {
	keys := make([]Value, n)
	cls := make([]int, n)
	for i := 0; i < n; i++ {
		keys[i] = &vC18Key{id: i, h: vNondetUint64("key.hash")}
		cls[i] = i
	}
	return vC18NewWorld(keys, cls, keys)
}

// pool of n abstract keys whose hashes either all collide or are all distinct
func vC18AbstractPool2(n int) *vC18World {
	keys := make([]Value, n)
	cls := make([]int, n)
	base := vNondetUint64("key.hashbase")
	var stride uint64 = 1
	if vNondetBool("key.allcollide") {
		stride = 0
	}
	for i := 0; i < n; i++ {
		keys[i] = &vC18Key{id: i, h: base + uint64(i)*stride}
		cls[i] = i
	}
	return vC18NewWorld(keys, cls, keys)
}

func (w *vC18World) refFind(c int) int {
	for i := range w.rCls {
		if w.rLive[i] && w.rCls[i] == c {
			return i
		}
	}
	return -1
}

func (w *vC18World) refSize() int {
	n := 0
	for i := range w.rLive {
		if w.rLive[i] {
			n++
		}
	}
	return n
}

// vC18KeyMatches: got is exactly the key `want` (same representation; NaN payloads are unobservable)
func vC18KeyMatches(got Value, want Value) bool {
	switch w := want.(type) {
	case *vC18Key:
		g, ok := got.(*vC18Key)
		return ok && g == w
	case valueInt:
		g, ok := got.(valueInt)
		return ok && g == w
	case valueFloat:
		g, ok := got.(valueFloat)
		if !ok {
			return false
		}
		return vSameNumberValue(float64(g), float64(w))
	}
	return got == want
}

func vC18ValIs(got Value, tag int64) bool {
	g, ok := got.(valueInt)
	return ok && int64(g) == tag
}

func (w *vC18World) doSet(ki int) {
	w.nval++
	w.m.set(w.keys[ki], valueInt(w.nval))
	if s := w.refFind(w.cls[ki]); s >= 0 {
		w.rVal[s] = w.nval
	} else {
		w.rCls = append(w.rCls, w.cls[ki])
		w.rKey = append(w.rKey, ki)
		w.rVal = append(w.rVal, w.nval)
		w.rLive = append(w.rLive, true)
	}
}

func (w *vC18World) doDelete(ki int) {
	got := w.m.remove(w.keys[ki])
	s := w.refFind(w.cls[ki])
	if s >= 0 {
		w.rLive[s] = false
	}
	vAssert("delete:result", got == (s >= 0))
}

func (w *vC18World) doClear() {
	w.m.clear()
	for i := range w.rLive {
		w.rLive[i] = false
	}
}

// refNext: CreateMapIterator step; returns slot or -1 (done, permanently)
func (w *vC18World) refNext(i int) int {
	if w.rDone[i] {
		return -1
	}
	for w.rPos[i] < len(w.rLive) && !w.rLive[w.rPos[i]] {
		w.rPos[i]++
	}
	if w.rPos[i] >= len(w.rLive) {
		w.rDone[i] = true
		return -1
	}
	s := w.rPos[i]
	w.rPos[i]++
	return s
}

func (w *vC18World) doNext(i int) {
	e := w.it[i].next()
	s := w.refNext(i)
	if s < 0 {
		vAssert("next:done", e == nil)
		return
	}
	vAssert("next:not-done", e != nil)
	if e != nil {
		vAssert("next:key", e.key != nil && vC18KeyMatches(e.key, w.want[w.rKey[s]]))
		vAssert("next:value", e.value != nil && vC18ValIs(e.value, w.rVal[s]))
	}
}

// observe: size, has/get of every pool key, a complete walk with a fresh iterator, structure invariant
func (w *vC18World) observe() {
	vAssert("size", w.m.size == w.refSize())
	for ki := range w.keys {
		s := w.refFind(w.cls[ki])
		vAssert("has", w.m.has(w.keys[ki]) == (s >= 0))
		v := w.m.get(w.keys[ki])
		if s >= 0 {
			vAssert("get:present", v != nil && vC18ValIs(v, w.rVal[s]))
		} else {
			vAssert("get:absent", v == nil)
		}
	}
	it := w.m.newIter()
	for s := range w.rLive {
		if !w.rLive[s] {
			continue
		}
		e := it.next()
		vAssert("walk:entry", e != nil)
		if e == nil {
			return
		}
		vAssert("walk:key", e.key != nil && vC18KeyMatches(e.key, w.want[w.rKey[s]]))
		vAssert("walk:value", e.value != nil && vC18ValIs(e.value, w.rVal[s]))
	}
	vAssert("walk:end", it.next() == nil)
	vAssert("walk:closed-stays-closed", it.next() == nil)
	w.checkInv()
}

// checkInv: representation invariant of the reachable structure
func (w *vC18World) checkInv() {
	m := w.m
	n := 0
	var prev *mapEntry
	for e := m.iterFirst; e != nil; e = e.iterNext {
		n++
		if n > len(w.rLive) {
			break
		}
		vAssert("inv:list-entry-live", e.key != nil && e.value != nil)
		vAssert("inv:back-pointer", e.iterPrev == prev)
		prev = e
	}
	vAssert("inv:list-length==size", n == m.size)
	vAssert("inv:last", m.iterLast == prev)
	// every hash chain holds only live entries, filed under their own hash; chains together hold size entries
	cnt := 0
	for h, e := range m.hashTable {
		vAssert("inv:no-empty-bucket", e != nil)
		k := 0
		for ; e != nil && k <= len(w.rLive); e = e.hNext {
			k++
			vAssert("inv:chain-entry-live", e.key != nil)
			if e.key != nil {
				vAssert("inv:chain-hash", e.key.hash(nil) == h)
			}
		}
		cnt += k
	}
	vAssert("inv:chains-hold-size", cnt == m.size)
}

// step: one symbolic operation out of the first nops of: set k (each pool key), delete k, clear, next it0, next it1
func (w *vC18World) step(nops int) {
	op := vNondetInt("op")
	vAssume(op >= 0 && op < nops)
	op = vConcretize(op)
	nk := len(w.keys)
	switch {
	case op < nk:
		w.doSet(op)
	case op < 2*nk:
		w.doDelete(op - nk)
	case op == 2*nk:
		w.doClear()
	default:
		w.doNext(op - 2*nk - 1)
	}
}

// drain: advance iterator i to exhaustion (and once more)
func (w *vC18World) drain(i int) {
	for k := len(w.rLive) + 2; k > 0; k-- {
		w.doNext(i)
	}
	vAssert("drain:done", w.rDone[i])
}

// ---------------------------------------------------------------------
// H18.1a: dictionary semantics with solver-chosen hash collisions (hNext chains)

func H_C18_chain() {
	w := vC18AbstractPool(3)
	w.doSet(0)
	w.doSet(1)
	w.doSet(2)
	w.observe()
	nk := len(w.keys)
	for s := vBound("S"); s > 0; s-- {
		w.step(2*nk + 1)
		w.observe()
	}
}

// H18.1b: live iterators across delete / re-insert / clear + refill
func H_C18_iter() {
	w := vC18AbstractPool2(3)
	n := vBound("N")
	for i := 0; i < n; i++ {
		w.doSet(i)
	}
	w.it[0] = w.m.newIter()
	j := vNondetInt("it0.advance")
	vAssume(j >= 0 && j <= n+1)
	j = vConcretize(j)
	for ; j > 0; j-- {
		w.doNext(0)
	}
	w.it[1] = w.m.newIter()
	w.rPos[1] = 0
	nk := len(w.keys)
	for s := vBound("S"); s > 0; s-- {
		w.step(2*nk + 3)
	}
	w.drain(0)
	w.drain(1)
	w.observe()
}

// ---------------------------------------------------------------------
// Number keys (H18.1c, H18.3)

// refC18SameValueZero on the bit patterns of two doubles (ECMA-262 7.2.11)
func refC18SameValueZero(a, b uint64) bool {
	const expMask = 0x7ff0000000000000
	const manMask = 0x000fffffffffffff
	aNaN := a&expMask == expMask && a&manMask != 0
	bNaN := b&expMask == expMask && b&manMask != 0
	if aNaN || bNaN {
		return aNaN && bNaN
	}
	if a<<1 == 0 && b<<1 == 0 {
		return true
	}
	return a == b
}

// vC18Num: an arbitrary Number in goja's canonical form: a valueInt within ±2^53, or a valueFloat that is
// not such an integer (fractional, huge, ±Inf, −0) or is THE NaN (floatToValue maps every NaN to _NaN;
// H18.3.nan checks that producer)
type vC18Num struct {
	v     Value
	isInt bool
	i     int64  // if isInt
	bits  uint64 // if !isInt
}

func vC18Number(name string) vC18Num {
	if vNondetBool(name + ".isInt") {
		i := vNondetInt64(name + ".i")
		vAssume(i >= -(1<<53) && i <= 1<<53)
		return vC18Num{v: valueInt(i), isInt: true, i: i}
	}
	f := vNondetFloat64(name + ".f")
	bits := vFloat64bits(f)
	vAssume(!refIsIntegralInSafeRange(bits))
	vAssume(f == f || bits == refCanonicalNaNBits)
	return vC18Num{v: valueFloat(f), bits: bits}
}

// refC18SameNum: SameValueZero of two canonical Numbers without int->double conversion: a safe integer
// equals a canonical valueFloat only as 0 vs −0
func refC18SameNum(aInt bool, ai int64, ab uint64, bInt bool, bi int64, bb uint64) bool {
	if aInt && bInt {
		return ai == bi
	}
	if aInt {
		return ai == 0 && bb == 1<<63
	}
	if bInt {
		return bi == 0 && ab == 1<<63
	}
	return refC18SameValueZero(ab, bb)
}

func vC18SameNum(a, b vC18Num) bool { return refC18SameNum(a.isInt, a.i, a.bits, b.isInt, b.i, b.bits) }

// vC18Norm: the key as Map.prototype.set / Set.prototype.add must store it (−0 becomes +0)
func vC18Norm(v Value) Value {
	if f, ok := v.(valueFloat); ok {
		if vFloat64bits(float64(f)) == 1<<63 {
			return valueInt(0)
		}
	}
	return v
}

// pool of two arbitrary canonical Numbers; the harness forks on whether they are SameValueZero-equal
func vC18NumberPool() *vC18World {
	a, b := vC18Number("a"), vC18Number("b")
	keys := []Value{a.v, b.v}
	cls := []int{0, 1}
	if vC18SameNum(a, b) {
		cls[1] = 0
	}
	want := []Value{vC18Norm(a.v), vC18Norm(b.v)}
	return vC18NewWorld(keys, cls, want)
}

// H18.1c: histories on two arbitrary Number keys (−0/+0, NaN, equal and different numbers, colliding hashes)
func H_C18_num() {
	w := vC18NumberPool()
	nk := len(w.keys)
	for s := vBound("S"); s > 0; s-- {
		w.step(2*nk + 1)
		w.observe()
	}
}

// primitive key of any non-string kind with its SameValueZero identity
func vC18Prim(name string) (Value, int, vC18Num) {
	k := vNondetInt(name + ".kind")
	vAssume(k >= 0 && k <= 4)
	k = vConcretize(k)
	switch k {
	case 0:
		n := vC18Number(name)
		return n.v, 0, n
	case 1:
		return valueTrue, 1, vC18Num{}
	case 2:
		return valueFalse, 2, vC18Num{}
	case 3:
		return _null, 3, vC18Num{}
	}
	return _undefined, 4, vC18Num{}
}

// the process-random hashes of true/false/null/undefined: any values (symbolic mode only)
func vStubC18RandomHash() uint64 { return vNondetUint64("randomHash") }

// H18.3a: hash / SameAs agree with SameValueZero for Numbers, booleans, null, undefined (with the −0
// normalisation done by lookup/set), checked on the value methods and through a real one-entry map
func H_C18_primkeys() {
	a, ka, na0 := vC18Prim("a")
	b, kb, nb0 := vC18Prim("b")
	same := ka == kb
	if ka == 0 && kb == 0 {
		same = vC18SameNum(na0, nb0)
	}
	na, nb := vC18Norm(a), vC18Norm(b)
	vAssert("SameAs==SameValueZero", na.SameAs(nb) == same)
	ha, hb, ha0 := na.hash(nil), nb.hash(nil), a.hash(nil)
	vAssert("equal=>same-hash", !same || ha == hb)
	vAssert("hash-ignores-zero-sign", ha0 == ha)
	m := newOrderedMap(nil)
	m.set(a, valueInt(7))
	vAssert("has-after-set", m.has(b) == same)
	g := m.get(b)
	gok := g != nil && vC18ValIs(g, 7)
	vAssert("get-after-set", (g != nil) == same && (!same || gok))
	vAssert("stored-key-normalised", m.iterFirst != nil && vC18KeyMatches(m.iterFirst.key, na))
	m.set(b, valueInt(8))
	sz := 2
	if same {
		sz = 1
	}
	vAssert("size-after-second-set", m.size == sz)
	vAssert("delete", m.remove(a))
	vAssert("has-after-delete", m.has(b) == !same)
}

// H18.3b: the producer of float Numbers maps every NaN to the one NaN value the hash relies on
func H_C18_nan() {
	f := vNondetFloat64("f")
	v := floatToValue(f)
	fv, isF := v.(valueFloat)
	if f != f {
		vAssert("NaN-is-the-canonical-NaN", isF && vFloat64bits(float64(fv)) == refCanonicalNaNBits)
		vAssert("NaN-hash", v.hash(nil) == _NaN.hash(nil))
		vAssert("NaN-SameAs", v.SameAs(_NaN) && _NaN.SameAs(v))
	}
	n := toNumeric(valueFloat(f))
	if f != f {
		vAssert("toNumeric-NaN", n.SameAs(_NaN) && n.hash(nil) == _NaN.hash(nil))
	}
}

// ---------------------------------------------------------------------
// H18.2: one step from an ARBITRARY structure satisfying the representation invariant
//
// Ghost state: nodes[k] is the entry created by the k-th insertion (reference slot k). Invariant:
//  * slot k live  <=> nodes[k].key != nil; the live nodes form the doubly linked list iterFirst..iterLast in
//    slot order; size == number of live slots;
//  * a dead node's iterPrev is nil (then every earlier slot is dead) or an earlier node such that every slot
//    strictly between them is dead (it may itself be dead) — so walking back over dead nodes ends at the
//    nearest live predecessor or at nil; a dead node's iterNext is stale (anything);
//  * the hash chains hold exactly the live nodes, each filed under the hash of its key.

func (w *vC18World) checkGhost(nodes []*mapEntry) {
	m := w.m
	if len(w.rLive) > len(nodes) && m.iterLast != nil {
		nodes = append(nodes, m.iterLast)
	}
	vAssert("ghost:one-node-per-slot", len(nodes) == len(w.rLive))
	if len(nodes) != len(w.rLive) {
		return
	}
	var lastLive *mapEntry
	cnt := 0
	for k, e := range nodes {
		vAssert("ghost:live<=>key", (e.key != nil) == w.rLive[k])
		if w.rLive[k] {
			cnt++
			vAssert("ghost:live-prev", e.iterPrev == lastLive)
			if lastLive != nil {
				vAssert("ghost:live-next", lastLive.iterNext == e)
			} else {
				vAssert("ghost:first", m.iterFirst == e)
			}
			lastLive = e
			_, found, _ := m.lookup(w.keys[w.rKey[k]])
			vAssert("ghost:hash-chain-finds-node", found == e)
			continue
		}
		vAssert("ghost:dead-value-released", e.value == nil)
		ok := false
		allDead := true
		for q := k - 1; q >= 0; q-- {
			if e.iterPrev == nodes[q] {
				ok = true
			}
			if w.rLive[q] {
				allDead = false
				break
			}
		}
		if e.iterPrev == nil && allDead {
			ok = true
		}
		vAssert("ghost:dead-back-pointer", ok)
	}
	if lastLive != nil {
		vAssert("ghost:last-next-nil", lastLive.iterNext == nil)
	} else {
		vAssert("ghost:empty-first", m.iterFirst == nil)
	}
	vAssert("ghost:last", m.iterLast == lastLive)
	vAssert("ghost:size", m.size == cnt)
}

func H_C18_step() {
	n := vBound("N")
	w := vC18AbstractPool2(n + 1)
	m := w.m
	nodes := make([]*mapEntry, n)
	ndead := 0
	for k := 0; k < n; k++ {
		e := &mapEntry{}
		nodes[k] = e
		w.nval++
		live := !vNondetBool("node.dead")
		if !live {
			ndead++
		}
		w.rCls = append(w.rCls, k)
		w.rKey = append(w.rKey, k)
		w.rVal = append(w.rVal, w.nval)
		w.rLive = append(w.rLive, live)
		if live {
			e.key = w.keys[k]
			e.value = valueInt(w.nval)
		}
	}
	vAssume(ndead <= vBound("D"))
	stale := false
	if ndead > 0 {
		stale = vNondetBool("dead.stale-next")
	}
	var lastLive *mapEntry
	for k, e := range nodes {
		if w.rLive[k] {
			e.iterPrev = lastLive
			if lastLive != nil {
				lastLive.iterNext = e
			} else {
				m.iterFirst = e
			}
			lastLive = e
			m.size++
			h := e.key.hash(nil)
			if c := m.hashTable[h]; c == nil {
				m.hashTable[h] = e
			} else {
				for c.hNext != nil {
					c = c.hNext
				}
				c.hNext = e
			}
			continue
		}
		var cands []*mapEntry
		q := k - 1
		for ; q >= 0; q-- {
			cands = append(cands, nodes[q])
			if w.rLive[q] {
				break
			}
		}
		if q < 0 {
			cands = append(cands, nil)
		}
		c := vNondetInt("dead.back")
		vAssume(c >= 0 && c < len(cands))
		c = vConcretize(c)
		e.iterPrev = cands[c]
		if stale && k+1 < n {
			e.iterNext = nodes[k+1]
		}
	}
	m.iterLast = lastLive
	w.checkGhost(nodes) // the constructed state satisfies the invariant (sanity of the generator)

	nk := len(w.keys)
	op := vNondetInt("op")
	vAssume(op >= 0 && op <= 2*nk+2)
	op = vConcretize(op)
	switch {
	case op < nk:
		w.doSet(op)
	case op < 2*nk:
		w.doDelete(op - nk)
	case op == 2*nk:
		w.doClear()
	case op == 2*nk+1:
		// an iterator parked anywhere: fresh (-1), on any node live or dead, or closed (n)
		p := vNondetInt("it.pos")
		vAssume(p >= -1 && p <= n)
		p = vConcretize(p)
		it := m.newIter()
		w.it[0] = it
		if p == n {
			it.close()
			w.rDone[0] = true
		} else if p >= 0 {
			it.cur = nodes[p]
			w.rPos[0] = p + 1
		}
		w.doNext(0)
		w.doNext(0)
		if !w.rDone[0] {
			// after a successful step the iterator is parked on a live node of the ghost list
			vAssert("step:iterator-parked-on-returned-node", it.m == m && it.cur == nodes[w.rPos[0]-1])
		} else {
			vAssert("step:iterator-closed", it.m == nil && it.cur == nil)
		}
	default:
		// observation only: has/get/size/walk in the arbitrary state
	}
	w.checkGhost(nodes)
	w.observe()
}
