package goja

import "github.com/dop251/goja/unistring"

// C20 / H20.3 — lastIndex protocol of regexpObject.execRegexp/test against RegExpBuiltinExec (ECMA-262 22.2.7.2)
// over the abstract matcher; H20.4 — the fast-path guard `standard`.

func H_C20_execRegexp() {
	s, u := vC20Subject("s")
	n := len(u)
	full := vNondetBool("fullUnicode")
	global := vNondetBool("global")
	sticky := vNondetBool("sticky")
	t := vC20NewMatcher("m", false)
	r := vRuntime()
	rx := vC20StdRegexp(r, &regexpPattern{src: "x", unicode: full, global: global, sticky: sticky,
		regexp2Wrapper: &regexp2Wrapper{rx: vC20Rx()}})
	geo := vC20Geometry(u, full)
	li := vNondetInt("lastIndex")
	vAssume(li >= -1 && li <= n+1)
	li = vConcretize(li)
	rx.setOwnStr("lastIndex", valueInt(li), true)

	var match bool
	var res regexpResult
	out := vCatch(func() { match, res = rx.execRegexp(s) })
	vAssert("exec:no-throw", !out.panicked)
	if out.panicked {
		return
	}
	after, isInt := rx.getStr("lastIndex", nil).(valueInt)
	vAssert("exec:lastIndex-is-integer", isInt)

	// RegExpBuiltinExec
	gy := global || sticky
	idx := 0
	if gy && li > 0 {
		idx = li // ToLength
	}
	wantMatch := false
	wantLast := li
	q := -1
	if idx > n {
		if gy {
			wantLast = 0
		}
	} else {
		cur := geo.idx(idx)
		split := geo.off(cur) != idx
		q = t.first(cur, geo.L)
		wantMatch = q >= 0
		if sticky && (q != cur || split) {
			wantMatch = false
		}
		if gy {
			wantLast = 0
			if wantMatch {
				wantLast = geo.off(q + vConcretize(t.lenAt(q)))
			}
		}
	}
	vAssert("exec:match==RegExpBuiltinExec", match == wantMatch)
	vAssert("exec:lastIndex==RegExpBuiltinExec", int(after) == wantLast)
	if match && wantMatch {
		vReach("exec:match-reached")
		vAssert("exec:index==utf16-offset", len(res.indexes) >= 2 && res.indexes[0] == geo.off(q))
		vAssert("exec:end==utf16-offset", len(res.indexes) >= 2 && res.indexes[1] == geo.off(q+t.lenAt(q)))
		vAssert("exec:slice-in-bounds", len(res.indexes) >= 2 && res.indexes[0] >= 0 && res.indexes[0] <= res.indexes[1] && res.indexes[1] <= n)
	}
}

// H20.4: any successful mutation that can redirect the RegExp protocol (own `exec`, any own property
// definition/deletion, prototype change, own Symbol.match/matchAll/search/split/replace) must disable the
// optimised paths (checkStdRegexp == nil); a pristine object is accepted.
func H_C20_guard() {
	r := vRuntime()
	rx := vC20StdRegexp(r, &regexpPattern{src: "x"})
	vAssert("guard:pristine-is-standard", r.checkStdRegexp(rx.val) == rx)

	op := vNondetInt("op")
	vAssume(op >= 0 && op <= 5)
	op = vConcretize(op)
	which := vNondetInt("which")
	vAssume(which >= 0 && which <= 5)
	which = vConcretize(which)
	strNames := []unistring.String{"exec", "lastIndex", "foo", "exec", "foo", "lastIndex"}
	defNames := []unistring.String{"exec", "flags", "global", "sticky", "constructor", "foo"}
	syms := []*Symbol{SymMatch, SymMatchAll, SymSearch, SymSplit, SymReplace, SymIterator}
	val := Value(valueInt(1))
	desc := PropertyDescriptor{Value: val, Writable: FLAG_TRUE, Enumerable: FLAG_TRUE, Configurable: FLAG_TRUE}
	ok := false
	mustDeopt := false
	out := vCatch(func() {
		switch op {
		case 0:
			ok = rx.setOwnStr(strNames[which], val, false)
			mustDeopt = strNames[which] == "exec"
		case 1:
			ok = rx.defineOwnPropertyStr(defNames[which], desc, false)
			mustDeopt = defNames[which] != "foo"
		case 2:
			rx.baseObject.setOwnStr("exec", val, false) // pre-existing own exec (as if defined before the guard was armed)
			rx.standard = true
			ok = rx.deleteStr("exec", false)
			mustDeopt = true // deleting an own `exec` changes which exec the protocol finds
		case 3:
			ok = rx.setProto(&Object{runtime: r, self: &baseObject{}}, false)
			mustDeopt = true
		case 4:
			ok = rx.setOwnSym(syms[which], val, false)
			mustDeopt = syms[which] != SymIterator
		case 5:
			ok = rx.defineOwnPropertySym(syms[which], desc, false)
			mustDeopt = syms[which] != SymIterator
		}
	})
	vAssert("guard:no-throw", !out.panicked)
	if out.panicked {
		return
	}
	vAssert("guard:mutation-succeeds", ok)
	if ok && mustDeopt {
		vReach("guard:deopt-reached")
		vAssert("guard:mutation-disables-fast-path", r.checkStdRegexp(rx.val) == nil)
	}
	if op == 0 && strNames[which] == "lastIndex" {
		vAssert("guard:lastIndex-write-keeps-fast-path", r.checkStdRegexp(rx.val) == rx)
	}
}
