package goja

// ---------------------------------------------------------------------
// C09 (and C03 for generators): the real generator.next / nextThrow around a two-instruction program
// [script, terminator], from a VM that is in the middle of an outer run (the generator's next() is
// called by a native function of a running script), resumed twice at DIFFERENT outer depths.
//
// The generator's suspended frame (operand segment, one inner try frame, one open iterator, one
// pending reference) must be seen by its body at the same frame-relative positions after every
// resume, the outer VM state must be exactly restored after every step - yield, return, throw,
// uncatchable error - and the values/exception delivered must be the ones produced.

type vGenWorld struct {
	r    *Runtime
	m    *vm
	g    *generator
	prg  *Program
	step int // 0: first resume, 1: second resume
	// behaviour of the body at each resume: 0 yield, 1 return, 2 throw, 3 uncatchable
	beh [2]int
	// observations made by the body (frame-relative)
	obsSegLen   [2]int
	obsSeg0     [2]Value
	obsSeg2     [2]Value
	obsTrySp    [2]int
	obsTryIter  [2]int
	obsTryRef   [2]int
	obsTryCall  [2]bool
	obsIterTop  [2]*iteratorRecord
	obsRefTop   [2]ref
	obsStash    [2]*stash
	obsTryCount [2]int
	hasTry      bool
	iter        *iteratorRecord
	rf          ref
	gstash      *stash
	thrown      Value
	unc         *StackOverflowError
}

var vCurGen *vGenWorld

type vGenScript struct{}

// the generator body: observes its frame, then behaves as chosen for this resume
func (vGenScript) exec(m *vm) {
	w := vCurGen
	k := w.step
	g := w.g
	base := m.sb - 1
	w.obsSegLen[k] = m.sp - base
	w.obsSeg0[k] = m.stack[base]
	w.obsSeg2[k] = m.stack[base+2]
	w.obsStash[k] = m.stash
	w.obsTryCount[k] = len(m.tryStack) - int(g.tryStackLen)
	if w.hasTry && len(m.tryStack) > int(g.tryStackLen) {
		tf := m.tryStack[len(m.tryStack)-1]
		w.obsTrySp[k] = int(tf.sp) - base
		w.obsTryIter[k] = int(tf.iterLen) - int(g.iterStackLen)
		w.obsTryRef[k] = int(tf.refLen) - int(g.refStackLen)
		w.obsTryCall[k] = int(tf.callStackLen) == len(m.callStack)
	}
	if len(m.iterStack) > 0 {
		w.obsIterTop[k] = m.iterStack[len(m.iterStack)-1].iter
	}
	if len(m.refStack) > 0 {
		w.obsRefTop[k] = m.refStack[len(m.refStack)-1]
	}
	switch w.beh[k] {
	case 0: // yield 55+k
		m.push(valueInt(55 + k))
		m.pc++
	case 1: // return 77: compiled code leaves its try regions and loops before `ret`
		m.tryStack = m.tryStack[:g.tryStackLen]
		m.iterStack = m.iterStack[:g.iterStackLen]
		m.refStack = m.refStack[:g.refStackLen]
		m.push(valueInt(77))
		m.pc++
	case 2:
		panic(w.thrown)
	default:
		panic(w.unc)
	}
}

type vGenOuter struct {
	call, try, iter, rf, sp, sb, pc int
	prg                           *Program
	stash                         *stash
}

func (w *vGenWorld) outer() vGenOuter {
	m := w.m
	return vGenOuter{len(m.callStack), len(m.tryStack), len(m.iterStack), len(m.refStack), m.sp, m.sb, m.pc, m.prg, m.stash}
}

func vNewGenWorld() *vGenWorld {
	w := &vGenWorld{r: vRuntime()}
	vCurGen = w
	m := &vm{r: w.r}
	w.m = m
	w.r.vm = m
	m.maxCallStackSize = 1 << 30
	m.stack = make(valueStack, 16)
	for i := range m.stack {
		m.stack[i] = valueInt(300 + i)
	}
	// the outer run: one frame, RunProgram's marker, operands
	outerPrg := &Program{code: make([]instruction, 40)}
	m.prg = outerPrg
	m.pc = 17
	m.sb = 1
	m.sp = 3
	m.stash = &stash{}
	m.callStack = append(m.callStack, context{})
	m.tryStack = append(m.tryStack, tryFrame{catchPos: tryPanicMarker, finallyPos: -1, finallyRet: -1, stash: m.stash})
	// the suspended generator
	w.gstash = &stash{}
	w.thrown = valueInt(vNondetInt64("thrown"))
	w.unc = &StackOverflowError{}
	w.hasTry = vChoice("gen.hasTry", 2) == 1
	w.iter = &iteratorRecord{}
	w.rf = &unresolvedRef{runtime: w.r, name: "g"}
	term := vChoice("terminator0", 2)
	w.beh[0] = term
	if vChoice("fail0", 2) == 1 {
		w.beh[0] = 2 + vChoice("failKind0", 2)
	}
	w.beh[1] = vChoice("beh1", 4)
	var termInstr0, termInstr1 instruction = yield, yield
	if w.beh[0] == 1 {
		termInstr0 = ret
	}
	if w.beh[1] == 1 {
		termInstr1 = ret
	}
	w.prg = &Program{code: []instruction{vGenScript{}, termInstr0, vGenScript{}, termInstr1, vNopInstr{}}}
	g := &generator{vm: m}
	w.g = g
	g.ctx.context = context{prg: w.prg, pc: 0, stash: w.gstash, args: 0}
	g.ctx.stack = []Value{valueInt(900), valueInt(901), valueInt(902)} // callee, this, one local
	if w.hasTry {
		// a try-finally region of the body entered before the last yield (suspended form: relative)
		rsp := vNondetInt32("gen.try.sp")
		vAssume(rsp >= 2 && rsp <= 3)
		g.ctx.tryStack = []tryFrame{{catchPos: -1, finallyPos: -1, finallyRet: -1, stash: w.gstash, sp: rsp, iterLen: 0, refLen: 0}}
		g.ctx.iterStack = []iterStackItem{{iter: w.iter}}
		g.ctx.refStack = []ref{w.rf}
	}
	return w
}

func (w *vGenWorld) checkOuter(tag string, before vGenOuter) {
	after := w.outer()
	vAssert(tag+":callStack", after.call == before.call)
	vAssert(tag+":tryStack", after.try == before.try)
	vAssert(tag+":iterStack", after.iter == before.iter)
	vAssert(tag+":refStack", after.rf == before.rf)
	vAssert(tag+":sp", after.sp == before.sp)
	vAssert(tag+":caller-registers", after.sb == before.sb && after.pc == before.pc && after.prg == before.prg && after.stash == before.stash)
}

func (w *vGenWorld) checkObs(tag string, k int) {
	// callee, this, one local (+ the value sent by next(v) on the second resume)
	vAssert(tag+":segment-length", w.obsSegLen[k] == 3+k)
	vAssert(tag+":segment-contents", w.obsSeg0[k] == valueInt(900) && w.obsSeg2[k] == valueInt(902))
	vAssert(tag+":scope", w.obsStash[k] == w.gstash)
	if w.hasTry {
		vAssert(tag+":try-frames", w.obsTryCount[k] == 1)
		vAssert(tag+":try.sp-relative", w.obsTrySp[k] >= 2 && w.obsTrySp[k] <= 3)
		vAssert(tag+":try.iterLen-relative", w.obsTryIter[k] == 0)
		vAssert(tag+":try.refLen-relative", w.obsTryRef[k] == 0)
		vAssert(tag+":try.callStackLen-current", w.obsTryCall[k])
		vAssert(tag+":iterator", w.obsIterTop[k] == w.iter)
		vAssert(tag+":reference", w.obsRefTop[k] == w.rf)
	} else {
		vAssert(tag+":try-frames", w.obsTryCount[k] == 0)
	}
}

type vGenResult struct {
	val      Value
	typ      resultType
	ex       *Exception
	panicked bool
	panicVal interface{}
}

func (w *vGenWorld) next(v Value) (res vGenResult) {
	defer func() {
		if x := recover(); x != nil {
			if _, isAssume := x.(vAssumeFailedMarker); isAssume {
				panic(x)
			}
			res.panicked = true
			res.panicVal = x
		}
	}()
	res.val, res.typ, res.ex = w.g.next(v)
	return
}

func (w *vGenWorld) checkResult(tag string, k int, res vGenResult) {
	switch w.beh[k] {
	case 0:
		vAssert(tag+":yield", !res.panicked && res.ex == nil && res.typ == resultYield && res.val == valueInt(55+k))
	case 1:
		vAssert(tag+":return", !res.panicked && res.ex == nil && res.typ == resultNormal && res.val == valueInt(77))
	case 2:
		vAssert(tag+":throw", !res.panicked && res.ex != nil && res.ex.val == w.thrown)
	default:
		vAssert(tag+":uncatchable-propagates", res.panicked && res.panicVal == interface{}(w.unc))
	}
}

func H_C09_generator_next() {
	w := vNewGenWorld()
	m := w.m
	// first resume
	o1 := w.outer()
	w.step = 0
	r1 := w.next(nil)
	w.checkObs("resume1", 0)
	w.checkResult("step1", 0, r1)
	w.checkOuter("after1", o1)
	if w.beh[0] != 0 {
		return
	}
	// the generator is suspended again; its saved frame is frame-relative
	vAssert("suspended:segment", len(w.g.ctx.stack) == 3)
	if w.hasTry {
		vAssert("suspended:try-saved", len(w.g.ctx.tryStack) == 1 && len(w.g.ctx.iterStack) == 1 && len(w.g.ctx.refStack) == 1)
	}
	// second resume from a different outer depth: a deeper native call, more operands, more open
	// iterators/references/try frames of the outer run
	m.pushCtx()
	m.stack[m.sp] = valueInt(1)
	m.stack[m.sp+1] = valueInt(2)
	m.sp += 2
	m.sb = m.sp - 1
	m.pushTryFrame(4, -1)
	m.iterStack = append(m.iterStack, iterStackItem{}, iterStackItem{})
	m.refStack = append(m.refStack, &unresolvedRef{runtime: w.r, name: "o"})
	o2 := w.outer()
	w.step = 1
	r2 := w.next(valueInt(5))
	w.checkObs("resume2", 1)
	w.checkResult("step2", 1, r2)
	w.checkOuter("after2", o2)
}

// ---------------------------------------------------------------------
// H09.2: generatorObject.return(v) on a generator suspended inside try { … } finally { … }, where the
// suspension point is in an inner block scope: the finally body must run exactly once with the scope of
// the try statement (not the scope of the suspension point), see the returned value pending, and the
// result is {value: v, done: true}; the outer VM is restored. A finally body that itself yields keeps
// the generator suspended.

type vGenFinallyScript struct{}

var vGenFinallyRuns int
var vGenFinallyStash *stash
var vGenFinallyBeh int // 0: complete normally, 1: yield inside finally, 2: throw, 3: uncatchable

func (vGenFinallyScript) exec(m *vm) {
	w := vCurGen
	vGenFinallyRuns++
	vGenFinallyStash = m.stash
	switch vGenFinallyBeh {
	case 0:
		m.pc++
	case 1:
		m.push(valueInt(66))
		m.pc += 2 // to the yield placed after leaveFinally
	case 2:
		panic(w.thrown)
	default:
		panic(w.unc)
	}
}

type vIterResult struct {
	value Value
	done  bool
}

var vIterResults []vIterResult

func vStubCreateIterResultObject(r *Runtime, value Value, done bool) Value {
	vIterResults = append(vIterResults, vIterResult{value, done})
	return &Object{runtime: r}
}

// vIterResultOf reads {value, done} of an iterator result: symbolically from the stub's log, natively
// from the real object
func vIterResultOf(res Value) (Value, bool, bool) {
	if vSymbolic() {
		if len(vIterResults) != 1 {
			return nil, false, false
		}
		return vIterResults[0].value, vIterResults[0].done, true
	}
	o, ok := res.(*Object)
	if !ok {
		return nil, false, false
	}
	return o.Get("value"), o.Get("done").ToBoolean(), true
}

func H_C09_generator_return() {
	w := vNewGenWorld()
	m := w.m
	vGenFinallyRuns = 0
	vGenFinallyStash = nil
	vIterResults = nil
	vGenFinallyBeh = vChoice("finally.behaviour", 4)
	tryStash := &stash{}
	// program: 0 body (unused here), 1 yield, 2 finally body, 3 leaveFinally, 4 yield (inside finally), 5 leaveFinally
	w.prg = &Program{code: []instruction{vGenScript{}, yield, vGenFinallyScript{}, leaveFinally{}, yield, leaveFinally{}}}
	go_ := &generatorObject{baseObject: baseObject{val: &Object{runtime: w.r}, extensible: true}}
	go_.val.self = go_
	go_.gen.vm = m
	go_.state = genStateSuspendedYield
	g := &go_.gen
	w.g = g
	rsp := vNondetInt32("gen.try.sp")
	vAssume(rsp >= 2 && rsp <= 3)
	g.ctx.context = context{prg: w.prg, pc: 2, stash: w.gstash}
	g.ctx.stack = []Value{valueInt(900), valueInt(901), valueInt(902)}
	g.ctx.tryStack = []tryFrame{{catchPos: -1, finallyPos: 2, finallyRet: -1, stash: tryStash, sp: rsp}}
	g.ctx.iterStack = []iterStackItem{{iter: w.iter}}
	o1 := w.outer()
	v := valueInt(vNondetInt64("returned"))
	var res Value
	var out vGenResult
	func() {
		defer func() {
			if x := recover(); x != nil {
				if _, isAssume := x.(vAssumeFailedMarker); isAssume {
					panic(x)
				}
				out.panicked = true
				out.panicVal = x
			}
		}()
		// the caller is a native function invoked under vm.try (as every Go->JS boundary is): a JS
		// exception leaving return() is handed to that catcher, which restores the caller's frame
		if ex := m.try(func() { res = go_._return(v) }); ex != nil {
			out.panicked = true
			out.panicVal = ex
		}
	}()
	_ = res
	vAssert("return:finally-runs-once", vGenFinallyRuns == 1)
	vAssert("return:finally-scope-is-try-scope", vGenFinallyStash == tryStash)
	w.checkOuter("return:outer", o1)
	switch vGenFinallyBeh {
	case 0:
		vAssert("return:no-exception", !out.panicked)
		rv, rdone, rok := vIterResultOf(res)
		vAssert("return:result", rok && rdone && rv == Value(v))
		vAssert("return:completed", go_.state == genStateCompleted)
		vAssert("return:open-iterator-closed", w.iter.iterator == nil && len(m.iterStack) == o1.iter)
	case 1:
		rv, rdone, rok := vIterResultOf(res)
		vAssert("return:yield-in-finally", !out.panicked && rok && !rdone && rv == valueInt(66))
		vAssert("return:still-suspended", go_.state == genStateSuspendedYield && g.returning != nil)
	case 2:
		ex, isEx := out.panicVal.(*Exception)
		vAssert("return:throw-in-finally-overrides", out.panicked && isEx && ex.val == w.thrown)
		vAssert("return:completed-after-throw", go_.state == genStateCompleted)
	default:
		vAssert("return:uncatchable-propagates", out.panicked && out.panicVal == interface{}(w.unc))
	}
}

// ---------------------------------------------------------------------
// H09.3: the yield* driver (generatorObject.next with a delegate) against the spec's yield* loop, with
// the generator body stubbed: next()/throw() of the body return an arbitrary (value, kind, exception).

type vDelegWorld struct {
	r          *Runtime
	gobj       *generatorObject
	d1, d2     *iteratorRecord
	d1Beh      int // delegate next(): 0 {done:false}, 1 {done:true}, 2 throws
	d2Calls    int
	d1Calls    int
	d1Res      *Object
	d2Res      *Object
	d1Thrown   Value
	bodyBeh    int // body outcome when resumed: 0 yield, 1 yield* (new delegate), 2 return, 3 throw
	bodyNext   int // calls of generator.next
	bodyThrow  int // calls of generator.nextThrow
	bodySent   Value
	bodyThrown interface{}
	bodyErr    *Exception
}

var vCurDeleg *vDelegWorld

func vNewIterResult(r *Runtime, done bool, value Value) *Object {
	o := &Object{runtime: r}
	b := &baseObject{val: o, class: classObject, extensible: true}
	o.self = b
	b.init()
	b.values["done"] = valueBool(done)
	b.values["value"] = value
	b.propNames = append(b.propNames, "done", "value")
	return o
}

func (w *vDelegWorld) body() (Value, resultType, *Exception) {
	switch w.bodyBeh {
	case 0:
		return valueInt(11), resultYield, nil
	case 1:
		return valueInt(12), resultYieldDelegate, nil // the operand of the new yield*
	case 2:
		return valueInt(13), resultNormal, nil
	}
	w.bodyErr = &Exception{val: valueInt(14)}
	return nil, resultNormal, w.bodyErr
}

func vStubGenNext(g *generator, v Value) (Value, resultType, *Exception) {
	w := vCurDeleg
	w.bodyNext++
	w.bodySent = v
	return w.body()
}

func vStubGenNextThrow(g *generator, v interface{}) (Value, resultType, *Exception) {
	w := vCurDeleg
	w.bodyThrow++
	w.bodyThrown = v
	return w.body()
}

func vStubGetIterator(r *Runtime, obj Value, method func(FunctionCall) Value) *iteratorRecord {
	return vCurDeleg.d2
}

func H_C09_yieldStar_next() {
	w := &vDelegWorld{r: vRuntime()}
	vCurDeleg = w
	vIterResults = nil
	m := &vm{r: w.r}
	w.r.vm = m
	m.stack = make(valueStack, 8)
	m.maxCallStackSize = 1 << 30
	w.d1Beh = vChoice("delegate.next", 3)
	w.bodyBeh = vChoice("body", 4)
	yieldRes := vChoice("state.yieldRes", 2) == 1
	w.d1Thrown = valueInt(21)
	it1 := &Object{runtime: w.r}
	it2 := &Object{runtime: w.r}
	w.d1Res = vNewIterResult(w.r, w.d1Beh == 1, valueInt(31))
	w.d2Res = vNewIterResult(w.r, false, valueInt(32))
	w.d1 = &iteratorRecord{iterator: it1, next: func(FunctionCall) Value {
		w.d1Calls++
		if w.d1Beh == 2 {
			panic(w.d1Thrown)
		}
		return w.d1Res
	}}
	w.d2 = &iteratorRecord{iterator: it2, next: func(FunctionCall) Value {
		w.d2Calls++
		return w.d2Res
	}}
	g := &generatorObject{baseObject: baseObject{val: &Object{runtime: w.r}, extensible: true}}
	g.val.self = g
	g.gen.vm = m
	g.delegated = w.d1
	g.state = genStateSuspendedYield
	if yieldRes {
		g.state = genStateSuspendedYieldRes
	}
	w.gobj = g
	sent := valueInt(41)
	var res Value
	var out vOutcome
	var thrown interface{}
	func() {
		defer func() {
			if x := recover(); x != nil {
				if _, isAssume := x.(vAssumeFailedMarker); isAssume {
					panic(x)
				}
				out.panicked = true
				thrown = x
			}
		}()
		res = g.next(sent)
	}()
	vAssert("delegate.next-called-once", w.d1Calls == 1)
	switch w.d1Beh {
	case 0:
		// inner result not done: handed out as is, nothing else happens
		vAssert("notdone:result-is-inner-result", !out.panicked && res == Value(w.d1Res))
		vAssert("notdone:body-not-resumed", w.bodyNext == 0 && w.bodyThrow == 0)
		vAssert("notdone:still-delegating", g.delegated == w.d1)
		return
	case 1:
		// inner done: the body is resumed with the inner value (as the value of the yield* expression)
		vAssert("done:body-resumed-once", w.bodyNext == 1 && w.bodyThrow == 0)
		if yieldRes {
			vAssert("done:value-of-yield*", w.bodySent == valueInt(31))
		}
	default:
		// inner throws: the exception is thrown into the body at the yield*
		vAssert("throw:body-gets-exception-once", w.bodyThrow == 1 && w.bodyNext == 0)
		ex, isEx := w.bodyThrown.(*Exception)
		vAssert("throw:same-value", isEx && ex.val == w.d1Thrown)
	}
	// what the body does next
	switch w.bodyBeh {
	case 0:
		rv, rdone, rok := vIterResultOf(res)
		vAssert("body.yield:result", !out.panicked && rok && !rdone && rv == valueInt(11))
		vAssert("body.yield:no-delegate", g.delegated == nil)
		vAssert("body.yield:suspended", g.state == genStateSuspendedYield)
	case 1:
		// a new yield*: the new delegate is installed and asked for its first result
		vAssert("body.yield*:new-delegate-installed", g.delegated == w.d2)
		vAssert("body.yield*:new-delegate-stepped-once", w.d2Calls == 1)
		vAssert("body.yield*:result-is-new-inner-result", !out.panicked && res == Value(w.d2Res))
	case 2:
		rv, rdone, rok := vIterResultOf(res)
		vAssert("body.return:result", !out.panicked && rok && rdone && rv == valueInt(13))
		vAssert("body.return:completed", g.state == genStateCompleted && g.delegated == nil)
	default:
		vAssert("body.throw:propagates", out.panicked && thrown == interface{}(w.bodyErr))
		vAssert("body.throw:completed", g.state == genStateCompleted && g.delegated == nil)
	}
}
