package goja

import "github.com/dop251/goja/unistring"

// ---------------------------------------------------------------------
// C11 (second wave)
//   H11.4  [[GetOwnProperty]] result validation (10.5.5 steps 9-18): proxyGetOwnPropertyDescriptor with the trap result
//          an arbitrary descriptor OBJECT / undefined / a non-object, through the real toPropertyDescriptor /
//          complete / __isCompatibleDescriptor / toValueProp
//   H11.5  revoked proxy: every internal method throws TypeError (and never a Go nil dereference)
//   H11.6  proxy of proxy: [[Get]] / [[HasProperty]] invariants are enforced by the layer that has the trap against the
//          target's property as seen THROUGH the inner proxy; trap-less layers are transparent

// ---- H11.4 ----

// a descriptor with concrete presence choices (no solver queries) and symbolic attribute values.
// family 0: data/generic fields, 1: accessor fields
func (w *vC04World) mDescriptor(family int) *vC04Desc {
	d := &vC04Desc{dG: -1, dS: -1}
	flag := func(present string, val string) Flag {
		if vChoice(present, 2) == 0 {
			return FLAG_NOT_SET
		}
		if vNondetBool(val) {
			return FLAG_TRUE
		}
		return FLAG_FALSE
	}
	d.d.Enumerable = flag("desc.hasEnumerable", "desc.enumerable")
	d.d.Configurable = flag("desc.hasConfigurable", "desc.configurable")
	if family == 0 {
		d.d.Writable = flag("desc.hasWritable", "desc.writable")
		switch vChoice("desc.value.kind", 3) {
		case 1:
			d.hasV = true
			d.d.Value = _undefined
		case 2:
			d.hasV = true
			i := vNondetInt64("desc.value.i")
			vAssume(i >= -(1<<53) && i <= 1<<53)
			d.d.Value = valueInt(i)
		}
	} else {
		d.dG = vChoice("desc.get", 3) - 1
		d.dS = vChoice("desc.set", 3) - 1
		vAssume(d.dG >= 0 || d.dS >= 0)
		d.d.Getter = w.fnField(d.dG)
		d.d.Setter = w.fnField(d.dS)
	}
	d.dW, d.dE, d.dC = int(d.d.Writable), int(d.d.Enumerable), int(d.d.Configurable)
	return d
}

// the JS object a getOwnPropertyDescriptor trap would return for d
func (w *vC04World) mDescObject(d *vC04Desc) *Object {
	o, b := vC04Obj(w.r, true)
	put := func(n unistring.String, v Value) {
		b.values[n] = v
		b.propNames = append(b.propNames, n)
	}
	flag := func(n unistring.String, f Flag) {
		if f != FLAG_NOT_SET {
			var v Value = valueFalse
			if f == FLAG_TRUE {
				v = valueTrue
			}
			put(n, v)
		}
	}
	if d.hasV {
		put("value", d.d.Value)
	}
	flag("writable", d.d.Writable)
	flag("enumerable", d.d.Enumerable)
	flag("configurable", d.d.Configurable)
	if d.dG >= 0 {
		put("get", w.fnField(d.dG))
	}
	if d.dS >= 0 {
		put("set", w.fnField(d.dS))
	}
	return o
}

func refC11Completed(f int) int { // CompletePropertyDescriptor on a tri-state flag: absent -> false
	if f == refFlagNotSet {
		return refFlagFalse
	}
	return f
}

func hC11GetOwnPropertyDescriptor(family int) {
	w := vC04NewWorld()
	ext := vNondetBool("target.extensible")
	tobj, _ := vC04Obj(w.r, ext)
	cur := w.mCurrent(true)
	// trap result: 0 undefined, 1 a Number (neither Object nor undefined), 2 a descriptor object
	resKind := vChoice("trapResult.kind", 3)
	d := &vC04Desc{dG: -1, dS: -1}
	var trapResult Value = _undefined
	switch resKind {
	case 1:
		trapResult = valueInt(3)
	case 2:
		d = w.mDescriptor(family)
		trapResult = w.mDescObject(d)
	}
	p := vC11Proxy(w.r, tobj, nil)
	var got Value
	out := vCatch(func() { got = p.proxyGetOwnPropertyDescriptor(cur.repr, tobj, trapResult, unistring.String("p")) })
	vAssert("gopd:only-TypeError", refImp(out.panicked, out.kind == "TypeError"))
	present := cur.kind != 0
	switch resKind {
	case 0:
		// step 11: undefined is a lie iff the property exists and is non-configurable or the target is non-extensible
		violated := refAnd(present, refOr(!cur.c, !ext))
		vAssert("gopd.undefined:TypeError<=>invariant-violated", out.panicked == violated)
		vAssert("gopd.undefined:returns-undefined", refOr(out.panicked, got == nil))
	case 1:
		vAssert("gopd.nonobject:TypeError", out.panicked)
	default:
		// steps 13-14 CompletePropertyDescriptor
		accessor := family == 1
		cW, cE, cC := d.dW, refC11Completed(d.dE), refC11Completed(d.dC)
		cG, cS, cHasV := d.dG, d.dS, d.hasV
		if accessor {
			if cG < 0 {
				cG = 0
			}
			if cS < 0 {
				cS = 0
			}
		} else {
			cW = refC11Completed(d.dW)
			cHasV = true // absent -> undefined
		}
		var cV Value = _undefined
		if d.hasV {
			cV = d.d.Value
		}
		sameV := false
		if !accessor && cur.kind == 1 {
			sameV = vC04SameValue(cV, cur.value)
		}
		// step 15-16 IsCompatiblePropertyDescriptor
		ref := specC04Validate(ext, cur.kind, cur.w, cur.e, cur.c, cur.g, cur.s, cW, cE, cC, cHasV, sameV, cG, cS)
		// step 17: reporting non-configurable
		nc := cC == refFlagFalse
		v17a := refAnd(nc, refOr(!present, cur.c))
		v17b := refAnd(refAnd(nc, !accessor), refAnd(cW == refFlagFalse, refAnd(cur.kind == 1, cur.w)))
		violated := refOr(!ref.ok, refOr(v17a, v17b))
		vAssert("gopd.object:TypeError<=>invariant-violated", out.panicked == violated)
		if !out.panicked {
			// step 18: the completed trap descriptor is what the caller sees
			ok := got != nil
			g := vC04Got{}
			if ok {
				g = w.decode(got)
			}
			// representation: a data record whose value field is nil reads as undefined everywhere (valueProperty.get,
			// valuePropToDescriptorObject), so it IS the value undefined
			gv := g.value
			if ok && g.kind == 1 && gv == nil {
				gv = _undefined
			}
			flags := refAnd(g.e == (cE == refFlagTrue), g.c == (cC == refFlagTrue))
			data := refAnd(g.kind == 1, refAnd(g.w == (cW == refFlagTrue), vC04SameValue(gv, cV)))
			acc := refAnd(g.kind == 2, refAnd(g.g == cG, g.s == cS))
			body := refOr(refAnd(!accessor, data), refAnd(accessor, acc))
			// F-C11-gopd-accessor-without-functions: {get: undefined, set: undefined} comes back as a data property
			known := accessor && cG == 0 && cS == 0
			vAssertK("gopd.object:returns-completed-trap-descriptor", ok && refAnd(flags, body), known, "F-C11-gopd-accessor-without-functions")
		}
	}
}

func H_C11_gopd_data()     { hC11GetOwnPropertyDescriptor(0) }
func H_C11_gopd_accessor() { hC11GetOwnPropertyDescriptor(1) }

// ---- H11.5 revoked proxy ----

func H_C11_revoked() {
	w := vC04NewWorld()
	tobj, _ := vC04Obj(w.r, true)
	callable := vChoice("callable", 2) == 1
	p := vC11Proxy(w.r, tobj, &nativeProxyHandler{handler: &ProxyTrapConfig{}})
	if callable {
		p.call = func(FunctionCall) Value { return _undefined }
		p.ctor = func([]Value, *Object) *Object { return tobj }
	}
	// sanity before revocation: the trap-less proxy is transparent
	vAssert("revoked:live-proxy-answers", p.isExtensible() && p.getStr("p", nil) == nil && !p.hasPropertyStr("p"))
	p.revoke()
	name := unistring.String("p")
	idx := valueInt(1)
	sym := &Symbol{desc: asciiString("s")}
	recv, _ := vC04Obj(w.r, true)
	desc := PropertyDescriptor{Value: valueInt(1)}
	throw := vNondetBool("throw")
	op := vChoice("op", 38)
	vAssume(callable || op < 36)
	out := vCatch(func() {
		switch op {
		case 0:
			p.proto()
		case 1:
			p.setProto(nil, throw)
		case 2:
			p.isExtensible()
		case 3:
			p.preventExtensions(throw)
		case 4:
			p.getOwnPropStr(name)
		case 5:
			p.getOwnPropIdx(idx)
		case 6:
			p.getOwnPropSym(sym)
		case 7:
			p.defineOwnPropertyStr(name, desc, throw)
		case 8:
			p.defineOwnPropertyIdx(idx, desc, throw)
		case 9:
			p.defineOwnPropertySym(sym, desc, throw)
		case 10:
			p.hasPropertyStr(name)
		case 11:
			p.hasPropertyIdx(idx)
		case 12:
			p.hasPropertySym(sym)
		case 13:
			p.hasOwnPropertyStr(name)
		case 14:
			p.hasOwnPropertyIdx(idx)
		case 15:
			p.hasOwnPropertySym(sym)
		case 16:
			p.getStr(name, nil)
		case 17:
			p.getIdx(idx, nil)
		case 18:
			p.getSym(sym, nil)
		case 19:
			p.setOwnStr(name, valueInt(1), throw)
		case 20:
			p.setOwnIdx(idx, valueInt(1), throw)
		case 21:
			p.setOwnSym(sym, valueInt(1), throw)
		case 22:
			p.setForeignStr(name, valueInt(1), recv, throw)
		case 23:
			p.setForeignIdx(idx, valueInt(1), recv, throw)
		case 24:
			p.setForeignSym(sym, valueInt(1), recv, throw)
		case 25:
			p.deleteStr(name, throw)
		case 26:
			p.deleteIdx(idx, throw)
		case 27:
			p.deleteSym(sym, throw)
		case 28:
			p.keys(true, nil)
		case 29:
			p.stringKeys(false, nil)
		case 30:
			p.symbols(true, nil)
		case 31:
			p.iterateStringKeys()
		case 32:
			p.iterateSymbols()
		case 33:
			p.iterateKeys()
		case 34:
			p.className()
		case 35:
			isArray(p.val)
		case 36:
			p.apply(FunctionCall{This: _undefined})
		default:
			p.construct(nil, nil)
		}
	})
	vAssert("revoked:every-internal-method-throws-TypeError", out.panicked && out.kind == "TypeError")
	vAssert("revoked:target-untouched", len(tobj.self.(*baseObject).values) == 0 && len(recv.self.(*baseObject).values) == 0 && tobj.self.isExtensible())
}

// ---- H11.6 proxy of proxy ----

// layers: t <- P1 <- P2, each layer with or without a `get` / `has` trap (Go ProxyTrapConfig: the real nativeProxyHandler)
func H_C11_multilayer() {
	w := vC04NewWorld()
	ext := vNondetBool("target.extensible")
	tobj, tb := vC04Obj(w.r, ext)
	isHas := vChoice("op", 2) == 1
	t := w.targetProp("target", true, !isHas)
	name := unistring.String("p")
	if t.kind != 0 {
		tb.values[name] = t.repr
		tb.propNames = append(tb.propNames, name)
	}
	trap1 := vChoice("inner.hasTrap", 2) == 1
	trap2 := vChoice("outer.hasTrap", 2) == 1
	// one arbitrary result for the layer that answers; the other layer's trap (which must not run) returns a fixed value
	var r1, r2 vC11Val
	b1, b2 := false, false
	if trap1 || trap2 {
		if isHas {
			b := vNondetBool("trapResult")
			b1, b2 = b, b
			if trap2 {
				b1 = !b
			}
		} else {
			rv := w.anyValue("trapResult")
			r1, r2 = rv, rv
			if trap2 {
				r1 = vC11Val{valueInt(12345), 1}
			}
		}
	}
	calls1, calls2 := 0, 0
	cfg := func(v vC11Val, b bool, on bool, calls *int) *ProxyTrapConfig {
		c := &ProxyTrapConfig{}
		if on {
			if isHas {
				c.Has = func(*Object, string) bool { *calls++; return b }
			} else {
				c.Get = func(*Object, string, Value) Value { *calls++; return v.v }
			}
		}
		return c
	}
	p1 := vC11Proxy(w.r, tobj, &nativeProxyHandler{handler: cfg(r1, b1, trap1, &calls1)})
	p2 := vC11Proxy(w.r, p1.val, &nativeProxyHandler{handler: cfg(r2, b2, trap2, &calls2)})

	var gotV Value
	gotB := false
	out := vCatch(func() {
		if isHas {
			gotB = p2.hasPropertyStr(name)
		} else {
			gotV = p2.getStr(name, nil)
		}
	})
	vAssert("multilayer:only-TypeError", refImp(out.panicked, out.kind == "TypeError"))
	// the layer that answers: the outermost one with a trap; none -> the target itself
	answeredBy := 0
	if trap1 {
		answeredBy = 1
	}
	if trap2 {
		answeredBy = 2
	}
	vAssert("multilayer:exactly-the-outermost-trap-runs", calls2 == refB2I(trap2) && calls1 == refB2I(trap1 && !trap2))
	present := t.kind != 0
	if isHas {
		res := b1
		if answeredBy == 2 {
			res = b2
		}
		if answeredBy == 0 {
			vAssert("multilayer.has:transparent", !out.panicked && gotB == present)
			return
		}
		// 10.5.7 step 9 against the target's property as seen through the inner layers, and the target's extensibility
		violated := refAnd(!res, refAnd(present, refOr(!t.c, !ext)))
		vAssert("multilayer.has:TypeError<=>invariant-violated", out.panicked == violated)
		vAssert("multilayer.has:returns-trap-result", refOr(out.panicked, gotB == res))
		return
	}
	if answeredBy == 0 {
		// observationally the target: data -> value; accessor -> getter result (f1 returns undefined); absent -> undefined
		want := gotV == nil || gotV == _undefined
		if t.kind == 1 {
			k := vC11KindOf(w, gotV)
			want = gotV != nil && k == t.val.kind && vC11SameValue(vC11Val{gotV, k}, t.val)
		}
		vAssert("multilayer.get:transparent", !out.panicked && want)
		return
	}
	res := r1
	if answeredBy == 2 {
		res = r2
	}
	same := vC11SameValue(res, t.val)
	violated := false
	if t.kind == 1 {
		violated = refAnd(refAnd(!t.c, !t.w), !same)
	}
	if t.kind == 2 {
		violated = refAnd(refAnd(!t.c, t.g == 0), res.kind != 0)
	}
	vAssert("multilayer.get:TypeError<=>invariant-violated", out.panicked == violated)
	retOK := false
	if !out.panicked && gotV != nil {
		k := vC11KindOf(w, gotV)
		retOK = k == res.kind && vC11SameValue(vC11Val{gotV, k}, res)
	}
	vAssert("multilayer.get:returns-trap-result", refOr(out.panicked, retOK))
}

func refB2I(b bool) int {
	if b {
		return 1
	}
	return 0
}

// kind of a value of the vC11Val universe
func vC11KindOf(w *vC04World, v Value) int {
	switch x := v.(type) {
	case valueUndefined:
		return 0
	case *Object:
		if x == w.f1 {
			return 2
		}
		return 3
	}
	return 1
}
