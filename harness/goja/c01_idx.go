package goja

import (
	"math"

	"github.com/dop251/goja/unistring"
)

// ---------------------------------------------------------------------
// C01 / H01.2 — index-string parsers: for EVERY byte string (length 0..N) no Go panic escapes and the
// result is the integer iff the string is the canonical decimal representation (ECMA-262
// Number::toString of an integer: "0", or optional "-" followed by digits without a leading zero; "-0"
// is not canonical) of an integer within the range of the result type.

// vC01Guard runs f and reports whether a Go panic of any kind escaped from it (JS throws are not
// expected from these kernels either). Assumption failures of the native twin pass through.
func vC01Guard(f func()) (panicked bool) {
	defer func() {
		if x := recover(); x != nil {
			if _, ok := x.(vAssumeFailedMarker); ok {
				panic(x)
			}
			panicked = true
		}
	}()
	f()
	return
}

func vC01Str() string {
	n := vNondetInt("len")
	vAssume(n >= 0 && n <= vBound("N"))
	n = vConcretize(n)
	return vNondetString("s", n)
}

type refC01Int struct {
	ok  bool   // canonical decimal of an integer with at most 19 digits
	neg bool   // leading '-'
	mag uint64 // magnitude (valid if ok)
}

// refC01Canon: written from ECMA-262 7.1.21 CanonicalNumericIndexString / 6.1.7 (integer index):
// ToString(n) for an integer n.
func refC01Canon(s string) refC01Int {
	var r refC01Int
	n := len(s)
	i := 0
	if n > 0 && s[0] == '-' {
		r.neg = true
		i = 1
	}
	d := n - i
	if d < 1 || d > 19 {
		return r
	}
	if s[i] == '0' {
		r.ok = d == 1 && !r.neg
		return r
	}
	var bad uint64 // branch-free: top bit set iff some byte is not a decimal digit
	var m uint64
	for ; i < n; i++ {
		d := uint64(s[i] - '0') // 0..255 (byte arithmetic wraps)
		bad |= 9 - d
		m = m*10 + d
	}
	good := bad>>63 == 0
	r.ok = good
	r.mag = m
	return r
}

// refC01InRange: the canonical integer lies in [-(negMax), posMax]
func refC01InRange(r refC01Int, negMax, posMax uint64) bool {
	if !r.ok {
		return false
	}
	if r.neg {
		return r.mag <= negMax
	}
	return r.mag <= posMax
}

func refC01Value(r refC01Int) int64 {
	if r.neg {
		return -int64(r.mag)
	}
	return int64(r.mag)
}

// refC01DashOnly: the class of the known finding F-C01-strToInt-dash
func refC01DashOnly(s string) bool { return len(s) == 1 && s[0] == '-' }

// refC01Int64Last89: class of F-C01-strToInt-last-digit: 19-digit integers (optional '-') whose last digit is 8 or
// 9 are rejected even when they are within int64 ("guaranteed to overflow" test looks only at the last digit)
func refC01Int64Last89(s string) bool {
	n := len(s)
	if n == 20 && s[0] == '-' {
		return s[19] == '8' || s[19] == '9'
	}
	return n == 19 && (s[18] == '8' || s[18] == '9')
}

func refC01Int32Last89(s string) bool {
	n := len(s)
	if n == 11 && s[0] == '-' {
		return s[10] == '8' || s[10] == '9'
	}
	return n == 10 && (s[9] == '8' || s[9] == '9')
}

func H_C01_strToArrayIdx() {
	s := vC01Str()
	var got uint32
	p := vC01Guard(func() { got = strToArrayIdx(unistring.String(s)) })
	vAssert("strToArrayIdx:no-go-panic", !p)
	r := refC01Canon(s)
	want := uint32(math.MaxUint32)
	if refC01InRange(r, 0, math.MaxUint32-1) && !r.neg {
		want = uint32(r.mag)
	}
	vAssert("strToArrayIdx==canonical-array-index", got == want)
}

func H_C01_strToInt32() {
	s := vC01Str()
	var got int32
	var ok bool
	p := vC01Guard(func() { got, ok = strToInt32(unistring.String(s)) })
	vAssertK("strToInt32:no-go-panic", !p, refC01DashOnly(s), "F-C01-strToInt-dash")
	r := refC01Canon(s)
	in := refC01InRange(r, 1<<31, 1<<31-1)
	vAssertK("strToInt32:ok==canonical-int32", p || ok == in, refC01Int32Last89(s), "F-C01-strToInt-last-digit")
	vAssert("strToInt32:value", p || !ok || int64(got) == refC01Value(r))
}

func H_C01_strToInt64() {
	s := vC01Str()
	var got int64
	var ok bool
	p := vC01Guard(func() { got, ok = strToInt64(unistring.String(s)) })
	vAssertK("strToInt64:no-go-panic", !p, refC01DashOnly(s), "F-C01-strToInt-dash")
	r := refC01Canon(s)
	in := refC01InRange(r, 1<<63, 1<<63-1)
	vAssertK("strToInt64:ok==canonical-int64", p || ok == in, refC01Int64Last89(s), "F-C01-strToInt-last-digit")
	vAssert("strToInt64:value", p || !ok || got == refC01Value(r))
}

// strToGoIdx / strToIdx64: the integer, or -1 when the string is not a canonical in-range integer
func H_C01_strToIdx64() {
	s := vC01Str()
	var got int64
	var goIdx int
	p := vC01Guard(func() {
		got = strToIdx64(unistring.String(s))
		goIdx = strToGoIdx(unistring.String(s))
	})
	vAssertK("strToIdx64:no-go-panic", !p, refC01DashOnly(s), "F-C01-strToInt-dash")
	r := refC01Canon(s)
	want := int64(-1)
	if refC01InRange(r, 1<<63, 1<<63-1) {
		want = refC01Value(r)
	}
	vAssertK("strToIdx64==canonical-or-minus1", p || got == want, refC01Int64Last89(s), "F-C01-strToInt-last-digit")
	vAssertK("strToGoIdx==canonical-or-minus1", p || int64(goIdx) == want, refC01Int64Last89(s), "F-C01-strToInt-last-digit")
}

// strToIntNum: (n,true) iff canonical integer with |n| <= 2^53-1. (The (0,false)/(-1,false) distinction for
// non-integers depends on the string->number->string round trip, which is outside this kernel: the
// number conversion is stubbed in symbolic mode.)
func H_C01_strToIntNum() {
	s := vC01Str()
	var got int
	var ok bool
	p := vC01Guard(func() { got, ok = strToIntNum(unistring.String(s)) })
	vAssertK("strToIntNum:no-go-panic", !p, refC01DashOnly(s), "F-C01-strToInt-dash")
	r := refC01Canon(s)
	in := refC01InRange(r, 1<<53-1, 1<<53-1)
	vAssert("strToIntNum:ok==canonical-safe-integer", p || ok == in)
	vAssert("strToIntNum:value", p || !ok || int64(got) == refC01Value(r))
	vAssert("strToIntNum:not-ok-is-0-or-minus1", p || ok || got == 0 || got == -1)
}

// symbolic-mode stand-in for String.ToNumber inside strToIntNum (see above)
func vC01StubAsciiToNumber(s asciiString) Value { return valueInt(0) }

// the 19-digit branch of strToInt64 on digit strings only (optional '-'): in-range test and value
func H_C01_strToInt64_long() {
	neg := vNondetBool("neg")
	n := 19
	if neg {
		n = 20
	}
	s := vNondetString("s", n)
	for i := 0; i < n; i++ {
		if i == 0 && neg {
			vAssume(s[0] == '-')
		} else {
			vAssume(s[i] >= '0' && s[i] <= '9')
		}
	}
	var got int64
	var ok bool
	p := vC01Guard(func() { got, ok = strToInt64(unistring.String(s)) })
	vAssert("strToInt64.long:no-go-panic", !p)
	r := refC01Canon(s)
	in := refC01InRange(r, 1<<63, 1<<63-1)
	vAssertK("strToInt64.long:ok==canonical-int64", p || ok == in, refC01Int64Last89(s), "F-C01-strToInt-last-digit")
	vAssert("strToInt64.long:value", p || !ok || got == refC01Value(r))
}
