package goja

import (
	"strconv"
	"strings"

	"github.com/dlclark/regexp2/v2"
)

// C20 / H20.2 — the third-party matcher replaced by an ABSTRACT MATCHER.
//
// An abstract matcher is a table over the positions q = 0..4 of the matcher's input (code units without the
// u flag, code points with it): whether the pattern matches when anchored at q, the length of that match and
// the range of capture group 1 (or "did not participate"). Every regular expression restricted to inputs of
// <= 4 elements induces such a table, and every table is realised by a real pattern (see vC20Rx), so the
// table quantifies over "all patterns" as far as the index plumbing can observe them.
//
// Symbolic mode: (*regexp2.Regexp).FindRunesMatchStartingAt / FindNextMatch and (*regexp2.Match).Groups are
// stubbed (c20.json) by functions that answer from the table following regexp2's documented contract
// (leftmost match at or after the start position; the next search starts at the end of the previous match,
// one further if that match was empty).
// Native replay: the table is compiled into a real regexp2 pattern of look-behind-anchored alternatives
//   (?<=^[\s\S]{q})(?=[\s\S]{a}(?<g1>[\s\S]{l}))[\s\S]{len}
// so that the unmodified regexp2 engine produces exactly the same matches: counterexamples replay natively.

const vC20P = 5 // positions 0..4

type vC20Matcher struct {
	ok  [vC20P]bool
	ln  [vC20P]int
	gok [vC20P]bool
	ga  [vC20P]int // start of group 1 relative to the match start (look-ahead captures may lie beyond the match)
	gl  [vC20P]int
	L   int // length of the input of the current search (stub bookkeeping only)
}

var vC20M *vC20Matcher

func vC20NewMatcher(name string, withGroup bool) *vC20Matcher {
	t := &vC20Matcher{}
	for q := 0; q < vC20P; q++ {
		if q > vBound("N") {
			continue // beyond the longest input: can never match
		}
		sq := name + "[" + string(rune('0'+q)) + "]"
		t.ok[q] = vNondetBool(sq + ".ok")
		t.ln[q] = vNondetInt(sq + ".len")
		vAssume(t.ln[q] >= 0 && t.ln[q] <= 4)
		if withGroup {
			t.gok[q] = vNondetBool(sq + ".gok")
			t.ga[q] = vNondetInt(sq + ".gstart")
			t.gl[q] = vNondetInt(sq + ".glen")
			vAssume(t.ga[q] >= 0 && t.ga[q] <= 4)
			vAssume(t.gl[q] >= 0 && t.gl[q] <= 4)
		}
	}
	vC20M = t
	return t
}

// ---- pure table look-ups (summarised)

func refC20SelI(q int, v0, v1, v2, v3, v4 int) int {
	switch q {
	case 0:
		return v0
	case 1:
		return v1
	case 2:
		return v2
	case 3:
		return v3
	case 4:
		return v4
	}
	return -1
}

func refC20SelB(q int, v0, v1, v2, v3, v4 bool) bool {
	switch q {
	case 0:
		return v0
	case 1:
		return v1
	case 2:
		return v2
	case 3:
		return v3
	case 4:
		return v4
	}
	return false
}

// refC20MatchesAt: the pattern matches anchored at q in an input of L elements
func refC20MatchesAt(ok bool, q, ln int, gok bool, ga, gl, L int) bool {
	if !ok || q+ln > L {
		return false
	}
	if gok && q+ga+gl > L {
		return false
	}
	return true
}

// refC20First: leftmost position >= from at which the pattern matches, -1 if none
func refC20First(from int, m0, m1, m2, m3, m4 bool) int {
	if from <= 0 && m0 {
		return 0
	}
	if from <= 1 && m1 {
		return 1
	}
	if from <= 2 && m2 {
		return 2
	}
	if from <= 3 && m3 {
		return 3
	}
	if from <= 4 && m4 {
		return 4
	}
	return -1
}

func (t *vC20Matcher) first(from, L int) int {
	return vConcretize(1+t.firstSym(from, L)) - 1
}

func (t *vC20Matcher) firstSym(from, L int) int {
	return refC20First(from,
		refC20MatchesAt(t.ok[0], 0, t.ln[0], t.gok[0], t.ga[0], t.gl[0], L),
		refC20MatchesAt(t.ok[1], 1, t.ln[1], t.gok[1], t.ga[1], t.gl[1], L),
		refC20MatchesAt(t.ok[2], 2, t.ln[2], t.gok[2], t.ga[2], t.gl[2], L),
		refC20MatchesAt(t.ok[3], 3, t.ln[3], t.gok[3], t.ga[3], t.gl[3], L),
		refC20MatchesAt(t.ok[4], 4, t.ln[4], t.gok[4], t.ga[4], t.gl[4], L))
}
func (t *vC20Matcher) lenAt(q int) int {
	return refC20SelI(q, t.ln[0], t.ln[1], t.ln[2], t.ln[3], t.ln[4])
}
func (t *vC20Matcher) gokAt(q int) bool {
	return refC20SelB(q, t.gok[0], t.gok[1], t.gok[2], t.gok[3], t.gok[4])
}
func (t *vC20Matcher) gaAt(q int) int {
	return refC20SelI(q, t.ga[0], t.ga[1], t.ga[2], t.ga[3], t.ga[4])
}
func (t *vC20Matcher) glAt(q int) int {
	return refC20SelI(q, t.gl[0], t.gl[1], t.gl[2], t.gl[3], t.gl[4])
}

// ---- symbolic-mode engine stubs

func vC20StubFind(from, L int) (*regexp2.Match, error) {
	t := vC20M
	t.L = L
	q := t.first(from, L)
	if q < 0 {
		return nil, nil
	}
	m := &regexp2.Match{}
	m.Name = "0"
	m.RuneIndex = q
	m.RuneLength = t.lenAt(q)
	m.Captures = []regexp2.Capture{{RuneIndex: m.RuneIndex, RuneLength: m.RuneLength}}
	return m, nil
}

func vStubC20FindRunesMatchStartingAt(re *regexp2.Regexp, r []rune, startAt int) (*regexp2.Match, error) {
	return vC20StubFind(startAt, len(r))
}

func vStubC20FindNextMatch(re *regexp2.Regexp, m *regexp2.Match) (*regexp2.Match, error) {
	if m == nil {
		return nil, nil
	}
	from := m.RuneIndex + m.RuneLength
	if m.RuneLength == 0 {
		from++
	}
	return vC20StubFind(from, vC20M.L)
}

func vStubC20Groups(m *regexp2.Match) []regexp2.Group {
	t := vC20M
	g := make([]regexp2.Group, 2)
	g[0] = m.Group
	g[1].Name = "g1"
	q := m.RuneIndex
	gok := t.gokAt(q)
	a := q + t.gaAt(q)
	l := t.glAt(q)
	if gok {
		g[1].RuneIndex, g[1].RuneLength = a, l
		g[1].Captures = []regexp2.Capture{{RuneIndex: a, RuneLength: l}}
	}
	return g
}

// ---- native realisation of the table by a real pattern

func vC20Rx() *regexp2.Regexp {
	if vSymbolic() {
		return nil // every method reached on it is stubbed
	}
	t := vC20M
	var alts []string
	for q := 0; q < vC20P; q++ {
		if !t.ok[q] {
			continue
		}
		a := `(?<=^[\s\S]{` + strconv.Itoa(q) + `})`
		if t.gok[q] {
			a += `(?=[\s\S]{` + strconv.Itoa(t.ga[q]) + `}(?<g1>[\s\S]{` + strconv.Itoa(t.gl[q]) + `}))`
		}
		a += `[\s\S]{` + strconv.Itoa(t.ln[q]) + `}`
		alts = append(alts, a)
	}
	alts = append(alts, `(?!)(?<g1>)`) // never matches; keeps the group count at 2
	return regexp2.MustCompile(strings.Join(alts, "|"), regexp2.None)
}

// ---- reference geometry of the subject: code-point boundaries per ECMA-262 CodePointAt

// refC20Boundary: unit index i (0<i<n) starts a code point iff it is not the trail of a pair
func refC20Boundary(full bool, prev, cur uint16) bool {
	if !full {
		return true
	}
	return !(prev >= 0xD800 && prev <= 0xDBFF && cur >= 0xDC00 && cur <= 0xDFFF)
}

func refC20B2I(b bool) int {
	if b {
		return 1
	}
	return 0
}

// refC20Off: UTF-16 offset of element k (k-th boundary; boundaries: 0, interior flags b1..b3, n). -1 if none.
func refC20Off(k, n int, b1, b2, b3 bool) int {
	if k < 0 {
		return -1
	}
	c := 0
	if k == 0 {
		return 0
	}
	if n > 1 && b1 {
		c++
		if c == k {
			return 1
		}
	}
	if n > 2 && b2 {
		c++
		if c == k {
			return 2
		}
	}
	if n > 3 && b3 {
		c++
		if c == k {
			return 3
		}
	}
	if n > 0 {
		c++
		if c == k {
			return n
		}
	}
	return -1
}

// refC20Idx: index of the element containing unit `pos` (number of boundaries <= pos, minus one)
func refC20Idx(pos, n int, b1, b2, b3 bool) int {
	c := 0
	if n > 1 && b1 && pos >= 1 {
		c++
	}
	if n > 2 && b2 && pos >= 2 {
		c++
	}
	if n > 3 && b3 && pos >= 3 {
		c++
	}
	if n > 0 && pos >= n {
		c++
	}
	return c
}

type vC20Geo struct {
	n          int
	b1, b2, b3 bool
	L          int // number of matcher input elements
}

func vC20Geometry(u []uint16, full bool) *vC20Geo {
	g := &vC20Geo{n: len(u), b1: true, b2: true, b3: true}
	if len(u) > 1 {
		g.b1 = refC20Boundary(full, u[0], u[1])
	}
	if len(u) > 2 {
		g.b2 = refC20Boundary(full, u[1], u[2])
	}
	if len(u) > 3 {
		g.b3 = refC20Boundary(full, u[2], u[3])
	}
	g.b1 = vConcretize(refC20B2I(g.b1)) == 1
	g.b2 = vConcretize(refC20B2I(g.b2)) == 1
	g.b3 = vConcretize(refC20B2I(g.b3)) == 1
	g.L = refC20Idx(g.n, g.n, g.b1, g.b2, g.b3)
	return g
}

func (g *vC20Geo) off(k int) int   { return refC20Off(k, g.n, g.b1, g.b2, g.b3) }
func (g *vC20Geo) idx(pos int) int { return refC20Idx(pos, g.n, g.b1, g.b2, g.b3) }

// ---- expected result of one match at element q

func refC20Eq4(a0, a1, a2, a3, b0, b1, b2, b3 int) bool {
	return a0 == b0 && a1 == b1 && a2 == b2 && a3 == b3
}

// vC20CheckResult: `res` is the match anchored at q: [off(q), off(q+len), group 1 range or -1]
func vC20CheckResult(tag string, res regexpResult, q int, geo *vC20Geo) {
	t := vC20M
	vAssert(tag+":two-groups", len(res.indexes) == 4)
	if len(res.indexes) != 4 {
		return
	}
	e := q + t.lenAt(q)
	gs := q + t.gaAt(q)
	ge := gs + t.glAt(q)
	vAssert(tag+":index==utf16-offset(match start)", res.indexes[0] == geo.off(q))
	vAssert(tag+":end==utf16-offset(match end)", res.indexes[1] == geo.off(e))
	gok := t.gokAt(q)
	wantS, wantE := geo.off(gs), geo.off(ge)
	gotS, gotE := res.indexes[2], res.indexes[3]
	if gok {
		vAssert(tag+":capture-start==utf16-offset", gotS == wantS)
		vAssert(tag+":capture-end==utf16-offset", gotE == wantE)
	} else {
		vAssert(tag+":unmatched-capture-is-negative", gotS == -1)
	}
}

// vC20CheckCache: regexp2Wrapper.cache is either absent or describes exactly the subject
func vC20CheckCache(tag string, w *regexp2Wrapper, s String, u []uint16, full bool, wantCached bool) {
	if !wantCached {
		vAssert(tag+":no-cache-when-not-requested-or-no-match", w.cache == nil)
		return
	}
	vAssert(tag+":cached", w.cache != nil)
	if w.cache == nil {
		return
	}
	c := w.cache
	if full {
		vAssert(tag+":cache-has-posMap", c.posMap != nil)
		if c.posMap != nil {
			vC20CheckPosMap(tag+":cache", u, c.posMap, c.runes)
		}
	} else {
		vAssert(tag+":cache-has-no-posMap", c.posMap == nil)
		ok := len(c.runes) == len(u)
		if ok {
			for i := range u {
				if c.runes[i] != rune(u[i]) {
					ok = false
				}
			}
		}
		vAssert(tag+":cache-runes==units", ok)
	}
}

// H20.2a exec-style single search: indices are exact UTF-16 offsets of the leftmost match at/after lastIndex
func H_C20_r2_find() {
	s, u := vC20Subject("s")
	n := len(u)
	full := vNondetBool("fullUnicode")
	t := vC20NewMatcher("m", true)
	w := &regexp2Wrapper{rx: vC20Rx()}
	geo := vC20Geometry(u, full)
	start := vNondetInt("start")
	vAssume(start >= 0 && start <= n)
	start = vConcretize(start)
	doCache := vNondetBool("doCache")
	res := w.findSubmatchIndex(s, start, full, doCache)
	q := t.first(geo.idx(start), geo.L)
	if q < 0 {
		vAssert("find:no-match-reported", len(res.indexes) == 0)
		vC20CheckCache("find", w, s, u, full, false)
	} else {
		vReach("find:match-reached")
		vC20CheckResult("find", res, q, geo)
		vC20CheckCache("find", w, s, u, full, doCache)
	}
}

// H20.2b the match cache of a g/y pattern over successive searches on the same subject (cache hit; lastIndex
// splitting a surrogate pair): after every search the cache is absent or describes exactly the subject, and
// the result of a search served from the cache is the same as that of a fresh wrapper
func H_C20_r2_cache() {
	s, u := vC20Subject("s")
	n := len(u)
	full := vNondetBool("fullUnicode")
	t := vC20NewMatcher("m", false)
	w := &regexp2Wrapper{rx: vC20Rx()}
	geo := vC20Geometry(u, full)
	calls := vBound("CALLS")
	for call := 0; call < calls; call++ {
		tag := "call" + string(rune('1'+call))
		start := vNondetInt(tag + ".start")
		vAssume(start >= 0 && start <= n)
		start = vConcretize(start)
		res := w.findSubmatchIndex(s, start, full, true)
		q := t.first(geo.idx(start), geo.L)
		if q < 0 {
			vAssert(tag+":no-match-reported", len(res.indexes) == 0)
			vC20CheckCache(tag, w, s, u, full, false)
			return
		}
		vC20CheckResult(tag, res, q, geo)
		vC20CheckCache(tag, w, s, u, full, true)
		if call > 0 {
			vReach("cache-hit-reached")
		}
	}
}

// vC20RefMatchList: the matches RegExp.prototype[@@match]/[@@replace] obtain by iterating RegExpBuiltinExec from
// lastIndex = start over the abstract matcher (ECMA-262 22.2.6.8 / 22.2.6.11 with 22.2.7.2): leftmost match at
// or after lastIndex (exactly at lastIndex when sticky), then lastIndex = end of match, advanced by one element
// (AdvanceStringIndex) after an empty match; at most `limit` matches when limit >= 0.
// Returns the anchor positions; emptyNotLast reports an empty match followed by a further match.
func vC20RefMatchList(t *vC20Matcher, geo *vC20Geo, start, limit int, sticky bool) (exp []int, emptyNotLast bool) {
	cur := geo.idx(start)
	split := geo.off(cur) != start
	prevEmpty := false
	for i := 0; i <= geo.L+1; i++ {
		if limit >= 0 && len(exp) >= limit {
			break
		}
		q := t.first(cur, geo.L)
		if q < 0 {
			break
		}
		if sticky {
			if q != cur {
				break
			}
			if i == 0 && split {
				break
			}
		}
		if prevEmpty {
			emptyNotLast = true
		}
		exp = append(exp, q)
		ln := vConcretize(t.lenAt(q))
		cur = q + ln
		prevEmpty = ln == 0
		if prevEmpty {
			cur++
		}
	}
	return
}

// H20.2c match-list search (fast paths of match/replace/split): UTF-16 and Unicode paths against the
// specification's iteration of RegExpBuiltinExec
func H_C20_r2_findAll() {
	s, u := vC20Subject("s")
	n := len(u)
	full := vNondetBool("fullUnicode")
	t := vC20NewMatcher("m", vBound("G") > 0)
	w := &regexp2Wrapper{rx: vC20Rx()}
	geo := vC20Geometry(u, full)
	start := vNondetInt("start")
	vAssume(start >= 0 && start <= n)
	start = vConcretize(start)
	limit := vNondetInt("limit")
	vAssume(limit == -1 || limit == 1 || (limit == 2 && vBound("LIM2") > 0))
	limit = vConcretize(limit)
	sticky := vNondetBool("sticky")
	results := w.findAllSubmatchIndex(s, start, limit, sticky, full)
	exp, emptyNotLast := vC20RefMatchList(t, geo, start, limit, sticky)
	expAll := exp
	if limit >= 0 {
		expAll, _ = vC20RefMatchList(t, geo, start, -1, sticky)
	}
	countOK := len(results) == len(exp)
	if sticky && emptyNotLast {
		vAssertK("findAll:count==spec-iteration", countOK, true, "F-C20-sticky-global-empty-match")
	} else if full && limit >= 0 && len(expAll) > limit {
		vAssertK("findAll:count==spec-iteration", countOK, true, "F-C20-unicode-limit-ignored")
	} else {
		vAssert("findAll:count==spec-iteration", countOK)
	}
	for i := 0; i < len(results) && i < len(expAll); i++ {
		vReach("findAll:match-reached")
		vC20CheckResult("findAll", results[i], expAll[i], geo)
	}
	vAssert("findAll:cache-untouched", w.cache == nil)
}
