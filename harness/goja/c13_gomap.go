package goja

import "github.com/dop251/goja/unistring"

// ---------------------------------------------------------------------
// C13 / H13.2 — objectGoMapSimple (wrapper of a Go map[string]interface{}) is a live view: after every
// script-side set/delete and every Go-side write/delete the Go map equals the reference map model, and
// script reads (own property lookup, has) see exactly the Go map.

var vC13Keys = [...]string{"a", "b", "c"}

func H_C13_gomap() {
	r := vRuntime()
	data := map[string]interface{}{}
	model := map[string]interface{}{}
	init := vNondetInt("init") // which of the keys are present initially
	vAssume(init >= 0 && init < 4)
	init = vConcretize(init)
	if init&1 != 0 {
		data["a"], model["a"] = int64(100), int64(100)
	}
	if init&2 != 0 {
		data["b"], model["b"] = nil, nil // a present key holding nil
	}
	var o *objectGoMapSimple
	if vSymbolic() {
		obj := &Object{runtime: r}
		o = &objectGoMapSimple{baseObject: baseObject{val: obj}, data: data}
		o.class = classObject
		o.extensible = true
		obj.self = o
	} else {
		o = r.ToValue(data).(*Object).self.(*objectGoMapSimple)
	}
	k := vBound("K")
	for s := 0; s < k; s++ {
		op := vNondetInt("op")
		vAssume(op >= 0 && op < 4)
		op = vConcretize(op)
		ki := vNondetInt("key")
		vAssume(ki >= 0 && ki < len(vC13Keys))
		ki = vConcretize(ki)
		key := vC13Keys[ki]
		x := int64(7 + s)
		var p bool
		switch op {
		case 0: // m[key] = x from script
			var res bool
			p = vC01Guard(func() { res = o.setOwnStr(unistring.String(key), valueInt(x), true) })
			model[key] = x
			vAssert("gomap:set-ok", p || res)
		case 1: // delete m[key] from script
			var res bool
			p = vC01Guard(func() { res = o.deleteStr(unistring.String(key), true) })
			delete(model, key)
			vAssert("gomap:delete-ok", p || res)
		case 2: // Go side write
			data[key] = x
			model[key] = x
		case 3: // Go side delete
			delete(data, key)
			delete(model, key)
		}
		vAssert("gomap:no-go-panic", !p)
		same := len(data) == len(model)
		reads := true
		for _, kk := range vC13Keys {
			mv, mok := model[kk]
			dv, dok := data[kk]
			if mok != dok || !vC13Same(mv, dv) {
				same = false
			}
			var got Value
			var has bool
			pp := vC01Guard(func() {
				got = o.getOwnPropStr(unistring.String(kk))
				has = o.hasOwnPropertyStr(unistring.String(kk))
			})
			if pp || has != mok {
				reads = false
			}
			if !mok {
				if got != nil {
					reads = false
				}
			} else if mv == nil {
				if got != _null {
					reads = false
				}
			} else {
				gi, ok := got.(valueInt)
				if !ok || int64(gi) != mv.(int64) {
					reads = false
				}
			}
		}
		vAssert("gomap:go-map==model", same)
		vAssert("gomap:script-reads==go-map", reads)
	}
}
