package goja

import "math"

// ---------------------------------------------------------------------
// C17 / H17.3: DataView accessors. World: one ArrayBuffer of exactly L bytes with symbolic contents
// and one DataView with SYMBOLIC byteOffset/byteLen under the constructor's invariant
// byteOffset+byteLen <= L. The request index is a value whose ToInteger is any int64 and whose
// coercion may detach the buffer; for setters the value coercion may detach it too; the buffer may
// also be detached before the call.

type vDVWorld struct {
	r      *Runtime
	buf    *arrayBufferObject
	dv     *dataViewObject
	n      int
	orig   []byte
	before []byte
	which  int // -2: detached before the call, -1: never, k: by the coercion of argument k
}

func vC17NewDV(name string, nargs int) *vDVWorld {
	w := &vDVWorld{r: vRuntime()}
	w.n = vBound("L")
	w.orig = vNondetBytes(name+".data", w.n)
	w.before = append([]byte{}, w.orig...)
	w.buf = w.r._newArrayBuffer(nil, nil)
	w.buf.data = w.orig
	off := vNondetInt(name + ".byteOffset")
	bl := vNondetInt(name + ".byteLen")
	vAssume(off >= 0 && off <= w.n)
	vAssume(bl >= 0 && bl <= w.n)
	vAssume(off+bl <= w.n)
	// the object exactly as newDataView builds it
	o := &Object{runtime: w.r}
	b := &dataViewObject{
		baseObject:     baseObject{class: classObject, val: o, extensible: true},
		viewedArrayBuf: w.buf,
		byteOffset:     off,
		byteLen:        bl,
	}
	o.self = b
	b.init()
	w.dv = b
	w.which = vNondetInt(name + ".detachAt")
	vAssume(w.which >= -2 && w.which < nargs)
	if w.which == -2 {
		w.buf.detach()
	}
	return w
}

func (w *vDVWorld) effect(k int) func() {
	return func() {
		if w.which == k {
			w.buf.detach()
		}
	}
}

// a Number argument with an arbitrary double as its ToFloat result (only ToFloat is used on it)
type vC17FloatArg struct {
	vC17Arg
	f float64
}

func (v *vC17FloatArg) ToFloat() float64 { v.fire(); return v.f }
func (v *vC17FloatArg) ToNumber() Value  { v.fire(); return valueFloat(v.f) }

const (
	vdvInt8 = iota
	vdvUint8
	vdvInt16
	vdvUint16
	vdvInt32
	vdvUint32
	vdvFloat32
	vdvFloat64
	vdvNum
)

func vDVSize(op int) int {
	switch op {
	case vdvInt8, vdvUint8:
		return 1
	case vdvInt16, vdvUint16:
		return 2
	case vdvInt32, vdvUint32, vdvFloat32:
		return 4
	}
	return 8
}

// refBswap: reverse the low `size` bytes of raw
func refBswap(raw uint64, size int) uint64 {
	var r uint64
	for k := 0; k < size; k++ {
		r |= ((raw >> (8 * uint(k))) & 0xff) << (8 * uint(size-1-k))
	}
	return r
}

// refDVOutcome: 0 = returns, 1 = RangeError, 2 = TypeError (ECMA-262 25.3.1.5 GetViewValue /
// 25.3.1.6 SetViewValue: ToIndex first (RangeError), coercions, then detached -> TypeError, then
// getIndex + elementSize > viewSize -> RangeError)
func refDVOutcome(i int64, detached bool, size int, byteLen int) int {
	if i < 0 || i > (1<<53)-1 {
		return 1
	}
	if detached {
		return 2
	}
	if i+int64(size) > int64(byteLen) {
		return 1
	}
	return 0
}

func vC17OutcomeCode(out vOutcome) int {
	if !out.panicked {
		return 0
	}
	if out.kind == "RangeError" {
		return 1
	}
	if out.kind == "TypeError" {
		return 2
	}
	return 3
}

// refDVSigned: the Number denoted by `size` raw little-endian-composed bytes for integer accessors
func refDVInt(op int, raw uint64) int64 {
	switch op {
	case vdvInt8:
		return int64(int8(raw))
	case vdvUint8:
		return int64(uint8(raw))
	case vdvInt16:
		return int64(int16(raw))
	case vdvUint16:
		return int64(uint16(raw))
	case vdvInt32:
		return int64(int32(raw))
	}
	return int64(uint32(raw))
}

func vC17DVOp() int {
	op := vNondetInt("op")
	vAssume(op >= 0 && op < vdvNum)
	return vConcretize(op)
}

// H17.3 getters (integer kinds through the builtins; Float32/Float64 through the same kernel pair the
// builtins use, getIdxAndByteOrder + arrayBufferObject.getFloat*, the Number boxing being C05's)
func H_C17_dvGet() {
	op := vC17DVOp()
	size := vDVSize(op)
	w := vC17NewDV("w", 1)
	idx := vC17IntArg("idx", w.effect(0))
	little := vNondetBool("littleEndian")
	var leArg Value = valueBool(little)
	call := FunctionCall{This: w.dv.val, Arguments: []Value{idx, leArg}}
	var res Value
	var f32 float32
	var f64 float64
	out := vCatch(func() {
		switch op {
		case vdvInt8:
			res = w.r.dataViewProto_getInt8(call)
		case vdvUint8:
			res = w.r.dataViewProto_getUint8(call)
		case vdvInt16:
			res = w.r.dataViewProto_getInt16(call)
		case vdvUint16:
			res = w.r.dataViewProto_getUint16(call)
		case vdvInt32:
			res = w.r.dataViewProto_getInt32(call)
		case vdvUint32:
			res = w.r.dataViewProto_getUint32(call)
		case vdvFloat32:
			f32 = w.dv.viewedArrayBuf.getFloat32(w.dv.getIdxAndByteOrder(w.r.toIndex(call.Argument(0)), call.Argument(1), 4))
		default:
			f64 = w.dv.viewedArrayBuf.getFloat64(w.dv.getIdxAndByteOrder(w.r.toIndex(call.Argument(0)), call.Argument(1), 8))
		}
	})
	detached := w.buf.detached
	want := refDVOutcome(idx.i, detached, size, w.dv.byteLen)
	vAssert("dvGet:outcome==spec", vC17OutcomeCode(out) == want)
	vAssert("dvGet:index-coerced-once", *idx.fired == 1)
	if !out.panicked {
		pos := w.dv.byteOffset + int(idx.i)
		raw := vRawAt(w.before, pos, size)
		rawBE := refBswap(raw, size)
		if !little {
			raw = rawBE
		}
		switch op {
		case vdvFloat32:
			// bit-exact (stronger than Number equality: also the NaN payload is the stored one)
			vAssert("dvGet:float32==RawBytesToNumeric", math.Float32bits(f32) == uint32(raw))
		case vdvFloat64:
			vAssert("dvGet:float64==RawBytesToNumeric", math.Float64bits(f64) == raw)
		default:
			vAssert("dvGet:int-result-defined", res != nil)
			vAssert("dvGet:int==RawBytesToNumeric", res.ToInteger() == refDVInt(op, raw))
		}
	}
	// a getter never writes
	same := true
	for p := 0; p < w.n; p++ {
		if w.orig[p] != w.before[p] {
			same = false
		}
	}
	vAssert("dvGet:buffer-unchanged", same)
}

// refDVExpectByte: byte k (relative to the access position) after SetViewValue
func refDVExpectByte(old byte, written bool, k int, size int, little bool, raw uint64) byte {
	if !written || k < 0 || k >= size {
		return old
	}
	sh := uint(k)
	if !little {
		sh = uint(size - 1 - k)
	}
	return byte(raw >> (8 * sh))
}

// H17.3 setters
func H_C17_dvSet() {
	op := vC17DVOp()
	size := vDVSize(op)
	w := vC17NewDV("w", 2)
	idx := vC17IntArg("idx", w.effect(0))
	little := vNondetBool("littleEndian")
	var leArg Value = valueBool(little)
	var val Value
	var raw uint64
	switch op {
	case vdvFloat32:
		fa := &vC17FloatArg{vC17Arg: *vC17IntArg("val", w.effect(1)), f: vNondetFloat64("val.f")}
		vAssume(fa.f == fa.f) // NaN encoding is implementation-defined (H17.1.putIdx covers NaN stores)
		val = fa
		raw = uint64(math.Float32bits(float32(fa.f)))
	case vdvFloat64:
		fa := &vC17FloatArg{vC17Arg: *vC17IntArg("val", w.effect(1)), f: vNondetFloat64("val.f")}
		vAssume(fa.f == fa.f)
		val = fa
		raw = math.Float64bits(fa.f)
	default:
		ia := vC17NumArg("val", w.effect(1))
		val = ia
		raw = uint64(ia.i) // modulo 2^(8*size): only the low `size` bytes are used below
	}
	call := FunctionCall{This: w.dv.val, Arguments: []Value{idx, val, leArg}}
	out := vCatch(func() {
		switch op {
		case vdvInt8:
			w.r.dataViewProto_setInt8(call)
		case vdvUint8:
			w.r.dataViewProto_setUint8(call)
		case vdvInt16:
			w.r.dataViewProto_setInt16(call)
		case vdvUint16:
			w.r.dataViewProto_setUint16(call)
		case vdvInt32:
			w.r.dataViewProto_setInt32(call)
		case vdvUint32:
			w.r.dataViewProto_setUint32(call)
		case vdvFloat32:
			w.r.dataViewProto_setFloat32(call)
		default:
			w.r.dataViewProto_setFloat64(call)
		}
	})
	detached := w.buf.detached
	want := refDVOutcome(idx.i, detached, size, w.dv.byteLen)
	vAssert("dvSet:outcome==spec", vC17OutcomeCode(out) == want)
	written := !out.panicked
	pos := w.dv.byteOffset + int(idx.i)
	ok := true
	for p := 0; p < w.n; p++ {
		expect := refDVExpectByte(w.before[p], written, p-pos, size, little, raw)
		if w.orig[p] != expect {
			ok = false
		}
	}
	// also: nothing is written into the slab after a detach or on a throwing call
	vAssert("dvSet:bytes==NumericToRawBytes", ok)
}

// symbolic-mode replacement of intToValue (vm.go): contract "the Number i"; exact for |i| <= 2^53, which
// every 8/16/32-bit element satisfies. Avoids the 256-way intCache lookup on a symbolic value
// (Number boxing is C05's subject).
func vC17StubIntToValue(i int64) Value { return valueInt(i) }
