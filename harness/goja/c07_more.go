package goja

// ---------------------------------------------------------------------
// H07.7: Array.prototype.includes compares with SameValueZero (ECMA-262 23.1.3.16 step 10.b): NaN is
// found, and +0 and -0 are the same element, whichever side carries the sign. Real code:
// arrayproto_includes (both the standard-array fast path and the generic getIdx path, the latter forced by a trailing hole), checkStdArrayObjLen, valueFloat.SameAs, valueInt.SameAs.
// Elements and the search value are arbitrary canonical Numbers (int-represented or float-represented,
// including NaN, -0, infinities); the reference works on the bit patterns.

func refSameValueZeroBits(a, b uint64) bool {
	aNaN := a&^(1<<63) > 0x7ff0000000000000
	bNaN := b&^(1<<63) > 0x7ff0000000000000
	if aNaN || bNaN {
		return aNaN && bNaN
	}
	if a&^(1<<63) == 0 && b&^(1<<63) == 0 {
		return true
	}
	return a == b
}

func vC07IncludesSVZ(generic bool) {
	r := vRuntime()
	proto := vC07Protos(r)
	a := r.newArray(proto)
	n := vNondetInt("len")
	vAssume(n >= 1 && n <= vBound("N"))
	n = vConcretize(n)
	a.values = make([]Value, n)
	bits := make([]uint64, n)
	for i := 0; i < n; i++ {
		v := vNumber("elem")
		a.values[i] = v
		bits[i] = vNumberBits(v)
	}
	a.length = uint32(n)
	a.objCount = n
	if generic {
		// a trailing hole (length n+1, n elements) makes checkStdArrayObj decline: the generic getIdx loop runs;
		// the hole reads as undefined, which is no Number
		a.values = append(a.values, nil)
		a.length = uint32(n + 1)
	}
	search := vNumber("search")
	sb := vNumberBits(search)
	from := vNondetInt("from")
	vAssume(from >= 0 && from <= n)
	from = vConcretize(from)
	var res Value
	out, goPanic := vC07CatchAll(func() {
		res = r.arrayproto_includes(FunctionCall{This: a.val, Arguments: []Value{search, valueInt(int64(from))}})
	})
	vAssert("no-host-panic", !goPanic)
	vAssert("no-throw", !out.panicked)
	if out.panicked {
		return
	}
	want := false
	for i := from; i < n; i++ {
		if refSameValueZeroBits(bits[i], sb) {
			want = true
		}
	}
	vAssert("includes==SameValueZero-reference", res == valueBool(want))
}

func H_C07_std_includes_sameValueZero_fast()    { vC07IncludesSVZ(false) }
func H_C07_std_includes_sameValueZero_generic() { vC07IncludesSVZ(true) }
