package goja

// H05.1 — every Number producer of the VM returns a Number in canonical form for all canonical operands.

func vBin(ins instruction) Value {
	l, r := vNumber("l"), vNumber("r")
	m := &vm{stack: make(valueStack, 4)}
	m.stack[0], m.stack[1] = l, r
	m.sp = 2
	ins.exec(m)
	vAssert("sp", m.sp == 1)
	return m.stack[0]
}

func vUn(ins instruction) Value {
	x := vNumber("x")
	m := &vm{stack: make(valueStack, 4)}
	m.stack[0] = x
	m.sp = 1
	ins.exec(m)
	vAssert("sp", m.sp == 1)
	return m.stack[0]
}

func H_C05_canon_add()  { vAssert("canonical", refCanonicalNumber(vBin(add))) }
func H_C05_canon_sub()  { vAssert("canonical", refCanonicalNumber(vBin(sub))) }
func H_C05_canon_mul()  { vAssert("canonical", refCanonicalNumber(vBin(mul))) }
func H_C05_canon_div()  { vAssert("canonical", refCanonicalNumber(vBin(div))) }
func H_C05_canon_mod()  { vAssert("canonical", refCanonicalNumber(vBin(mod))) }
func H_C05_canon_and()  { vAssert("canonical", refCanonicalNumber(vBin(and))) }
func H_C05_canon_or()   { vAssert("canonical", refCanonicalNumber(vBin(or))) }
func H_C05_canon_xor()  { vAssert("canonical", refCanonicalNumber(vBin(xor))) }
func H_C05_canon_sal()  { vAssert("canonical", refCanonicalNumber(vBin(sal))) }
func H_C05_canon_sar()  { vAssert("canonical", refCanonicalNumber(vBin(sar))) }
func H_C05_canon_shr()  { vAssert("canonical", refCanonicalNumber(vBin(shr))) }
func H_C05_canon_neg()  { vAssert("canonical", refCanonicalNumber(vUn(neg))) }
func H_C05_canon_inc()  { vAssert("canonical", refCanonicalNumber(vUn(inc))) }
func H_C05_canon_dec()  { vAssert("canonical", refCanonicalNumber(vUn(dec))) }
func H_C05_canon_plus() { vAssert("canonical", refCanonicalNumber(vUn(plus))) }
func H_C05_canon_bnot() { vAssert("canonical", refCanonicalNumber(vUn(bnot))) }

// producers taking raw machine numbers
func H_C05_canon_intToValue() {
	i := vNondetInt64("i")
	v := intToValue(i)
	vAssert("canonical", refCanonicalNumber(v))
	vAssert("value", v.ToFloat() == float64(i))
}

func H_C05_canon_floatToValue() {
	f := vNondetFloat64("f")
	v := floatToValue(f)
	vAssert("canonical", refCanonicalNumber(v))
	vAssert("value", vSameDouble(v.ToFloat(), f))
}

func H_C05_canon_toNumeric() {
	f := vNondetFloat64("f")
	v := toNumeric(valueFloat(f)) // non-canonical floats are normalised here
	vAssert("canonical", refCanonicalNumber(v))
	vAssert("value", vSameDouble(v.ToFloat(), f))
}

// vSameDouble: identical as ECMAScript Number values (NaN == NaN, +0 != -0)
func vSameDouble(a, b float64) bool {
	if a != a && b != b {
		return true
	}
	return vFloat64bits(a) == vFloat64bits(b)
}

// math.Mod is a transcendental-class library routine: any result is allowed
func vStubMod(x, y float64) float64 { return vNondetFloat64("math.Mod") }
