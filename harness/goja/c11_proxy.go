package goja

import "github.com/dop251/goja/unistring"

// ---------------------------------------------------------------------
// C11 — Proxy invariant enforcement (ECMA-262 10.5.x) on the hand-written check routines of proxy.go.
// Uses the descriptor / current-property world of c04_define.go.

func vC11Proxy(r *Runtime, target *Object, h proxyHandler) *proxyObject {
	p := &proxyObject{}
	p.val = &Object{runtime: r, self: p}
	p.class = classObject
	p.baseObject.init()
	p.target = target
	p.handler = h
	return p
}

// ---- H11.1: __isCompatibleDescriptor == IsCompatiblePropertyDescriptor (10.1.6.2) ----

// F-C11-compatible-accessor-inverted: on a non-configurable accessor the SameValue tests on Get/Set are inverted
func refC11KnownInverted(curKind int, curC bool, curG, curS, dG, dS int) bool {
	if curKind != 2 || curC {
		return false
	}
	gInteresting := dG >= 0 && !(dG == 0 && curG == 0)
	sInteresting := dS >= 0 && !(dS == 0 && curS == 0)
	return gInteresting || sInteresting
}

// F-C11-compatible-kind-lenient: on a non-configurable property a descriptor of the other kind is accepted
// unless it says configurable:false
func refC11KnownKind(curKind int, curC bool, dW int, dHasV bool, dG, dS int, dC int) bool {
	if curKind == 0 || curC {
		return false
	}
	descAccessor := dG >= 0 || dS >= 0
	descData := dHasV || dW != refFlagNotSet
	if !descAccessor && !descData {
		return false
	}
	return descAccessor != (curKind == 2) && dC == refFlagNotSet
}

func hC11Compatible(family int) {
	w := vC04NewWorld()
	ext := vNondetBool("extensible")
	cur := w.current("cur", true, 1, family == 0)
	d := w.descriptor("desc", family, cur)
	p := vC11Proxy(w.r, nil, nil)

	sameV := false
	if d.hasV && cur.kind == 1 {
		sameV = vC04SameValue(d.d.Value, cur.value)
	}
	ref := specC04Validate(ext, cur.kind, cur.w, cur.e, cur.c, cur.g, cur.s, d.dW, d.dE, d.dC, d.hasV, sameV, d.dG, d.dS)
	kInv := refC11KnownInverted(cur.kind, cur.c, cur.g, cur.s, d.dG, d.dS)
	kKind := refC11KnownKind(cur.kind, cur.c, d.dW, d.hasV, d.dG, d.dS, d.dC)

	got := p.__isCompatibleDescriptor(ext, &d.d, propToValueProp(cur.repr))
	inKnown := refOr(kInv, kKind)
	// one assertion, two known classes (the engine attributes a failure to the finding given)
	vAssertK("compatible==IsCompatiblePropertyDescriptor/accessor-functions", refOr(got == ref.ok, !kInv), kInv, "F-C11-compatible-accessor-inverted")
	vAssertK("compatible==IsCompatiblePropertyDescriptor/kind", refOr(got == ref.ok, !kKind), kKind, "F-C11-compatible-kind-lenient")
	vAssert("compatible==IsCompatiblePropertyDescriptor", refOr(got == ref.ok, inKnown))
}

func H_C11_compatible_data()     { hC11Compatible(0) }
func H_C11_compatible_accessor() { hC11Compatible(1) }

// ---- value universe for [[Get]] / [[Set]] checks: undefined, any canonical Number, two objects ----

type vC11Val struct {
	v    Value
	kind int // 0 undefined, 1 number, 2 f1, 3 f2
}

func (w *vC04World) anyValue(name string) vC11Val {
	k := vC04Choice(name+".kind", 0, 3)
	switch k {
	case 0:
		return vC11Val{_undefined, 0}
	case 1:
		return vC11Val{vNumber(name), 1}
	case 2:
		return vC11Val{w.f1, 2}
	}
	return vC11Val{w.f2, 3}
}

// SameValue (7.2.10) on this universe
func vC11SameValue(a, b vC11Val) bool {
	if a.kind != b.kind {
		return false
	}
	if a.kind == 1 {
		return refSameNumberBits(vNumberBits(a.v), vNumberBits(b.v))
	}
	return true
}

// Number::sameValue on IEEE bit patterns: all NaNs are one value, +0 and -0 differ
func refSameNumberBits(a, b uint64) bool {
	aNaN := a&0x7ff0000000000000 == 0x7ff0000000000000 && a&0x000fffffffffffff != 0
	bNaN := b&0x7ff0000000000000 == 0x7ff0000000000000 && b&0x000fffffffffffff != 0
	if aNaN || bNaN {
		return aNaN && bNaN
	}
	return a == b
}

// target property for get/set/delete/has checks
type vC11TProp struct {
	kind    int // 0 absent, 1 data, 2 accessor
	w, c    bool
	val     vC11Val
	g, s    int
	repr    Value
}

func (w *vC04World) targetProp(name string, allowAbsent bool, anyVal bool) *vC11TProp {
	t := &vC11TProp{}
	lo := 1
	if allowAbsent {
		lo = 0
	}
	shape := vC04Choice(name+".shape", lo, 3)
	switch shape {
	case 0:
	case 1: // plain value: writable, enumerable, configurable
		t.kind, t.w, t.c = 1, true, true
		t.val = vC11Val{valueInt(7), 1}
		if anyVal {
			t.val = w.anyValue(name + ".value")
		}
		t.repr = t.val.v
	case 2:
		t.kind = 1
		t.w = vNondetBool(name + ".writable")
		t.c = vNondetBool(name + ".configurable")
		t.val = vC11Val{valueInt(7), 1}
		if anyVal {
			t.val = w.anyValue(name + ".value")
		}
		t.repr = &valueProperty{value: t.val.v, writable: t.w, configurable: t.c, enumerable: vNondetBool(name + ".enumerable")}
	default:
		t.kind = 2
		t.c = vNondetBool(name + ".configurable")
		t.g = vC04Choice(name+".getter", 0, 1)
		t.s = vC04Choice(name+".setter", 0, 1)
		t.repr = &valueProperty{accessor: true, configurable: t.c, enumerable: vNondetBool(name + ".enumerable"),
			writable: vNondetBool(name + ".staleWritable"), getterFunc: w.fnOf(t.g), setterFunc: w.fnOf(t.s)}
	}
	return t
}

// H11.2 get: 10.5.8 steps 9-10
func H_C11_getChecks() {
	w := vC04NewWorld()
	t := w.targetProp("target", true, true)
	res := w.anyValue("trapResult")
	p := vC11Proxy(w.r, nil, nil)
	out := vCatch(func() { p.proxyGetChecks(t.repr, res.v, unistring.String("p")) })
	same := vC11SameValue(res, t.val)
	violated := false
	if t.kind == 1 {
		violated = refAnd(refAnd(!t.c, !t.w), !same)
	}
	if t.kind == 2 {
		violated = refAnd(refAnd(!t.c, t.g == 0), res.kind != 0)
	}
	vAssert("get:TypeError<=>invariant-violated", out.panicked == violated)
	vAssert("get:only-TypeError", refImp(out.panicked, out.kind == "TypeError"))
}

// H11.2 set: 10.5.9 steps 10-11 (trap returned true)
func H_C11_setPostCheck() {
	w := vC04NewWorld()
	t := w.targetProp("target", true, true)
	v := w.anyValue("value")
	p := vC11Proxy(w.r, nil, nil)
	out := vCatch(func() { p.proxySetPostCheck(t.repr, v.v, unistring.String("p")) })
	same := vC11SameValue(v, t.val)
	violated := false
	if t.kind == 1 {
		violated = refAnd(refAnd(!t.c, !t.w), !same)
	}
	if t.kind == 2 {
		violated = refAnd(!t.c, t.s == 0)
	}
	vAssert("set:TypeError<=>invariant-violated", out.panicked == violated)
	vAssert("set:only-TypeError", refImp(out.panicked, out.kind == "TypeError"))
}

// H11.2 deleteProperty: 10.5.10 steps 9-14
func H_C11_deleteCheck() {
	w := vC04NewWorld()
	t := w.targetProp("target", true, false)
	ext := vNondetBool("target.extensible")
	tobj, _ := vC04Obj(w.r, ext)
	trap := vNondetBool("trapResult")
	throw := vNondetBool("throw")
	p := vC11Proxy(w.r, tobj, nil)
	out := vCatch(func() { p.proxyDeleteCheck(trap, t.repr, unistring.String("p"), tobj, throw) })
	present := t.kind != 0
	// trap true: TypeError iff the property exists and is non-configurable or the target is non-extensible
	violated := refAnd(refAnd(trap, present), refOr(!t.c, !ext))
	// trap false: [[Delete]] returns false, which strict-mode callers (throw) turn into a TypeError
	falsish := refAnd(!trap, throw)
	vAssert("delete:TypeError<=>invariant-violated", out.panicked == refOr(violated, falsish))
	vAssert("delete:only-TypeError", refImp(out.panicked, out.kind == "TypeError"))
}

// H11.2 has: 10.5.7 step 9 (trap returned false)
func H_C11_hasChecks() {
	w := vC04NewWorld()
	t := w.targetProp("target", true, false)
	ext := vNondetBool("target.extensible")
	tobj, _ := vC04Obj(w.r, ext)
	p := vC11Proxy(w.r, tobj, nil)
	out := vCatch(func() { p.proxyHasChecks(t.repr, tobj, unistring.String("p")) })
	violated := refAnd(t.kind != 0, refOr(!t.c, !ext))
	vAssert("has:TypeError<=>invariant-violated", out.panicked == violated)
	vAssert("has:only-TypeError", refImp(out.panicked, out.kind == "TypeError"))
}

// H11.2 defineProperty: 10.5.6 steps 11-17 (trap returned true)
func hC11DefinePost(family int) {
	w := vC04NewWorld()
	ext := vNondetBool("target.extensible")
	tobj, _ := vC04Obj(w.r, ext)
	cur := w.current("cur", true, 1, family == 0)
	d := w.descriptor("desc", family, cur)
	p := vC11Proxy(w.r, tobj, nil)

	sameV := false
	if d.hasV && cur.kind == 1 {
		sameV = vC04SameValue(d.d.Value, cur.value)
	}
	ref := specC04Validate(ext, cur.kind, cur.w, cur.e, cur.c, cur.g, cur.s, d.dW, d.dE, d.dC, d.hasV, sameV, d.dG, d.dS)
	kInv := refC11KnownInverted(cur.kind, cur.c, cur.g, cur.s, d.dG, d.dS)
	kKind := refC11KnownKind(cur.kind, cur.c, d.dW, d.hasV, d.dG, d.dS, d.dC)

	out := vCatch(func() { p.proxyDefineOwnPropertyPostCheck(cur.repr, tobj, d.d) })

	settingConfigFalse := d.dC == refFlagFalse
	present := cur.kind != 0
	// step 14: absent: non-extensible target or settingConfigFalse
	vAbsent := refAnd(!present, refOr(!ext, settingConfigFalse))
	// step 15.a incompatible; 15.b settingConfigFalse on configurable; 15.c non-configurable writable data made non-writable
	v15b := refAnd(settingConfigFalse, cur.c)
	v15c := refAnd(refAnd(cur.kind == 1, !cur.c), refAnd(cur.w, d.dW == refFlagFalse))
	vPresent := refAnd(present, refOr(!ref.ok, refOr(v15b, v15c)))
	violated := refOr(vAbsent, vPresent)
	inKnown := refOr(kInv, kKind)
	vAssertK("definePost:TypeError<=>invariant-violated/accessor-functions", refOr(out.panicked == violated, !kInv), kInv, "F-C11-compatible-accessor-inverted")
	vAssertK("definePost:TypeError<=>invariant-violated/kind", refOr(out.panicked == violated, !kKind), kKind, "F-C11-compatible-kind-lenient")
	vAssert("definePost:TypeError<=>invariant-violated", refOr(out.panicked == violated, inKnown))
	vAssert("definePost:only-TypeError", refImp(out.panicked, out.kind == "TypeError"))
}

func H_C11_definePost_data()     { hC11DefinePost(0) }
func H_C11_definePost_accessor() { hC11DefinePost(1) }

// ---- H11.2 getPrototypeOf / setPrototypeOf / isExtensible / preventExtensions ----

type vC11Handler struct {
	proxyHandler // nil: any trap not overridden below must not be reached
	protoRes     Value
	boolRes      bool
	keys         *Object
}

func (h *vC11Handler) getPrototypeOf(*Object) (Value, bool)        { return h.protoRes, true }
func (h *vC11Handler) setPrototypeOf(*Object, *Object) (bool, bool) { return h.boolRes, true }
func (h *vC11Handler) isExtensible(*Object) (bool, bool)            { return h.boolRes, true }
func (h *vC11Handler) preventExtensions(*Object) (bool, bool)       { return h.boolRes, true }
func (h *vC11Handler) ownKeys(*Object) (*Object, bool)              { return h.keys, true }

// prototype candidates: 0 null, 1 f1, 2 f2
func (w *vC04World) protoOf(id int) *Object { return w.fnOf(id) }

func H_C11_getPrototypeOf() {
	w := vC04NewWorld()
	ext := vNondetBool("target.extensible")
	tobj, tb := vC04Obj(w.r, ext)
	tp := vC04Choice("target.proto", 0, 1)
	tb.prototype = w.protoOf(tp)
	hp := vC04Choice("trap.proto", 0, 2)
	var res Value = _null
	if hp != 0 {
		res = w.protoOf(hp)
	}
	p := vC11Proxy(w.r, tobj, &vC11Handler{protoRes: res})
	var got *Object
	out := vCatch(func() { got = p.proto() })
	violated := refAnd(!ext, hp != tp)
	vAssert("getPrototypeOf:TypeError<=>invariant-violated", out.panicked == violated)
	if !out.panicked {
		vAssert("getPrototypeOf:returns-trap-result", got == w.protoOf(hp))
	}
}

func H_C11_setPrototypeOf() {
	w := vC04NewWorld()
	ext := vNondetBool("target.extensible")
	tobj, tb := vC04Obj(w.r, ext)
	tp := vC04Choice("target.proto", 0, 1)
	tb.prototype = w.protoOf(tp)
	np := vC04Choice("new.proto", 0, 2)
	trap := vNondetBool("trapResult")
	throw := vNondetBool("throw")
	p := vC11Proxy(w.r, tobj, &vC11Handler{boolRes: trap})
	var got bool
	out := vCatch(func() { got = p.setProto(w.protoOf(np), throw) })
	violated := refAnd(trap, refAnd(!ext, np != tp))
	falsish := refAnd(!trap, throw)
	vAssert("setPrototypeOf:TypeError<=>invariant-violated", out.panicked == refOr(violated, falsish))
	if !out.panicked {
		vAssert("setPrototypeOf:returns-trap-result", got == trap)
	}
}

func H_C11_isExtensible() {
	w := vC04NewWorld()
	ext := vNondetBool("target.extensible")
	tobj, _ := vC04Obj(w.r, ext)
	trap := vNondetBool("trapResult")
	p := vC11Proxy(w.r, tobj, &vC11Handler{boolRes: trap})
	var got bool
	out := vCatch(func() { got = p.isExtensible() })
	vAssert("isExtensible:TypeError<=>invariant-violated", out.panicked == (trap != ext))
	if !out.panicked {
		vAssert("isExtensible:returns-trap-result", got == trap)
	}
}

func H_C11_preventExtensions() {
	w := vC04NewWorld()
	ext := vNondetBool("target.extensible")
	tobj, _ := vC04Obj(w.r, ext)
	trap := vNondetBool("trapResult")
	throw := vNondetBool("throw")
	p := vC11Proxy(w.r, tobj, &vC11Handler{boolRes: trap})
	var got bool
	out := vCatch(func() { got = p.preventExtensions(throw) })
	violated := refAnd(trap, ext)
	falsish := refAnd(!trap, throw)
	vAssert("preventExtensions:TypeError<=>invariant-violated", out.panicked == refOr(violated, falsish))
	if !out.panicked {
		vAssert("preventExtensions:returns-trap-result", got == trap)
	}
}

// ---- H11.2 ownKeys: 10.5.11 ----

// key universe: 0 "a", 1 "b", 2 "c", 3 a Symbol, 4 the Number 1 (not a property key)
func H_C11_ownKeys() {
	w := vC04NewWorld()
	r := w.r
	sym := &Symbol{desc: asciiString("s")}
	keyVals := []Value{asciiString("a"), asciiString("b"), asciiString("c"), sym, valueInt(1)}
	names := []unistring.String{"a", "b"}

	ext := vNondetBool("target.extensible")
	tobj, tb := vC04Obj(r, ext)
	// target keys: "a" absent / configurable / non-configurable, "b" absent / configurable
	aState := vC04Choice("target.a", 0, 2)
	bState := vC04Choice("target.b", 0, 1)
	inTarget := []bool{aState != 0, bState != 0, false, false, false}
	nonConfigurable := []bool{aState == 2, false, false, false, false}
	if aState == 1 {
		tb.values[names[0]] = valueInt(1)
		tb.propNames = append(tb.propNames, names[0])
	}
	if aState == 2 {
		tb.values[names[0]] = &valueProperty{value: valueInt(1), writable: true, enumerable: true}
		tb.propNames = append(tb.propNames, names[0])
	}
	if bState == 1 {
		tb.values[names[1]] = valueInt(2)
		tb.propNames = append(tb.propNames, names[1])
	}

	// trap result: an array-like of n keys
	n := vC04Choice("result.length", 0, vBound("N"))
	_, kb := vC04Obj(r, true)
	items := make([]int, n)
	for i := 0; i < n; i++ {
		items[i] = vC04Choice("result.item", 0, 4)
		kb.values[valueInt(i).string()] = keyVals[items[i]]
	}
	kb.values["length"] = valueInt(n)

	p := vC11Proxy(r, tobj, &vC11Handler{keys: kb.val})
	var got []Value
	var handled bool
	out := vCatch(func() { got, handled = p.proxyOwnKeys() })

	// reference (all concrete except ext)
	invalid, dup := false, false
	count := make([]int, 5)
	for _, it := range items {
		if it == 4 {
			invalid = true
		}
		count[it]++
		if count[it] > 1 {
			dup = true
		}
	}
	missingNonConfigurable, missingAny, extra := false, false, false
	for k := 0; k < 5; k++ {
		if inTarget[k] && count[k] == 0 {
			missingAny = true
			if nonConfigurable[k] {
				missingNonConfigurable = true
			}
		}
		if !inTarget[k] && count[k] > 0 {
			extra = true
		}
	}
	always := invalid || dup || missingNonConfigurable
	onlyNonExt := missingAny || extra
	violated := refOr(always, refAnd(!ext, onlyNonExt))
	vAssert("ownKeys:TypeError<=>invariant-violated", out.panicked == violated)
	vAssert("ownKeys:only-TypeError", refImp(out.panicked, out.kind == "TypeError"))
	if !out.panicked {
		okList := handled && len(got) == n
		if okList {
			for i := 0; i < n; i++ {
				if got[i] != keyVals[items[i]] {
					okList = false
				}
			}
		}
		vAssert("ownKeys:returns-trap-result", okList)
	}
}
