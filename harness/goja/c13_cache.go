package goja

import "reflect"

// ---------------------------------------------------------------------
// C13 / H13.3 — valueArrayCache: the per-index cache of element wrappers that a wrapped []struct /
// [][]T / [N]struct hands out ("element wrappers handed out earlier keep referring to the value they
// were taken from"). Reference model: a plain list of wrappers. After put / shrink / grow the cache
// must answer get(i) exactly like the model: in particular a wrapper that was cut off by a shrink is
// detached (copied) exactly once and is never handed out again after the slice is re-extended.

type vC13Wrap struct {
	id       int
	x        int
	detached int
}

func (w *vC13Wrap) esValue() Value              { return valueInt(w.id) }
func (w *vC13Wrap) reflectValue() reflect.Value { return reflect.ValueOf(&w.x).Elem() }
func (w *vC13Wrap) setReflectValue(reflect.Value) {
	w.detached++
}

// symbolic-mode stand-in for copyReflectValueWrapper (reflection is not encodable): the wrapper is told
// that it now owns a private copy
func vC13StubCopyWrapper(w reflectValueWrapper) { w.setReflectValue(reflect.Value{}) }

func H_C13_valueCache() {
	maxI := vBound("I")
	var c valueArrayCache
	model := []*vC13Wrap{}
	all := []*vC13Wrap{}
	cut := []*vC13Wrap{} // wrappers removed from the model by a shrink
	put := func(idx int) {
		w := &vC13Wrap{id: len(all)}
		all = append(all, w)
		c.put(idx, w)
		for len(model) <= idx {
			model = append(model, nil)
		}
		model[idx] = w
	}
	// phase 1: element wrappers fetched at a symbolic set of indices (ascending, as a[i] reads create them)
	mask := vNondetInt("mask")
	vAssume(mask >= 0 && mask < 1<<uint(maxI))
	mask = vConcretize(mask)
	for i := 0; i < maxI; i++ {
		if mask&(1<<uint(i)) != 0 {
			put(i)
		}
	}
	// phase 2: a.length = n (shrink, or grow)
	n := vNondetInt("newLen")
	vAssume(n >= 0 && n <= maxI)
	n = vConcretize(n)
	if n < len(model) {
		for _, w := range model[n:] {
			if w != nil {
				cut = append(cut, w)
			}
		}
		model = model[:n]
		c.shrink(n)
	} else {
		for len(model) < n {
			model = append(model, nil)
		}
		c.grow(n)
	}
	// phase 3: the slice is re-extended and a wrapper is fetched at index j
	j := vNondetInt("j")
	vAssume(j >= 0 && j <= maxI)
	j = vConcretize(j)
	put(j)

	vAssert("cache:len==model", len(c) == len(model))
	same := true
	for i := 0; i <= maxI+1; i++ {
		var want reflectValueWrapper
		if i < len(model) && model[i] != nil {
			want = model[i]
		}
		if c.get(i) != want {
			same = false
		}
	}
	vAssert("cache:get==model (no stale wrapper resurrected)", same)
	okCut, okLive := true, true
	for _, w := range cut {
		if w.detached != 1 {
			okCut = false
		}
	}
	for _, w := range model {
		if w != nil && w.detached != 0 {
			okLive = false
		}
	}
	vAssert("cache:cut-off-wrappers-detached-once", okCut)
	vAssert("cache:live-wrappers-not-detached", okLive)
}

// ---------------------------------------------------------------------
// C13 / H13.4 — objectExportCtx: the per-export memo that makes "exporting a script-built object graph
// preserve sharing and cycles within one export". Reference model: a map (object, destination type) ->
// exported Go value, where an untyped export is filed under the object's default export type. Whatever
// sequence of put / putTyped happens, a later lookup must return the value first stored for that
// (object, type) pair.

type vC13Type struct {
	reflect.Type // nil: only identity matters for the memo
	id           int
}

type vC13Obj struct {
	baseObject
	t reflect.Type
}

func (o *vC13Obj) exportType() reflect.Type { return o.t }

func H_C13_exportCtx() {
	types := []*vC13Type{{id: 0}, {id: 1}, {id: 2}}
	nObj := vBound("O")
	objs := make([]*Object, nObj)
	for i := range objs {
		obj := &Object{}
		obj.self = &vC13Obj{baseObject: baseObject{val: obj}, t: types[0]} // default export type: types[0]
		objs[i] = obj
	}
	ctx := &objectExportCtx{}
	// model[o][t] = index of the stored value (+1), 0 = absent
	model := make([][3]int, nObj)
	vals := []*int{}
	k := vBound("K")
	for s := 0; s < k; s++ {
		o := vNondetInt("obj")
		vAssume(o >= 0 && o < nObj)
		o = vConcretize(o)
		t := vNondetInt("typ") // -1: untyped put
		vAssume(t >= -1 && t < 3)
		t = vConcretize(t)
		v := new(int)
		vals = append(vals, v)
		if t < 0 {
			ctx.put(objs[o], v)
			model[o][0] = len(vals)
		} else {
			ctx.putTyped(objs[o], types[t], v)
			model[o][t] = len(vals)
		}
	}
	okGet, okTyped := true, true
	for o := 0; o < nObj; o++ {
		got, exists := ctx.get(objs[o])
		if m := model[o][0]; m == 0 {
			if exists {
				okGet = false
			}
		} else if !exists || got != interface{}(vals[m-1]) {
			okGet = false
		}
		if _, isTable := ctx.cache[objs[o]].(objectExportCacheItem); isTable {
			for t := 0; t < 3; t++ {
				got, exists := ctx.getTyped(objs[o], types[t])
				if m := model[o][t]; m == 0 {
					if exists {
						okTyped = false
					}
				} else if !exists || got != interface{}(vals[m-1]) {
					okTyped = false
				}
			}
		}
	}
	vAssert("exportCtx:get==model (sharing preserved for untyped slots)", okGet)
	vAssert("exportCtx:getTyped==model", okTyped)
}
