package goja

import "math"

func vFloat64bits(f float64) uint64 { return math.Float64bits(f) }

// vNumber: an arbitrary Number value in canonical form (see refCanonicalNumber)
func vNumber(name string) Value {
	if vNondetBool(name + ".isInt") {
		i := vNondetInt64(name + ".i")
		vAssume(i >= -(1<<53) && i <= 1<<53)
		return valueInt(i)
	}
	f := vNondetFloat64(name + ".f")
	vAssume(!refIsIntegralInSafeRange(math.Float64bits(f)))
	return valueFloat(f)
}

// vNumberBits: the bit pattern of the double a Number denotes
func vNumberBits(v Value) uint64 {
	switch n := v.(type) {
	case valueInt:
		return math.Float64bits(float64(n))
	case valueFloat:
		return math.Float64bits(float64(n))
	}
	panic("vNumberBits: not a number")
}
