package goja

import (
	"encoding/json"
	"io"
	"strconv"
	"strings"

	"github.com/dop251/goja/unistring"
)

// C19 (third wave) — SerializeJSONProperty with toJSON / replacer function / property list / wrapper objects
// (ECMA-262 25.5.2.1-25.5.2.6), the space -> gap normalisation of JSON.stringify (25.5.2 steps 5-8), and the
// JSON.parse kernels that are goja's own code: building values from the token stream of encoding/json's Decoder
// (stubbed by a harness token list symbolically, the real decoder natively) and InternalizeJSONProperty (25.5.1.1).
// All reference models are written from the specification text over a harness-side tree (vC19N).

// ---------------------------------------------------------------------
// value trees

const (
	vjUndef = iota
	vjNull
	vjBool
	vjInt
	vjStr
	vjNum // arbitrary double (parse side)
	vjObj
	vjArr
	vjFunc
	vjSymObj // Symbol wrapper object: an ordinary object without [[NumberData]]/[[StringData]]/[[BooleanData]]/[[BigIntData]]
	vjHole   // deleted array element (parse side)
)

const (
	vtjNone = iota
	vtjInt       // toJSON returns 7
	vtjKey       // toJSON returns key + "!"
	vtjUndefined // toJSON returns undefined
	vtjOther     // toJSON returns another object
	vtjThis      // toJSON returns this
)

type vC19N struct {
	kind int
	b    bool
	i    int64
	f    float64
	s    string
	keys []string
	kids []*vC19N
	tj   int
	alt  *vC19N
	real Value
}

func vC19mInt(i int64) *vC19N  { return &vC19N{kind: vjInt, i: i} }
func vC19mStr(s string) *vC19N { return &vC19N{kind: vjStr, s: s} }
func vC19mUndef() *vC19N       { return &vC19N{kind: vjUndef} }
func vC19mObj(keys []string, kids []*vC19N) *vC19N {
	return &vC19N{kind: vjObj, keys: keys, kids: kids}
}
func vC19mArr(kids ...*vC19N) *vC19N { return &vC19N{kind: vjArr, kids: kids} }

func (n *vC19N) isObject() bool {
	return n.kind == vjObj || n.kind == vjArr || n.kind == vjFunc || n.kind == vjSymObj
}

// key "<D800>" stands for the one-unit string consisting of the lone surrogate U+D800
func vC19mKey(k string) unistring.String {
	if k == "<D800>" {
		return unicodeString{0xFEFF, 0xD800}.string()
	}
	return unistring.NewFromString(k)
}

func vC19mKeyValue(k string) Value {
	if k == "<D800>" {
		return unicodeString{0xFEFF, 0xD800}
	}
	return asciiString(k)
}

func refC19mQuote(s string) string {
	if s == "<D800>" {
		return `"\ud800"`
	}
	return `"` + s + `"` // harness strings need no escapes (escaping: H19.1)
}

func vC19mGet(holder *vC19N, key string) *vC19N {
	switch holder.kind {
	case vjObj:
		for i, k := range holder.keys {
			if k == key {
				return holder.kids[i]
			}
		}
	case vjArr:
		for i := range holder.kids {
			if strconv.Itoa(i) == key && holder.kids[i].kind != vjHole {
				return holder.kids[i]
			}
		}
	}
	return vC19mUndef()
}

// ---------------------------------------------------------------------
// world: reference state + real state + call logs

type vC19mEvent struct {
	toJSON bool
	this   *vC19N
	key    string
	val    *vC19N
}

type vC19mRealEvent struct {
	toJSON bool
	this   Value
	key    Value
	val    Value
	nargs  int
}

const (
	vrpNone = iota
	vrpIdentity
	vrpDropFirst    // key k0 -> undefined
	vrpReplaceSecnd // key k1 -> 9
	vrpObjectFirst  // key k0 -> a fresh object {z: 1}
	vrpNumModes
)

type vC19mWorld struct {
	r        *Runtime
	gap      string
	indent   string
	replacer int
	k0, k1   string
	propList []string
	hasList  bool
	altObj   *vC19N
	events   []vC19mEvent
	real     []vC19mRealEvent
}

func (w *vC19mWorld) toJSONResult(n *vC19N, key string) *vC19N {
	switch n.tj {
	case vtjInt:
		return vC19mInt(7)
	case vtjKey:
		return vC19mStr(key + "!")
	case vtjUndefined:
		return vC19mUndef()
	case vtjOther:
		return n.alt
	}
	return n
}

func (w *vC19mWorld) replacerResult(key string, value *vC19N) *vC19N {
	switch w.replacer {
	case vrpDropFirst:
		if key == w.k0 {
			return vC19mUndef()
		}
	case vrpReplaceSecnd:
		if key == w.k1 {
			return vC19mInt(9)
		}
	case vrpObjectFirst:
		if key == w.k0 {
			return w.altObj
		}
	}
	return value
}

// SerializeJSONProperty (25.5.2.2)
func (w *vC19mWorld) ser(key string, holder *vC19N) (string, bool) {
	value := vC19mGet(holder, key)
	if value.kind == vjObj && value.tj != vtjNone {
		w.events = append(w.events, vC19mEvent{toJSON: true, this: value, key: key})
		value = w.toJSONResult(value, key)
	}
	if w.replacer != vrpNone {
		w.events = append(w.events, vC19mEvent{this: holder, key: key, val: value})
		value = w.replacerResult(key, value)
	}
	switch value.kind {
	case vjNull:
		return "null", true
	case vjBool:
		if value.b {
			return "true", true
		}
		return "false", true
	case vjInt:
		return strconv.FormatInt(value.i, 10), true
	case vjStr:
		return refC19mQuote(value.s), true
	case vjObj, vjSymObj:
		return w.serObj(value), true
	case vjArr:
		return w.serArr(value), true
	}
	return "", false
}

// SerializeJSONObject (25.5.2.5)
func (w *vC19mWorld) serObj(value *vC19N) string {
	stepback := w.indent
	w.indent += w.gap
	keys := value.keys
	if w.hasList {
		keys = w.propList
	}
	var partial []string
	for _, p := range keys {
		s, ok := w.ser(p, value)
		if ok {
			m := refC19mQuote(p) + ":"
			if w.gap != "" {
				m += " "
			}
			partial = append(partial, m+s)
		}
	}
	var final string
	if len(partial) == 0 {
		final = "{}"
	} else if w.gap == "" {
		final = "{" + vC19mJoin(partial, ",") + "}"
	} else {
		final = "{\n" + w.indent + vC19mJoin(partial, ",\n"+w.indent) + "\n" + stepback + "}"
	}
	w.indent = stepback
	return final
}

// SerializeJSONArray (25.5.2.6)
func (w *vC19mWorld) serArr(value *vC19N) string {
	stepback := w.indent
	w.indent += w.gap
	var partial []string
	for i := range value.kids {
		s, ok := w.ser(strconv.Itoa(i), value)
		if !ok {
			s = "null"
		}
		partial = append(partial, s)
	}
	var final string
	if len(partial) == 0 {
		final = "[]"
	} else if w.gap == "" {
		final = "[" + vC19mJoin(partial, ",") + "]"
	} else {
		final = "[\n" + w.indent + vC19mJoin(partial, ",\n"+w.indent) + "\n" + stepback + "]"
	}
	w.indent = stepback
	return final
}

// ---- real values

func (w *vC19mWorld) toJSONFunc(n *vC19N) *Object {
	return vC18mFunc(w.r, func(call FunctionCall) Value {
		w.real = append(w.real, vC19mRealEvent{toJSON: true, this: call.This, key: call.Argument(0), nargs: len(call.Arguments)})
		return w.build(w.toJSONResult(n, call.Argument(0).String()))
	})
}

func (w *vC19mWorld) replacerFunc() func(FunctionCall) Value {
	return func(call FunctionCall) Value {
		w.real = append(w.real, vC19mRealEvent{this: call.This, key: call.Argument(0), val: call.Argument(1), nargs: len(call.Arguments)})
		key := call.Argument(0).String()
		switch w.replacer {
		case vrpDropFirst:
			if key == w.k0 {
				return _undefined
			}
		case vrpReplaceSecnd:
			if key == w.k1 {
				return valueInt(9)
			}
		case vrpObjectFirst:
			if key == w.k0 {
				return w.build(w.altObj)
			}
		}
		return call.Argument(1)
	}
}

func (w *vC19mWorld) build(n *vC19N) Value {
	if n.real != nil {
		return n.real
	}
	r := w.r
	switch n.kind {
	case vjUndef:
		n.real = _undefined
	case vjNull:
		n.real = _null
	case vjBool:
		n.real = valueBool(n.b)
	case vjInt:
		n.real = valueInt(n.i)
	case vjStr:
		n.real = asciiString(n.s)
	case vjObj:
		o := vC19Object(r)
		n.real = o.val
		for i, k := range n.keys {
			kid := n.kids[i]
			if kid.kind == vjFunc && k == "toJSON" && n.tj != vtjNone {
				kid.real = w.toJSONFunc(n)
			}
			o._putProp(vC19mKey(k), w.build(kid), true, true, true)
		}
	case vjArr:
		vals := make([]Value, len(n.kids))
		for i, kid := range n.kids {
			vals[i] = w.build(kid)
		}
		n.real = vC19Array(r, vals)
	case vjFunc:
		n.real = vC18mFunc(r, func(FunctionCall) Value { return _undefined })
	case vjSymObj:
		var proto *Object
		if !vSymbolic() {
			proto = r.getSymbolPrototype()
		}
		n.real = r.newPrimitiveObject(&Symbol{desc: asciiString("s")}, proto, classObject)
	}
	return n.real
}

func vC19mMatches(n *vC19N, v Value) bool {
	switch n.kind {
	case vjUndef:
		return v == _undefined
	case vjNull:
		return v == _null
	case vjBool:
		b, ok := v.(valueBool)
		return ok && bool(b) == n.b
	case vjInt:
		i, ok := v.(valueInt)
		return ok && int64(i) == n.i
	case vjStr:
		s, ok := v.(String)
		return ok && s.String() == n.s
	}
	return n.real != nil && v == n.real
}

func (w *vC19mWorld) logsAgree() bool {
	if len(w.events) != len(w.real) {
		return false
	}
	for i, e := range w.events {
		g := w.real[i]
		if e.toJSON != g.toJSON {
			return false
		}
		k, isStr := g.key.(String)
		if !isStr || k.String() != e.key {
			return false
		}
		if e.this.real == nil || g.this != e.this.real {
			return false
		}
		if e.toJSON {
			if g.nargs != 1 {
				return false
			}
		} else if g.nargs != 2 || !vC19mMatches(e.val, g.val) {
			return false
		}
	}
	return true
}

// an object {c: 1} carrying a toJSON method with behaviour tj
func vC19mToJSONObj(tj int) *vC19N {
	n := vC19mObj([]string{"c", "toJSON"}, []*vC19N{vC19mInt(1), {kind: vjFunc}})
	n.tj = tj
	if tj == vtjOther {
		n.alt = vC19mObj([]string{"d"}, []*vC19N{vC19mInt(4)})
	}
	return n
}

const vC19mNumMemberKinds = 11

func vC19mMember(kind int) *vC19N {
	switch kind {
	case 0:
		return vC19mInt(1)
	case 1:
		return vC19mUndef()
	case 2:
		return vC19mObj([]string{"c"}, []*vC19N{vC19mInt(1)})
	case 3:
		return vC19mToJSONObj(vtjInt)
	case 4:
		return vC19mToJSONObj(vtjKey)
	case 5:
		return vC19mToJSONObj(vtjUndefined)
	case 6:
		return vC19mToJSONObj(vtjOther)
	case 7:
		return vC19mToJSONObj(vtjThis)
	case 8: // toJSON that is not callable: ignored, serialised as an ordinary member
		return vC19mObj([]string{"c", "toJSON"}, []*vC19N{vC19mInt(1), vC19mInt(5)})
	case 9:
		return &vC19N{kind: vjFunc}
	}
	return &vC19N{kind: vjSymObj}
}

// H19.3.toJSON: toJSON and replacer-function protocol of SerializeJSONProperty
func H_C19_toJSONReplacer() {
	r := vRuntime()
	w := &vC19mWorld{r: r}
	rootIsArr := vChoice("rootIsArray", 2) == 1
	xk := vChoice("member0", vC19mNumMemberKinds)
	yk := vChoice("member1", 3)
	w.replacer = vChoice("replacer", vrpNumModes)
	if vBound("G") > 0 {
		if vChoice("gap", 2) == 1 {
			w.gap = "\t"
		}
	} else if !rootIsArr {
		w.gap = " "
	}
	x := vC19mMember(xk)
	var y *vC19N
	switch yk {
	case 0:
		y = vC19mInt(2)
	case 1:
		y = vC19mObj([]string{"c"}, []*vC19N{vC19mInt(1)})
	default:
		y = vC19mToJSONObj(vtjKey)
	}
	var root *vC19N
	if rootIsArr {
		root = vC19mArr(x, y)
		w.k0, w.k1 = "0", "1"
	} else {
		root = vC19mObj([]string{"a", "b"}, []*vC19N{x, y})
		w.k0, w.k1 = "a", "b"
	}
	w.altObj = vC19mObj([]string{"z"}, []*vC19N{vC19mInt(1)})
	wrapper := vC19mObj([]string{""}, []*vC19N{root})

	want, wantRet := w.ser("", wrapper)

	holder := w.build(wrapper).(*Object)
	ctx := &_builtinJSON_stringifyContext{r: r, allAscii: true, gap: w.gap}
	if w.replacer != vrpNone {
		ctx.replacerFunction = w.replacerFunc()
	}
	var ret bool
	out := vCatch(func() { ret = ctx.str(stringEmpty, holder) })
	vAssert("tj:no-throw", !out.panicked)
	if out.panicked {
		return
	}
	got := string(ctx.buf.Bytes())
	// known defect class: a Symbol wrapper object that reaches serialisation is unwrapped to its Symbol and omitted
	symReaches := xk == 10 && w.replacer != vrpDropFirst && w.replacer != vrpObjectFirst
	vAssertK("tj:text==SerializeJSONProperty", ret == wantRet && got == want, symReaches, "F-C19-symbol-wrapper-unwrapped")
	vAssert("tj:calls==(toJSON(this=value,key); replacer(this=holder,key,value))-once-per-member-in-order", w.logsAgree())
	vAssert("tj:stack-balanced", len(ctx.stack) == 0)
	vAssert("tj:indent-restored", ctx.indent == "")
}

// ---------------------------------------------------------------------
// H19.3.boxed: Number / String / Boolean wrapper objects (25.5.2.2 step 4)

func H_C19_boxed() {
	r := vRuntime()
	kind := vChoice("kind", 3)
	calls := 0
	var thisOK = true
	var boxed *Object
	var want string
	switch kind {
	case 0: // [[NumberData]]: ToNumber(value) — observable through valueOf
		p := vNumber("p")
		n := vNumber("n")
		var proto *Object
		if !vSymbolic() {
			proto = r.getNumberPrototype()
		}
		boxed = r.newPrimitiveObject(p, proto, classNumber)
		b := boxed
		boxed.self._putProp("valueOf", vC18mFunc(r, func(call FunctionCall) Value {
			calls++
			if call.This != Value(b) {
				thisOK = false
			}
			return n
		}), true, false, true)
		switch nv := n.(type) {
		case valueInt:
			want = nv.String()
		case valueFloat:
			f := float64(nv)
			if f != f || f-f != 0 {
				want = "null"
			} else if vFloat64bits(f) == 1<<63 {
				want = "0"
			} else {
				want = nv.String()
			}
		}
	case 1: // [[StringData]]: ToString(value) — observable through toString
		s1, _ := vC19String("s1", 1, vChoice("s1.unicode", 2) == 1)
		s2, units := vC19String("s2", 1, vChoice("s2.unicode", 2) == 1)
		var proto *Object
		if !vSymbolic() {
			proto = r.getStringPrototype()
		}
		boxed = r._newString(s1, proto)
		b := boxed
		boxed.self._putProp("toString", vC18mFunc(r, func(call FunctionCall) Value {
			calls++
			if call.This != Value(b) {
				thisOK = false
			}
			return s2
		}), true, false, true)
		exp, expLen, _ := vC19Expected(units)
		want = string(exp[:expLen])
	default: // [[BooleanData]]: the data itself, no method is consulted
		bv := vNondetBool("b")
		var proto *Object
		if !vSymbolic() {
			proto = r.getBooleanPrototype()
		}
		boxed = r.newPrimitiveObject(valueBool(bv), proto, classBoolean)
		boxed.self._putProp("valueOf", vC18mFunc(r, func(call FunctionCall) Value {
			calls += 10
			return valueBool(!bv)
		}), true, false, true)
		want = "false"
		if bv {
			want = "true"
		}
	}
	holder := vC19Object(r)
	holder._putProp("k", boxed, true, true, true)
	ctx := &_builtinJSON_stringifyContext{r: r, allAscii: true}
	var ret bool
	out := vCatch(func() { ret = ctx.str(asciiString("k"), holder.val) })
	vAssert("boxed:no-throw", !out.panicked)
	if out.panicked {
		return
	}
	vAssert("boxed:serialised", ret)
	vAssert("boxed:text==primitive-text", string(ctx.buf.Bytes()) == want)
	if kind == 2 {
		vAssert("boxed:Boolean-uses-[[BooleanData]]-only", calls == 0)
	} else {
		vAssert("boxed:conversion-method-called-once-on-the-wrapper", calls == 1 && thisOK)
	}
	vAssert("boxed:stack-balanced", len(ctx.stack) == 0)
}

// ---------------------------------------------------------------------
// H19.3.front: JSON.stringify front end — space -> gap, replacer array -> property list

func vC19mSpaces(n int) string {
	s := ""
	for ; n > 0; n-- {
		s += " "
	}
	return s
}

// symbolic-mode replacement of strings.Repeat (strings.Builder is not interpretable)
func vStubC19mRepeat(s string, count int) string {
	out := ""
	for ; count > 0; count-- {
		out += s
	}
	return out
}

// refC19mUnits: number of characters of a UTF-8 string without astral characters (bytes that are not
// continuation bytes)
func refC19mUnits(s string) int {
	n := 0
	for i := 0; i < len(s); i++ {
		if s[i]&0xC0 != 0x80 {
			n++
		}
	}
	return n
}

func vC19mJoin(parts []string, sep string) string {
	out := ""
	for i, p := range parts {
		if i > 0 {
			out += sep
		}
		out += p
	}
	return out
}

func H_C19_stringifyFront() {
	r := vRuntime()
	if vChoice("mode", 2) == 0 {
		// ---- space argument (25.5.2 steps 5-8)
		root := vC19Array(r, []Value{valueInt(1)})
		args := []Value{root, _undefined, nil}
		var wantGap string
		knownNum, knownStr, nonASCIIGap := false, false, false
		mkFn := func(v Value) *Object { return vC18mFunc(r, func(FunctionCall) Value { return v }) }
		switch vChoice("space", 11) {
		case 0: // absent
			args = args[:1]
		case 1: // integer Number >= 11: min(10, space)
			n := vNondetInt64("n")
			vAssume(n >= 11 && n <= 1<<53)
			args[2] = valueInt(n)
			wantGap = vC19mSpaces(10)
		case 2:
			c := []int64{-1, 0, 1, 10}[vChoice("int", 4)]
			args[2] = valueInt(c)
			if c > 0 {
				wantGap = vC19mSpaces(int(c))
			}
		case 3: // any double >= 11 that is not a safe integer, including +Infinity: 10 spaces
			f := vNondetFloat64("f")
			vAssume(f >= 11)
			vAssume(!refIsIntegralInSafeRange(vFloat64bits(f)))
			args[2] = valueFloat(f)
			wantGap = vC19mSpaces(10)
			knownNum = f >= 9223372036854775808.0
		case 4: // NaN, anything below 1 (negative, -0, fractions, -Infinity): no gap
			f := vNondetFloat64("f")
			vAssume(!(f >= 1))
			vAssume(!refIsIntegralInSafeRange(vFloat64bits(f)))
			args[2] = valueFloat(f)
		case 5:
			k := vChoice("frac", 3)
			args[2] = valueFloat([]float64{1.5, 9.99, 10.5}[k])
			wantGap = vC19mSpaces([]int{1, 9, 10}[k])
		case 6: // ASCII string: first 10 code units
			l := []int{0, 1, 10, 11}[vChoice("len", 4)]
			s := vNondetString("gap", l)
			for i := 0; i < l; i++ {
				vAssume(s[i] < 0x80)
			}
			args[2] = asciiString(s)
			wantGap = s
			if l > 10 {
				wantGap = s[:10]
			}
		case 7: // non-ASCII strings: first 10 code units, not bytes
			var us unicodeString
			switch vChoice("uni", 3) {
			case 0: // 5 units, 10 bytes
				us = unicodeString{0xFEFF, 0xE9, 0xE9, 0xE9, 0xE9, 0xE9}
				wantGap = "ééééé"
			case 1: // 6 units, 12 bytes
				us = unicodeString{0xFEFF, 0xE9, 0xE9, 0xE9, 0xE9, 0xE9, 0xE9}
				wantGap = "éééééé"
				knownStr = true
			default: // 10 units, 11 bytes
				us = unicodeString{0xFEFF, '1', '2', '3', '4', '5', '6', '7', '8', '9', 0xE9}
				wantGap = "123456789é"
				knownStr = true
			}
			args[2] = us
			nonASCIIGap = true
		case 8: // Number object: ToNumber(space)
			var proto *Object
			if !vSymbolic() {
				proto = r.getNumberPrototype()
			}
			o := r.newPrimitiveObject(valueInt(7), proto, classNumber)
			o.self._putProp("valueOf", mkFn(valueInt(3)), true, false, true)
			args[2] = o
			wantGap = "   "
		case 9: // String object: ToString(space)
			var proto *Object
			if !vSymbolic() {
				proto = r.getStringPrototype()
			}
			o := r._newString(asciiString("zz"), proto)
			o.self._putProp("toString", mkFn(asciiString("ab")), true, false, true)
			args[2] = o
			wantGap = "ab"
		default: // other types: no gap
			switch vChoice("other", 4) {
			case 0:
				args[2] = valueTrue
			case 1:
				args[2] = _null
			case 2:
				args[2] = r.NewObject()
			default:
				var proto *Object
				if !vSymbolic() {
					proto = r.getBooleanPrototype()
				}
				args[2] = r.newPrimitiveObject(valueTrue, proto, classBoolean)
			}
		}
		var res Value
		out := vCatch(func() { res = r.builtinJSON_stringify(FunctionCall{This: _undefined, Arguments: args}) })
		vAssert("front:no-throw", !out.panicked)
		if out.panicked {
			return
		}
		want := "[1]"
		if wantGap != "" {
			want = "[\n" + wantGap + "1\n]"
		}
		rs, isStr := res.(String)
		vAssert("front:result-is-string", isStr)
		if !isStr {
			return
		}
		got := rs.String()
		// the result is an ECMAScript string: its length counts UTF-16 code units = the characters of its
		// UTF-8 form (no astral characters here)
		vAssertK("front:result-length-in-code-units", rs.Length() == refC19mUnits(got), nonASCIIGap, "F-C19-gap-non-ascii-result-corrupt")
		if knownStr {
			vAssertK("front:gap==first-10-code-units", got == want, true, "F-C19-gap-string-cut-by-bytes")
		} else {
			vAssertK("front:gap==min(10,ToIntegerOrInfinity(space))-spaces", got == want, knownNum, "F-C19-gap-huge-number")
		}
		return
	}

	// ---- replacer array -> PropertyList (25.5.2 step 4.b)
	w := &vC19mWorld{r: r, hasList: true}
	inner := vC19mObj([]string{"x", "a"}, []*vC19N{vC19mInt(5), vC19mInt(4)})
	root := vC19mObj([]string{"a", "b", "1", "c", "<D800>"}, []*vC19N{vC19mInt(1), vC19mInt(2), vC19mInt(3), inner, vC19mInt(6)})
	mkFn := func(v Value) *Object { return vC18mFunc(r, func(FunctionCall) Value { return v }) }
	surrogate := false
	var list []Value
	add := func(name string) {
		for _, p := range w.propList {
			if p == name {
				return
			}
		}
		w.propList = append(w.propList, name)
	}
	for pos := 0; pos < 2; pos++ {
		switch vChoice("elem", 10) {
		case 0:
			list = append(list, asciiString("b"))
			add("b")
		case 1:
			list = append(list, valueInt(1))
			add("1")
		case 2: // String object: ToString(v)
			var proto *Object
			if !vSymbolic() {
				proto = r.getStringPrototype()
			}
			o := r._newString(asciiString("zz"), proto)
			o.self._putProp("toString", mkFn(asciiString("c")), true, false, true)
			list = append(list, o)
			add("c")
		case 3: // Number object: ToString(v)
			var proto *Object
			if !vSymbolic() {
				proto = r.getNumberPrototype()
			}
			o := r.newPrimitiveObject(valueInt(7), proto, classNumber)
			o.self._putProp("toString", mkFn(asciiString("1")), true, false, true)
			list = append(list, o)
			add("1")
		case 4:
			list = append(list, asciiString("a"))
			add("a")
		case 5: // ignored element kinds
			list = append(list, r.NewObject())
		case 6:
			list = append(list, valueTrue)
		case 7:
			list = append(list, _undefined)
		case 8: // a key that is a lone surrogate
			list = append(list, unicodeString{0xFEFF, 0xD800})
			add("<D800>")
			surrogate = true
		default: // a key the object does not have
			list = append(list, asciiString("zz"))
			add("zz")
		}
	}
	list = append(list, asciiString("a"))
	add("a")
	want, _ := w.ser("", vC19mObj([]string{""}, []*vC19N{root}))
	var res Value
	out := vCatch(func() {
		res = r.builtinJSON_stringify(FunctionCall{This: _undefined, Arguments: []Value{w.build(root), vC19Array(r, list)}})
	})
	vAssert("front:no-throw", !out.panicked)
	if out.panicked {
		return
	}
	rs, isStr := res.(String)
	vAssert("front:result-is-string", isStr)
	if !isStr {
		return
	}
	vAssertK("front:text==members-of-PropertyList-in-list-order", rs.String() == want, surrogate, "F-C19-propertylist-lone-surrogate")
}

// ---------------------------------------------------------------------
// H19.4.parse: JSON.parse over a token stream

var vC19mToks []json.Token
var vC19mTokPos int

func vC19mResetToks() { vC19mToks, vC19mTokPos = nil, 0 }

func init() { vResetHooks = append(vResetHooks, vC19mResetToks) }

// symbolic-mode replacement of (*json.Decoder).Token: the harness token list, then io.EOF (what the real
// decoder returns when the input ends, also in the middle of a container)
func vStubC19mToken(d *json.Decoder) (json.Token, error) {
	if vC19mTokPos >= len(vC19mToks) {
		return nil, io.EOF
	}
	t := vC19mToks[vC19mTokPos]
	vC19mTokPos++
	return t, nil
}

// symbolic-mode replacement of errors.Is for the sentinel errors used here
func vStubC19mErrorsIs(err, target error) bool { return err == target }

// the JSON text whose token stream is toks (natively the real decoder reads it back)
func vC19mRender(toks []json.Token) string {
	var sb strings.Builder
	type frame struct {
		obj bool
		n   int
	}
	var st []frame
	for _, t := range toks {
		d, isDelim := t.(json.Delim)
		closing := isDelim && (d == '}' || d == ']')
		if !closing {
			if len(st) > 0 {
				f := &st[len(st)-1]
				if f.obj && f.n%2 == 1 {
					sb.WriteByte(':')
				} else if f.n > 0 {
					sb.WriteByte(',')
				}
				f.n++
			} else if sb.Len() > 0 {
				sb.WriteByte(' ')
			}
		}
		switch x := t.(type) {
		case json.Delim:
			sb.WriteByte(byte(x))
			switch x {
			case '{':
				st = append(st, frame{obj: true})
			case '[':
				st = append(st, frame{})
			default:
				st = st[:len(st)-1]
			}
		case string:
			sb.WriteString(strconv.Quote(x))
		case float64:
			sb.WriteString(strconv.FormatFloat(x, 'g', -1, 64))
		case bool:
			if x {
				sb.WriteString("true")
			} else {
				sb.WriteString("false")
			}
		default:
			sb.WriteString("null")
		}
	}
	return sb.String()
}

func vC19mTokens(n *vC19N, out []json.Token) []json.Token {
	switch n.kind {
	case vjNull:
		return append(out, nil)
	case vjBool:
		return append(out, n.b)
	case vjStr:
		return append(out, n.s)
	case vjNum:
		return append(out, n.f)
	case vjArr:
		out = append(out, json.Delim('['))
		for _, k := range n.kids {
			out = vC19mTokens(k, out)
		}
		return append(out, json.Delim(']'))
	case vjObj:
		out = append(out, json.Delim('{'))
		for i, k := range n.kids {
			out = append(out, n.keys[i])
			out = vC19mTokens(k, out)
		}
		return append(out, json.Delim('}'))
	}
	panic("vC19mTokens: kind")
}

// structural equality of a goja value with a tree; objects must be plain (all-true data properties, own keys in
// the given order, %Object.prototype%), arrays dense except for holes
func vC19mSame(r *Runtime, n *vC19N, v Value) bool {
	switch n.kind {
	case vjUndef:
		return v == _undefined
	case vjNull:
		return v == _null
	case vjBool:
		b, ok := v.(valueBool)
		return ok && bool(b) == n.b
	case vjInt:
		i, ok := v.(valueInt)
		return ok && int64(i) == n.i
	case vjStr:
		s, ok := v.(String)
		return ok && s.String() == n.s
	case vjNum:
		if v == nil || !refCanonicalNumber(v) {
			return false
		}
		return vSameNumberValue(v.ToFloat(), n.f)
	case vjObj:
		o, ok := v.(*Object)
		if !ok {
			return false
		}
		bo, ok := o.self.(*baseObject)
		if !ok || bo.prototype != r.global.ObjectPrototype || !bo.extensible {
			return false
		}
		keys := bo.stringKeys(true, nil)
		if len(keys) != len(n.keys) {
			return false
		}
		for i, k := range keys {
			if k.String() != n.keys[i] {
				return false
			}
			pv := bo.getOwnPropStr(vC19mKey(n.keys[i]))
			if pv == nil {
				return false
			}
			if _, isProp := pv.(*valueProperty); isProp {
				return false
			}
			if !vC19mSame(r, n.kids[i], pv) {
				return false
			}
		}
		return true
	case vjArr:
		o, ok := v.(*Object)
		if !ok {
			return false
		}
		a, ok := o.self.(*arrayObject)
		if !ok || int(a.length) != len(n.kids) || len(a.values) != len(n.kids) {
			return false
		}
		for i, k := range n.kids {
			if k.kind == vjHole {
				if a.values[i] != nil {
					return false
				}
				continue
			}
			if a.values[i] == nil || !vC19mSame(r, k, a.values[i]) {
				return false
			}
		}
		return true
	}
	return false
}

// shallow description of a value at the time of a reviver call
type vC19mDesc struct {
	kind int
	n    int
	i    int64
	f    float64
}

func vC19mDescNode(n *vC19N) vC19mDesc {
	switch n.kind {
	case vjObj:
		return vC19mDesc{kind: vjObj, n: len(n.keys)}
	case vjArr:
		return vC19mDesc{kind: vjArr, n: len(n.kids)}
	case vjInt:
		return vC19mDesc{kind: vjNum, f: float64(n.i)}
	case vjNum:
		return vC19mDesc{kind: vjNum, f: n.f}
	case vjBool:
		if n.b {
			return vC19mDesc{kind: vjBool, n: 1}
		}
	case vjHole:
		return vC19mDesc{kind: vjUndef}
	}
	return vC19mDesc{kind: n.kind}
}

func vC19mDescValue(v Value) vC19mDesc {
	switch x := v.(type) {
	case *Object:
		if a, ok := x.self.(*arrayObject); ok {
			return vC19mDesc{kind: vjArr, n: int(a.length)}
		}
		return vC19mDesc{kind: vjObj, n: len(x.self.stringKeys(true, nil))}
	case valueInt:
		return vC19mDesc{kind: vjNum, f: float64(x)}
	case valueFloat:
		return vC19mDesc{kind: vjNum, f: float64(x)}
	case valueBool:
		if x {
			return vC19mDesc{kind: vjBool, n: 1}
		}
		return vC19mDesc{kind: vjBool}
	case String:
		return vC19mDesc{kind: vjStr}
	}
	if v == _null {
		return vC19mDesc{kind: vjNull}
	}
	return vC19mDesc{kind: vjUndef}
}

func vC19mDescEq(a, b vC19mDesc) bool {
	return a.kind == b.kind && a.n == b.n && vSameNumberValue(a.f, b.f)
}

type vC19mRevEvent struct {
	key       string
	this, val vC19mDesc
}

const (
	vrvIdentity = iota
	vrvDropB        // "b" -> undefined (object member deleted)
	vrvDrop0        // "0" -> undefined (array element deleted)
	vrvReplace1     // "1" -> 9
	vrvDeleteLater  // at "0": delete this[1]
	vrvAddSibling   // at "a": this.z = 5 (not visited: the key list is a snapshot)
	vrvNumModes
)

type vC19mRev struct {
	mode int
	log  []vC19mRevEvent
}

func vC19mDelKey(n *vC19N, key string) {
	for i, k := range n.keys {
		if k == key {
			n.keys = append(append([]string{}, n.keys[:i]...), n.keys[i+1:]...)
			n.kids = append(append([]*vC19N{}, n.kids[:i]...), n.kids[i+1:]...)
			return
		}
	}
}

func vC19mSetKey(n *vC19N, key string, v *vC19N) {
	for i, k := range n.keys {
		if k == key {
			n.kids[i] = v
			return
		}
	}
	n.keys = append(n.keys, key)
	n.kids = append(n.kids, v)
}

// InternalizeJSONProperty (25.5.1.1)
func (st *vC19mRev) walk(holder *vC19N, name string) *vC19N {
	val := vC19mGet(holder, name)
	if val.kind == vjArr {
		l := len(val.kids)
		for i := 0; i < l; i++ {
			ne := st.walk(val, strconv.Itoa(i))
			if ne.kind == vjUndef {
				val.kids[i] = &vC19N{kind: vjHole}
			} else {
				val.kids[i] = ne
			}
		}
	} else if val.kind == vjObj {
		keys := append([]string{}, val.keys...)
		for _, k := range keys {
			ne := st.walk(val, k)
			if ne.kind == vjUndef {
				vC19mDelKey(val, k)
			} else {
				vC19mSetKey(val, k, ne)
			}
		}
	}
	st.log = append(st.log, vC19mRevEvent{key: name, this: vC19mDescNode(holder), val: vC19mDescNode(val)})
	switch st.mode {
	case vrvDropB:
		if name == "b" {
			return vC19mUndef()
		}
	case vrvDrop0:
		if name == "0" {
			return vC19mUndef()
		}
	case vrvReplace1:
		if name == "1" {
			return vC19mInt(9)
		}
	case vrvDeleteLater:
		if name == "0" && holder.kind == vjArr && len(holder.kids) > 1 {
			holder.kids[1] = &vC19N{kind: vjHole}
		}
	case vrvAddSibling:
		if name == "a" {
			vC19mSetKey(holder, "z", vC19mInt(5))
		}
	}
	return val
}

func vC19mNumber(name string) *vC19N {
	f := vNondetFloat64(name)
	vAssume(f-f == 0) // finite: the only doubles the decoder produces
	return &vC19N{kind: vjNum, f: f}
}

func H_C19_parse() {
	r := vRuntime()
	var toks []json.Token
	var want *vC19N
	wantSyntaxError := false
	reviverArg := -1 // -1: argument absent
	rev := &vC19mRev{}
	useReviver := false
	knownNull := false
	num := func(f float64) *vC19N { return &vC19N{kind: vjNum, f: f} }
	switch vChoice("scenario", 4) {
	case 0: // a Number: floatToValue of the decoder's double
		want = vC19mNumber("f")
		toks = vC19mTokens(want, nil)
	case 1:
		switch vChoice("scalar", 4) {
		case 0:
			want = vC19mStr("x")
		case 1:
			want = &vC19N{kind: vjBool, b: true}
		case 2:
			want = &vC19N{kind: vjBool}
		default:
			want = &vC19N{kind: vjNull}
		}
		toks = vC19mTokens(want, nil)
	case 2: // three members with keys from {a, b, __proto__, 1}: duplicates (last value wins, first position
		// kept), __proto__ an ordinary own property, integer keys first
		names := []string{"a", "b", "__proto__", "1"}
		want = vC19mObj(nil, nil)
		toks = append(toks, json.Delim('{'))
		for i := 0; i < 3; i++ {
			k := names[vChoice("key", 4)]
			v := num(float64(i + 1))
			toks = append(toks, k, v.f)
			vC19mSetKey(want, k, v)
		}
		toks = append(toks, json.Delim('}'))
		for i, k := range want.keys { // OrdinaryOwnPropertyKeys: array indices first
			if k == "1" && i > 0 {
				kid := want.kids[i]
				vC19mDelKey(want, "1")
				want.keys = append([]string{"1"}, want.keys...)
				want.kids = append([]*vC19N{kid}, want.kids...)
				break
			}
		}
	default:
		// {"a":[f,{"b":null}],"c":[]}
		sc := vChoice("scenario3", 3)
		inner := vC19mObj([]string{"b"}, []*vC19N{{kind: vjNull}})
		arr := vC19mArr(num(1.5), inner) // arbitrary doubles: scenario 0
		want = vC19mObj([]string{"a", "c"}, []*vC19N{arr, vC19mArr()})
		toks = vC19mTokens(want, nil)
		switch sc {
		case 0: // with a reviver argument
			switch k := vChoice("reviver", vrvNumModes+4); {
			case k < vrvNumModes:
				rev.mode = k
				useReviver = true
				reviverArg = 0
			case k == vrvNumModes:
				reviverArg = 1 // explicit undefined
			case k == vrvNumModes+1:
				reviverArg = 2 // an object that is not callable
			case k == vrvNumModes+2:
				reviverArg = 3 // null: not callable, ignored
				knownNull = true
			default:
				reviverArg = -1
			}
		case 1: // input ends early
			cut := vChoice("cut", len(toks))
			toks = toks[:cut]
			wantSyntaxError = true
		default: // a second value after the first
			toks = append(toks, float64(1))
			wantSyntaxError = true
		}
	}
	text := "0"
	if !vSymbolic() {
		text = vC19mRender(toks)
	}
	vC19mToks, vC19mTokPos = toks, 0

	var realLog []vC19mRevEvent
	args := []Value{asciiString(text)}
	switch reviverArg {
	case 0:
		args = append(args, vC18mFunc(r, func(call FunctionCall) Value {
			name := call.Argument(0)
			val := call.Argument(1)
			ev := vC19mRevEvent{key: "<not a string>", this: vC19mDescValue(call.This), val: vC19mDescValue(val)}
			if s, ok := name.(String); ok && len(call.Arguments) == 2 {
				ev.key = s.String()
			}
			realLog = append(realLog, ev)
			this, _ := call.This.(*Object)
			switch rev.mode {
			case vrvDropB:
				if ev.key == "b" {
					return _undefined
				}
			case vrvDrop0:
				if ev.key == "0" {
					return _undefined
				}
			case vrvReplace1:
				if ev.key == "1" {
					return valueInt(9)
				}
			case vrvDeleteLater:
				if ev.key == "0" && this != nil {
					if _, isArr := this.self.(*arrayObject); isArr {
						this.self.deleteIdx(valueInt(1), false)
					}
				}
			case vrvAddSibling:
				if ev.key == "a" && this != nil {
					this.self.setOwnStr("z", valueInt(5), false)
				}
			}
			return val
		}))
	case 1:
		args = append(args, _undefined)
	case 2:
		args = append(args, r.NewObject())
	case 3:
		args = append(args, _null)
	}
	var res Value
	out := vCatch(func() { res = r.builtinJSON_parse(FunctionCall{This: _undefined, Arguments: args}) })
	if wantSyntaxError {
		vAssert("parse:incomplete-or-trailing-input-is-SyntaxError", out.panicked && out.kind == "SyntaxError")
		return
	}
	vAssertK("parse:no-throw", !out.panicked, knownNull, "F-C19-parse-null-reviver-throws")
	if out.panicked {
		return
	}
	if useReviver {
		wrapper := vC19mObj([]string{""}, []*vC19N{want})
		want = rev.walk(wrapper, "")
		same := len(realLog) == len(rev.log)
		if same {
			for i := range realLog {
				if realLog[i].key != rev.log[i].key || !vC19mDescEq(realLog[i].this, rev.log[i].this) || !vC19mDescEq(realLog[i].val, rev.log[i].val) {
					same = false
				}
			}
		}
		vAssert("parse:reviver-calls==InternalizeJSONProperty-post-order(this=holder,key,value)", same)
	}
	vAssert("parse:value==ECMAScript-value-of-the-text", res != nil && vC19mSame(r, want, res))
	vAssert("parse:all-tokens-consumed", !vSymbolic() || vC19mTokPos == len(toks))
}
