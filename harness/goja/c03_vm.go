package goja

import "errors"

// ---------------------------------------------------------------------
// VM group (C03 / C08 / C14 / C15): one unwinding step of the real vm.handleThrow from an arbitrary
// VM state that satisfies the representation invariant of the four stacks.

const (
	vpValue       = iota // a primitive JS value
	vpObject             // an *Object
	vpException          // an *Exception (already wrapped)
	vpTypeError          // the internal typeError string payload
	vpInterrupt          // *InterruptedError (uncatchable)
	vpStackOvf           // *StackOverflowError (uncatchable)
	vpForeign            // a non-goja Go panic value
	vpNumPayloads
)

const (
	vfSpent   = iota // catchPos == -1 && finallyPos == -1
	vfCatch          // catch only
	vfFinally        // finally only
	vfBoth           // catch + finally
	vfMarker         // Go-boundary marker (vm.try / runTry)
	vfNumKinds
)

type vIterEvent struct {
	idx int // index in the original iterStack
}

type vVMWorld struct {
	r         *Runtime
	vm        *vm
	k, m, j   int // lengths of callStack, tryStack, iterStack
	nref      int
	kinds     []int
	frames    []tryFrame // snapshot of the try stack before the throw
	ctxs      []context  // snapshot of the call stack
	iters     []*iteratorRecord
	iterLive  []bool
	iterThrow []int // behaviour of return(): 0 returns, 1 throws a JS value, 2 hits the pending interrupt
	events    []vIterEvent
	stashes   [3]*stash
	payload   int
	arg       interface{}
	thrownVal Value
	origEx    *Exception
	foreign   error
	sp0       int
}

var vCurWorld *vVMWorld

// symbolic-mode replacement of (*iteratorRecord).returnIter: log, then behave as chosen
func vStubReturnIter(ir *iteratorRecord) {
	w := vCurWorld
	if ir.iterator == nil {
		return
	}
	which := -1
	for i, x := range w.iters {
		if x == ir {
			which = i
		}
	}
	w.events = append(w.events, vIterEvent{which})
	beh := 0
	if which >= 0 {
		beh = w.iterThrow[which]
	}
	ir.iterator = nil
	ir.next = nil
	switch beh {
	case 1:
		panic(valueInt(7000 + which))
	case 2:
		panic(&InterruptedError{iface: "pending"})
	}
}

func vStubCaptureStack(m *vm, stack []StackFrame, ctxOffset int) []StackFrame { return stack }

func vNewVMWorld(payloadBase, payloadN int, uncatchable bool) *vVMWorld {
	w := &vVMWorld{r: vRuntime()}
	vCurWorld = w
	m := &vm{r: w.r}
	w.vm = m
	w.r.vm = m
	m.maxCallStackSize = 1 << 30
	// operand stack: 4 slots, sp = 2
	m.stack = make(valueStack, 4)
	for i := range m.stack {
		m.stack[i] = valueInt(100 + i)
	}
	m.sp = 2
	w.sp0 = m.sp
	m.sb = vNondetInt("sb")
	m.pc = vNondetInt("pc")
	m.args = vNondetInt("args")
	m.stash = &stash{}
	// call stack: 0..K contexts with arbitrary saved registers
	k := vChoice("callStackLen", vBound("K")+1)
	w.k = k
	for i := 0; i < k; i++ {
		c := context{pc: vNondetInt("ctx.pc"), sb: vNondetInt("ctx.sb"), args: vNondetInt("ctx.args"), stash: &stash{},
			prg: &Program{}, result: valueInt(500 + i), newTarget: valueInt(600 + i)}
		m.callStack = append(m.callStack, c)
	}
	w.ctxs = append([]context{}, m.callStack...)
	// iterator stack: 0..J open iterators, each with its own return() behaviour
	j := vChoice("iterStackLen", vBound("J")+1)
	w.j = j
	for i := 0; i < j; i++ {
		// catchable runs: return() returns or throws a JS value; uncatchable runs: return() would hit
		// the still-pending interrupt as soon as it executes an instruction
		beh := 2
		if !uncatchable {
			beh = vChoice("iter.returnBehaviour", 2)
		}
		ir := vMakeIter(w, i, beh)
		w.iters = append(w.iters, ir)
		w.iterLive = append(w.iterLive, true)
		w.iterThrow = append(w.iterThrow, beh)
		m.iterStack = append(m.iterStack, iterStackItem{iter: ir})
	}
	// ref stack: one pending reference
	w.nref = 1
	m.refStack = append(m.refStack, &unresolvedRef{runtime: w.r, name: "x"})
	// try stack under the representation invariant: snapshots are monotone along the stack and not
	// above the current levels. The snapshot values stay symbolic (only the frame that is actually
	// used gets its values decided).
	nt := vChoice("tryStackLen", vBound("M")+1)
	w.m = nt
	var prevC, prevI, prevR uint32
	var prevSp int32
	for i := 0; i < nt; i++ {
		kind := vChoice("try.kind", vfNumKinds)
		cl := vNondetUint32("try.callStackLen")
		vAssume(cl >= prevC)
		vAssume(cl <= uint32(k))
		il := vNondetUint32("try.iterLen")
		vAssume(il >= prevI)
		vAssume(il <= uint32(j))
		rl := vNondetUint32("try.refLen")
		vAssume(rl >= prevR)
		vAssume(rl <= 1)
		fsp := vNondetInt32("try.sp")
		vAssume(fsp >= prevSp)
		vAssume(fsp <= int32(m.sp))
		prevC, prevI, prevR, prevSp = cl, il, rl, fsp
		tf := tryFrame{callStackLen: cl, iterLen: il, refLen: rl, sp: fsp, stash: &stash{}, finallyRet: -1}
		switch kind {
		case vfSpent:
			tf.catchPos, tf.finallyPos = -1, -1
		case vfCatch:
			tf.catchPos, tf.finallyPos = 10+int32(i), -1
		case vfFinally:
			tf.catchPos, tf.finallyPos = -1, 20+int32(i)
		case vfBoth:
			tf.catchPos, tf.finallyPos = 10+int32(i), 20+int32(i)
		default:
			tf.catchPos, tf.finallyPos = tryPanicMarker, -1
		}
		w.kinds = append(w.kinds, kind)
		m.tryStack = append(m.tryStack, tf)
	}
	w.frames = append([]tryFrame{}, m.tryStack...)
	// payload
	p := payloadBase + vChoice("payload", payloadN)
	w.payload = p
	switch p {
	case vpValue:
		w.thrownVal = valueInt(vNondetInt64("thrown"))
		w.arg = w.thrownVal
	case vpObject:
		o := &Object{runtime: w.r}
		w.thrownVal = o
		w.arg = o
	case vpException:
		w.thrownVal = valueInt(42)
		w.origEx = &Exception{val: w.thrownVal}
		w.arg = w.origEx
	case vpTypeError:
		w.arg = typeError("boom")
	case vpInterrupt:
		w.arg = &InterruptedError{iface: "stop"}
	case vpStackOvf:
		w.arg = &StackOverflowError{}
	default:
		w.foreign = errors.New("foreign")
		w.arg = w.foreign
	}
	return w
}

// vMakeIter: symbolically a marker record whose returnIter is stubbed; natively a real JS object with a
// `return` method doing the same thing.
func vMakeIter(w *vVMWorld, idx int, beh int) *iteratorRecord {
	if vSymbolic() {
		return &iteratorRecord{iterator: &Object{runtime: w.r}}
	}
	o := w.r.NewObject()
	ir := &iteratorRecord{iterator: o}
	o.Set("return", func(FunctionCall) Value {
		w.events = append(w.events, vIterEvent{idx})
		switch beh {
		case 1:
			panic(valueInt(7000 + idx))
		case 2:
			panic(&InterruptedError{iface: "pending"})
		}
		return w.r.NewObject()
	})
	return ir
}

func (w *vVMWorld) catchable() bool { return w.payload <= vpTypeError }

// refTarget: index of the try frame that receives control (-1: none)
func (w *vVMWorld) refTarget() int {
	for i := w.m - 1; i >= 0; i-- {
		kd := w.kinds[i]
		if kd == vfSpent {
			continue
		}
		if !w.catchable() && kd != vfMarker {
			continue
		}
		return i
	}
	return -1
}

type vThrowResult struct {
	ret       *Exception
	panicked  bool
	panicVal  interface{}
}

func (w *vVMWorld) doThrow() (res vThrowResult) {
	defer func() {
		if x := recover(); x != nil {
			if _, isAssume := x.(vAssumeFailedMarker); isAssume {
				panic(x)
			}
			res.panicked = true
			res.panicVal = x
		}
	}()
	res.ret = w.vm.handleThrow(w.arg)
	return
}

// H03.1 / H08.1 / H14.1: catchable payloads
func H_C03_handleThrow_catchable() {
	w := vNewVMWorld(vpValue, 4, false)
	t := w.refTarget()
	res := w.doThrow()
	m := w.vm
	vAssert("no-repanic", !res.panicked)
	if res.panicked {
		return
	}
	if t < 0 {
		// nobody catches: the exception is handed back to the caller; all try frames are gone
		vAssert("uncaught:returned", res.ret != nil)
		vAssert("uncaught:tryStack-empty", len(m.tryStack) == 0)
		w.checkIdentity(res.ret)
		return
	}
	tf := w.frames[t]
	kd := w.kinds[t]
	vAssert("tryStack-len", len(m.tryStack) == t+1)
	vAssert("iterStack-len", len(m.iterStack) == int(tf.iterLen))
	vAssert("refStack-len", len(m.refStack) == int(tf.refLen))
	vAssert("stash", m.stash == tf.stash)
	vAssert("privEnv", m.privEnv == tf.privEnv)
	// call stack: truncated to the frame's depth and the saved context restored
	vAssert("callStack-len", len(m.callStack) == int(tf.callStackLen))
	if int(tf.callStackLen) < w.k {
		c := w.ctxs[tf.callStackLen]
		vAssert("ctx-restored", m.sb == c.sb && m.args == c.args)
		vAssert("ctx-restored:prg-result-newTarget", m.prg == c.prg && m.result == c.result && m.newTarget == c.newTarget)
		if kd == vfMarker {
			vAssert("ctx-pc-restored", m.pc == c.pc)
		}
	}
	// every open iterator above the frame closed exactly once, innermost first
	want := w.j - int(tf.iterLen)
	vAssert("iter-return-count", len(w.events) == want)
	okOrder := true
	for n := 0; n < len(w.events); n++ {
		if w.events[n].idx != w.j-1-n {
			okOrder = false
		}
	}
	vAssert("iter-return-order", okOrder)
	switch kd {
	case vfMarker:
		vAssert("marker:returned", res.ret != nil)
		vAssert("marker:sp", m.sp == int(tf.sp))
		w.checkIdentity(res.ret)
	case vfCatch, vfBoth:
		vAssert("catch:returns-nil", res.ret == nil)
		vAssert("catch:pc", m.pc == int(tf.catchPos))
		vAssert("catch:sp", m.sp == int(tf.sp)+1)
		vAssert("catch:spent", m.tryStack[t].catchPos == -1)
		if m.sp == int(tf.sp)+1 {
			w.checkThrownValue(m.stack[m.sp-1])
		}
	case vfFinally:
		vAssert("finally:returns-nil", res.ret == nil)
		vAssert("finally:pc", m.pc == int(tf.finallyPos))
		vAssert("finally:sp", m.sp == int(tf.sp))
		vAssert("finally:pending-exception", m.tryStack[t].exception != nil)
		if ex := m.tryStack[t].exception; ex != nil {
			w.checkIdentity(ex)
		}
	}
}

// the exception object delivered is the one thrown (C14)
func (w *vVMWorld) checkIdentity(ex *Exception) {
	if ex == nil {
		return
	}
	if w.payload == vpException {
		vAssert("identity:same-exception", ex == w.origEx)
	}
	w.checkThrownValue(ex.val)
}

func (w *vVMWorld) checkThrownValue(v Value) {
	switch w.payload {
	case vpValue, vpException:
		vAssert("identity:value", v == w.thrownVal)
	case vpObject:
		vAssert("identity:object", v == w.thrownVal)
	case vpTypeError:
		o, isObj := v.(*Object)
		vAssert("identity:typeError-object", isObj && vClassify(o) == "TypeError")
	}
}

// H03.1u / H08.1u / H14.1u / H15.2: uncatchable payloads (interrupt, stack overflow, foreign Go panic)
func H_C03_handleThrow_uncatchable() {
	w := vNewVMWorld(vpInterrupt, 3, true)
	t := w.refTarget()
	res := w.doThrow()
	m := w.vm
	// no script code runs while unwinding an uncatchable error: no iterator return() is invoked
	vAssert("unc:no-iter-return", len(w.events) == 0)
	// the very same Go value propagates: never swallowed, never wrapped, never delivered to script
	vAssert("unc:repanics", res.panicked && res.ret == nil)
	if res.panicked {
		vAssert("unc:same-value", res.panicVal == w.arg)
	}
	if t < 0 {
		vAssert("unc:tryStack-empty", len(m.tryStack) == 0)
		return
	}
	tf := w.frames[t]
	vAssert("unc:tryStack-len", len(m.tryStack) == t+1)
	vAssert("unc:marker-untouched", m.tryStack[t].catchPos == tryPanicMarker)
	vAssert("unc:iterStack-len", len(m.iterStack) == int(tf.iterLen))
	vAssert("unc:refStack-len", len(m.refStack) == int(tf.refLen))
	vAssert("unc:callStack-len", len(m.callStack) == int(tf.callStackLen))
	vAssert("unc:sp", m.sp == int(tf.sp))
	vAssert("unc:stash", m.stash == tf.stash)
}
