package goja

// ---------------------------------------------------------------------
// C04 / H04.3 (thin) — arrayObject._setOwnIdx: [[Set]] on an own index of a dense array without prototype
// follows OrdinarySet (10.1.9.2): a hole is an ABSENT property, so a non-extensible array gains no key.

func H_C04_arraySetOwnIdx() {
	r := vRuntime()
	L := vC04Choice("len", 0, vBound("L"))
	ext := vNondetBool("extensible")
	o := &Object{runtime: r}
	a := &arrayObject{}
	a.val = o
	a.class = classArray
	a.extensible = ext
	a.baseObject.init()
	a.lengthProp.writable = true
	o.self = a
	a.values = make([]Value, L)
	a.length = uint32(L)
	// slot states: 0 hole, 1 plain value, 2 data property record with symbolic writable
	state := make([]int, L)
	writable := make([]bool, L)
	recs := make([]*valueProperty, L)
	for i := 0; i < L; i++ {
		state[i] = vC04Choice("slot", 0, 2)
		switch state[i] {
		case 1:
			a.values[i] = valueInt(100 + int64(i))
			a.objCount++
		case 2:
			writable[i] = vNondetBool("slot.writable")
			recs[i] = &valueProperty{value: valueInt(100 + int64(i)), writable: writable[i], enumerable: true, configurable: vNondetBool("slot.configurable")}
			a.values[i] = recs[i]
			a.objCount++
			a.propValueCount++
		}
	}
	idx := vC04Choice("idx", 0, L) // L = first index past the storage
	throw := vNondetBool("throw")
	// growth of an extensible array is C07's business (setLength / expand / sparse conversion)
	vAssume(!ext || idx < L)
	val := valueInt(7)
	objCount0 := a.objCount

	var res bool
	out := vCatch(func() { res = a._setOwnIdx(uint32(idx), val, throw) })

	st, wr := 0, false
	if idx < L {
		st, wr = state[idx], writable[idx]
	}
	// OrdinarySet with ownDesc: absent -> CreateDataProperty on the receiver (needs extensible); data -> writable?
	absent := st == 0
	expectOK := refC04SetOK(absent, st == 2, wr, ext)
	vAssert("arraySet:only-TypeError", refImp(out.panicked, out.kind == "TypeError"))
	vAssert("arraySet:throws<=>rejected-and-throw", out.panicked == refAnd(!expectOK, throw))
	vAssert("arraySet:result==OrdinarySet", refOr(out.panicked, res == expectOK))
	// state afterwards
	vAssert("arraySet:storage-length-unchanged", len(a.values) == L && a.length == uint32(L))
	var slot Value
	if idx < L {
		slot = a.values[idx]
	}
	if !expectOK {
		vAssert("inv:non-extensible-array-gains-no-key", refImp(absent, slot == nil && a.objCount == objCount0))
		if st == 2 {
			vAssert("inv:nonwritable-element-keeps-value", slot == Value(recs[idx]) && recs[idx].value == valueInt(100+int64(idx)))
		}
	} else {
		switch st {
		case 0:
			vAssert("arraySet:hole-filled", slot == val && a.objCount == objCount0+1)
		case 1:
			vAssert("arraySet:value-replaced", slot == val && a.objCount == objCount0)
		case 2:
			vAssert("arraySet:record-updated", slot == Value(recs[idx]) && recs[idx].value == val)
		}
	}
}

func refC04SetOK(absent, isRecord, writable, ext bool) bool {
	if absent {
		return ext
	}
	if isRecord {
		return writable
	}
	return true
}
