package goja

import (
	"math"

	"github.com/dop251/goja/ast"
)

// ---------------------------------------------------------------------
// C02 (bounded sub-claim): "compiler choices are invisible" for a catalogue of program templates whose
// numeric literals are symbolic. Each template group lists programs that differ only by a rewrite from
// the property's catalogue (constant operand vs variable, plain local vs global/lexical/closure-captured
// variable, expression vs statement position, wrapped in a block or function, unreachable code added).
// The real parser runs on the template text, the marker literals 1001/1002/1003 are replaced in the AST
// by arbitrary Numbers, the real compiler (constant folding through its scratch VM, dead-branch
// elimination in dummy mode, scope allocation) runs over the symbolic literals - forking where it takes
// a decision on them - and the real VM executes the result. All programs of a group must end the same
// way: same completion value or same kind of exception.

func vC02Runtime() *Runtime {
	if !vSymbolic() {
		return New()
	}
	r := &Runtime{}
	g := &Object{runtime: r}
	bo := &baseObject{class: classObject, val: g, extensible: true}
	bo.init()
	g.self = bo
	r.globalObject = g
	bo._putProp("undefined", _undefined, false, false, false)
	bo._putProp("NaN", _NaN, false, false, false)
	bo._putProp("Infinity", _positiveInf, false, false, false)
	fp := &Object{runtime: r}
	fbo := &baseObject{class: classObject, val: fp, extensible: true}
	fbo.init()
	fp.self = fbo
	r.global.FunctionPrototype = fp
	r.global.ObjectPrototype = fp
	ev := &Object{runtime: r}
	ebo := &baseObject{class: classFunction, val: ev, extensible: true}
	ebo.init()
	ev.self = ebo
	r.global.Eval = ev // direct eval is recognised by identity of the callee (vm.callEval)
	bo._putProp("eval", ev, true, false, true)
	r.vm = &vm{r: r}
	r.vm.init()
	return r
}

// replaces New() inside compiler.evalConst (symbolic mode only)
func vStubC02New() *Runtime { return vC02Runtime() }

type vC02Vals map[int64]interface{}

// number of marker literals replaced in the current program (checked against the template text, so that a
// node kind the walker does not visit cannot silently leave a marker in place)
var vC02Patched int

func (m vC02Vals) expr(e ast.Expression) {
	switch x := e.(type) {
	case nil:
	case *ast.NumberLiteral:
		if k, ok := x.Value.(int64); ok {
			if v, ok := m[k]; ok {
				x.Value = v
				vC02Patched++
			}
		}
	case *ast.BinaryExpression:
		m.expr(x.Left)
		m.expr(x.Right)
	case *ast.UnaryExpression:
		m.expr(x.Operand)
	case *ast.ConditionalExpression:
		m.expr(x.Test)
		m.expr(x.Consequent)
		m.expr(x.Alternate)
	case *ast.AssignExpression:
		m.expr(x.Left)
		m.expr(x.Right)
	case *ast.SequenceExpression:
		for _, s := range x.Sequence {
			m.expr(s)
		}
	case *ast.CallExpression:
		m.expr(x.Callee)
		for _, a := range x.ArgumentList {
			m.expr(a)
		}
	case *ast.FunctionLiteral:
		if x.ParameterList != nil {
			for _, b := range x.ParameterList.List {
				m.binding(b)
			}
		}
		m.stmt(x.Body)
	case *ast.ObjectLiteral:
		for _, p := range x.Value {
			m.expr(p)
		}
	case *ast.ObjectPattern:
		for _, p := range x.Properties {
			m.expr(p)
		}
		m.expr(x.Rest)
	case *ast.ArrayPattern:
		for _, el := range x.Elements {
			m.expr(el)
		}
		m.expr(x.Rest)
	case *ast.PropertyKeyed:
		m.expr(x.Key)
		m.expr(x.Value)
	case *ast.PropertyShort:
		m.expr(x.Initializer)
	case *ast.ArrayLiteral:
		for _, el := range x.Value {
			m.expr(el)
		}
	case *ast.DotExpression:
		m.expr(x.Left)
	case *ast.BracketExpression:
		m.expr(x.Left)
		m.expr(x.Member)
	case *ast.NewExpression:
		m.expr(x.Callee)
		for _, a := range x.ArgumentList {
			m.expr(a)
		}
	case *ast.SpreadElement:
		m.expr(x.Expression)
	case *ast.ArrowFunctionLiteral:
		if x.ParameterList != nil {
			for _, b := range x.ParameterList.List {
				m.binding(b)
			}
		}
		switch b := x.Body.(type) {
		case *ast.ExpressionBody:
			m.expr(b.Expression)
		case *ast.BlockStatement:
			m.stmt(b)
		}
	}
}

func (m vC02Vals) binding(b *ast.Binding) {
	if b == nil {
		return
	}
	m.expr(b.Target)
	m.expr(b.Initializer)
}

func (m vC02Vals) stmts(l []ast.Statement) {
	for _, s := range l {
		m.stmt(s)
	}
}

func (m vC02Vals) stmt(s ast.Statement) {
	switch x := s.(type) {
	case nil:
	case *ast.ExpressionStatement:
		m.expr(x.Expression)
	case *ast.VariableStatement:
		for _, b := range x.List {
			m.binding(b)
		}
	case *ast.LexicalDeclaration:
		for _, b := range x.List {
			m.binding(b)
		}
	case *ast.BlockStatement:
		if x != nil {
			m.stmts(x.List)
		}
	case *ast.IfStatement:
		m.expr(x.Test)
		m.stmt(x.Consequent)
		m.stmt(x.Alternate)
	case *ast.WhileStatement:
		m.expr(x.Test)
		m.stmt(x.Body)
	case *ast.DoWhileStatement:
		m.expr(x.Test)
		m.stmt(x.Body)
	case *ast.WithStatement:
		m.expr(x.Object)
		m.stmt(x.Body)
	case *ast.ForStatement:
		switch in := x.Initializer.(type) {
		case *ast.ForLoopInitializerExpression:
			m.expr(in.Expression)
		case *ast.ForLoopInitializerVarDeclList:
			for _, b := range in.List {
				m.binding(b)
			}
		case *ast.ForLoopInitializerLexicalDecl:
			for _, b := range in.LexicalDeclaration.List {
				m.binding(b)
			}
		}
		m.expr(x.Test)
		m.expr(x.Update)
		m.stmt(x.Body)
	case *ast.ReturnStatement:
		m.expr(x.Argument)
	case *ast.ThrowStatement:
		m.expr(x.Argument)
	case *ast.FunctionDeclaration:
		m.expr(x.Function)
	case *ast.LabelledStatement:
		m.stmt(x.Statement)
	case *ast.TryStatement:
		m.stmt(x.Body)
		if x.Catch != nil {
			m.stmt(x.Catch.Body)
		}
		if x.Finally != nil {
			m.stmt(x.Finally)
		}
	case *ast.SwitchStatement:
		m.expr(x.Discriminant)
		for _, c := range x.Body {
			m.expr(c.Test)
			m.stmts(c.Consequent)
		}
	}
}

func vC02CountMarkers(src string, vals vC02Vals) int {
	n := 0
	for i := 0; i+4 <= len(src); i++ {
		if src[i] == '1' && src[i+1] == '0' && src[i+2] == '0' && src[i+3] >= '1' && src[i+3] <= '3' {
			if _, ok := vals[1000+int64(src[i+3]-'0')]; ok {
				n++
			}
		}
	}
	return n
}

type vC02Out struct {
	threw bool
	kind  string
	val   Value
}

func vC02Run(src string, vals vC02Vals) (out vC02Out) {
	prg, err := Parse("t.js", src)
	if err != nil {
		panic("template does not parse: " + src)
	}
	vC02Patched = 0
	vals.stmts(prg.Body)
	if vC02Patched != vC02CountMarkers(src, vals) {
		panic("template walker missed a marker literal: " + src)
	}
	p, err := compileAST(prg, false, true, nil)
	if err != nil {
		out.threw, out.kind = true, "CompileError"
		return
	}
	r := vC02Runtime()
	v, err := r.RunProgram(p)
	if err != nil {
		out.threw = true
		if ex, ok := err.(*Exception); ok {
			out.kind = vClassify(ex.val)
			if out.kind == "JSValue" || out.kind == "" {
				out.val = ex.val
			}
		} else {
			out.kind = "uncatchable"
		}
		return
	}
	out.val = v
	return
}

func vC02NumBits(v Value) uint64 {
	b := vNumberBits(v)
	if b&^(1<<63) > 0x7ff0000000000000 {
		return 0x7ff8000000000001
	}
	return b
}

func vC02SameValue(a, b Value) bool {
	switch x := a.(type) {
	case nil:
		return b == nil
	case valueInt:
		switch y := b.(type) {
		case valueInt:
			return x == y
		case valueFloat:
			return vC02NumBits(x) == vC02NumBits(y)
		}
		return false
	case valueFloat:
		switch y := b.(type) {
		case valueFloat:
			xb, yb := math.Float64bits(float64(x)), math.Float64bits(float64(y))
			return xb == yb || (xb&^(1<<63) > 0x7ff0000000000000 && yb&^(1<<63) > 0x7ff0000000000000)
		case valueInt:
			return vC02NumBits(x) == vC02NumBits(y)
		}
		return false
	case String:
		y, ok := b.(String)
		return ok && x.SameAs(y)
	}
	return a == b
}

func vC02Same(a, b vC02Out) bool {
	if a.threw != b.threw || a.kind != b.kind {
		return false
	}
	return vC02SameValue(a.val, b.val)
}

func vC02Number(name string) interface{} {
	v := vNumber(name)
	if i, ok := v.(valueInt); ok {
		return int64(i)
	}
	return float64(v.(valueFloat))
}

var _ = math.Float64bits

// group: programs that must be indistinguishable
// nsym of the marker literals 1001, 1002, 1003 are arbitrary Numbers; the others keep their marker value
func vC02GroupN(id string, progs []string, nsym int) { vC02GroupT(id, progs, nsym, false) }

func vC02GroupT(id string, progs []string, nsym int, expectThrow bool) {
	vals := vC02Vals{1001: vC02Number("A")}
	if nsym >= 2 {
		vals[1002] = vC02Number("B")
	}
	if nsym >= 3 {
		vals[1003] = vC02Number("C")
	}
	base := vC02Run(progs[0], vals)
	// sanity (guards against a vacuous comparison of failures): the base program compiles, and it throws
	// only in the groups that are about throwing
	vAssert(id+":base-compiles", base.kind != "CompileError")
	vAssert(id+":base-throws-iff-expected", base.threw == expectThrow)
	for k := 1; k < len(progs); k++ {
		o := vC02Run(progs[k], vals)
		vAssert(id+":same-outcome-as-base", vC02Same(base, o))
	}
}

var vC02BinOps = []string{"<", "+", "===", "&", "<=", "==", "!=", "|", "^", "<<", ">>", ">>>", "-", "*", "/", "%"}

func H_C02_binary_const_vs_var() {
	op := vC02BinOps[vBound("OP0")+vChoice("op", vBound("OPS"))]
	vC02GroupN("binary", []string{
		"1001 " + op + " 1002",
		"var x = 1001; x " + op + " 1002",
		"{ let x = 1001; x " + op + " 1002 }",
		"(function(a){ return a " + op + " 1002 })(1001)",
		"(function(){ var b = 1002; return (function(){ return 1001 " + op + " b })() })()",
	}, 2)
}

// expression templates over a, b, c; each is tried with literals, globals, parameters, block-scoped
// lexicals, closure-captured variables and in statement position
var vC02Exprs = []string{
	"a ? b : c", "a && b", "a || b", "a ?? b", "!a", "-a", "+a", "~a", "typeof a", "void a", "(a, b)",
	"a ? (b ? 1 : 2) : (c ? 3 : 4)", "(a && b) || c", "a || (b && c)", "!a ? b : c", "typeof (a ? b : void 0)",
	"-a < b ? a : -c", "(a ?? b) === a",
}

// how many of a, b, c are arbitrary in each expression template (the rest are the fixed markers)
var vC02ExprSyms = []int{1, 1, 1, 1, 1, 1, 1, 1, 1, 1, 1, 2, 2, 2, 1, 1, 2, 1}

func vC02Subst(tmpl string, a, b, c string) string {
	out := make([]byte, 0, len(tmpl)+16)
	for i := 0; i < len(tmpl); i++ {
		ch := tmpl[i]
		prevIdent := i > 0 && (tmpl[i-1] >= 'a' && tmpl[i-1] <= 'z')
		nextIdent := i+1 < len(tmpl) && (tmpl[i+1] >= 'a' && tmpl[i+1] <= 'z')
		if !prevIdent && !nextIdent {
			switch ch {
			case 'a':
				out = append(out, a...)
				continue
			case 'b':
				out = append(out, b...)
				continue
			case 'c':
				out = append(out, c...)
				continue
			}
		}
		out = append(out, ch)
	}
	return string(out)
}

func H_C02_expr_const_vs_var() {
	k := vBound("EXPR0") + vChoice("expr", vBound("EXPRS"))
	strict := ""
	if vChoice("strict", 2) == 1 {
		strict = "'use strict'; "
	}
	e := vC02Exprs[k]
	lit := vC02Subst(e, "1001", "1002", "1003")
	vC02GroupN("expr", []string{
		strict + lit,
		strict + "var a = 1001, b = 1002, c = 1003; " + e,
		strict + "(function(a, b, c){ return " + e + " })(1001, 1002, 1003)",
		strict + "let a = 1001; { let b = 1002; const c = 1003; " + e + " }",
		strict + "var r; r = " + lit + "; r",
		strict + "(function(){ return " + lit + " })()",
		strict + "(function(){ var a = 1001; return (function(b){ var c = 1003; return (function(){ return " + e + " })() })(1002) })()",
		strict + "(() => " + lit + ")()",
		strict + "var a = 1001; " + vC02Subst(e, "a", "1002", "1003"),
	}, vC02ExprSyms[k])
}

// statement templates: constant tests (dead-branch elimination in dummy mode), completion values,
// declarations hoisted out of eliminated code, unreachable code
var vC02Stmts = [][]string{
	{ // if/else on a constant test, assignment in the branches
		"var r = 1; if (1001) { r = 1002 } else { r = 1003 } r",
		"var t = 1001; var r = 1; if (t) { r = 1002 } else { r = 1003 } r",
		"(function(t){ var r = 1; if (t) { r = 1002 } else { r = 1003 } return r })(1001)",
		"var r = 1; r = 1001 ? 1002 : 1003; r",
	},
	{ // completion value of an if statement
		"7; if (1001) { 1002 }",
		"var t = 1001; 7; if (t) { 1002 }",
		"7; if (1001) { 1002 } else { }",
		"7; { if (1001) { 1002 } }",
	},
	{ // completion value with else
		"7; if (1001) 1002; else 1003",
		"let t = 1001; 7; if (t) 1002; else 1003",
		"7; if (!1001) 1003; else 1002",
	},
	{ // var hoisted out of an eliminated branch
		"if (1001) { var v = 1002 } v === undefined ? 5 : v",
		"var t = 1001; if (t) { var v = 1002 } v === undefined ? 5 : v",
		"var v; if (1001) { v = 1002 } v === undefined ? 5 : v",
	},
	{ // while with a constant test
		"var r = 0; while (1001) { r = 1002; break } r",
		"var t = 1001; var r = 0; while (t) { r = 1002; break } r",
		"var r = 0; for (; 1001; ) { r = 1002; break } r",
		"var r = 0; if (1001) { r = 1002 } r",
	},
	{ // do-while, completion value
		"5; do { 1002 } while (false)",
		"var f = false; 5; do { 1002 } while (f)",
		"5; { 1002 }",
	},
	{ // unreachable code added
		"var r = 1001; r",
		"var r = 1001; if (false) { r = 1002; var q = 1 } r",
		"var r = 1001; while (false) { r = 1002 } r",
		"var r = 1001; (function(){ return; r = 1002 })(); r",
		"var r = 1001; false && (r = 1002); r",
		"var r = 1001; true || (r = 1002); r",
	},
	{ // switch on a constant
		"var r = 0; switch (1001) { case 1002: r = 1; break; case 1003: r = 2; break; default: r = 3 } r",
		"var d = 1001; var r = 0; switch (d) { case 1002: r = 1; break; case 1003: r = 2; break; default: r = 3 } r",
		"var r = 0; if (1001 === 1002) r = 1; else if (1001 === 1003) r = 2; else r = 3; r",
	},
	{ // try/finally completion value
		"try { 1001 } finally { 1002 }",
		"var a = 1001, b = 1002; try { a } finally { b }",
		"(function(){ try { return 1001 } finally { 1002 } })()",
	},
	{ // conditional assignment operators and compound expressions in statement position
		"var x = 1001; x ||= 1002; x",
		"var x = 1001; x = x || 1002; x",
		"var x = 1001; if (!x) x = 1002; x",
	},
	{ // TDZ: access before initialisation must throw in every placement
		"{ x; let x = 1001 }",
		"{ (function(){ return x })(); let x = 1001 }",
		"{ let y = x; let x = 1001 }",
	},
}

func H_C02_stmt_const_vs_var() {
	k := vBound("STMT0") + vChoice("stmt", vBound("STMTS"))
	g := vC02Stmts[k]
	if vChoice("strict", 2) == 1 {
		s := make([]string, len(g))
		for i := range g {
			s[i] = "'use strict'; " + g[i]
		}
		g = s
	}
	vC02GroupT("stmt", g, 1, k == len(vC02Stmts)-1)
}

// dynamic scopes: the same variable as a plain local, captured by a closure, visible to a direct eval,
// resolved through eval'd code, or through a with object
var vC02Dyn = [][]string{
	{ // closure-captured vs eval-visible vs plain
		"var a = 1001; (function(){ var b = 1002; return a < b ? a : b })()",
		"var a = 1001; (function(){ var b = 1002; return eval('a < b ? a : b') })()",
		"var a = 1001; (function(){ var b = 1002; eval(''); return a < b ? a : b })()",
		"var a = 1001; (function(){ var b = 1002; return (function(){ return a < b ? a : b })() })()",
		"var a = 1001; (function(){ var b = 1002; return (function(){ return eval('a < b') ? a : b })() })()",
	},
	{ // per-iteration bindings of a for-let loop: closure in the source vs closure made by eval
		"var f; for (let i = 1001; f === undefined; i = 1002) { f = function(){ return i } } f()",
		"var f; for (let i = 1001; f === undefined; i = 1002) { f = eval('(function(){ return i })') } f()",
		"var f; for (let i = 1001; f === undefined; i = 1002) { eval(''); f = function(){ return i } } f()",
		"var f; { let i = 1001; f = function(){ return i } } f()",
	},
	{ // var declared by sloppy direct eval lands in the function's variable environment
		"(function(a){ var v = a; return v })(1001)",
		"(function(a){ eval('var v = a'); return v })(1001)",
		"(function(a){ { eval('var v = a') } return v })(1001)",
		"(function(a){ var v; eval('v = a'); return v })(1001)",
		"(function(a){ eval('var v = a'); return (function(){ return v })() })(1001)",
	},
	{ // with object (sloppy only)
		"var o = {x: 1001}; o.x < 1002 ? o.x : 1002",
		"with ({x: 1001}) { x < 1002 ? x : 1002 }",
		"var x = 1001; with ({}) { x < 1002 ? x : 1002 }",
		"var x = 5; with ({x: 1001}) { (function(){ return x < 1002 ? x : 1002 })() }",
	},
}

func H_C02_dynamic_scopes() {
	k := vBound("DYN0") + vChoice("dyn", vBound("DYNS"))
	g := vC02Dyn[k]
	if k < 2 && vChoice("strict", 2) == 1 {
		s := make([]string, len(g))
		for i := range g {
			s[i] = "'use strict'; " + g[i]
		}
		g = s
	}
	nsym := 1
	if k == 0 {
		nsym = 2
	}
	vC02GroupN("dyn", g, nsym)
}


// functions and objects: prologue variants (plain parameters, default initialisers, initialiser closures,
// arrow functions, strict bodies), object literals vs destructuring, accessors vs data properties, labelled
// breaks and early returns
var vC02Fn = [][]string{
	{
		"(function(a, b){ return a < b ? a : b })(1001, 1002)",
		"(function(a, b = 1002){ return a < b ? a : b })(1001)",
		"(function(a, b = 1002){ return a < b ? a : b })(1001, undefined)",
		"(function(a, b = (() => 1002)()){ return a < b ? a : b })(1001)",
		"(function(a, b = 1002){ var g = function(){ return a < b ? a : b }; return g() })(1001)",
		"(function(a){ let b = 1002; return (() => a < b ? a : b)() })(1001)",
		"((a, b) => a < b ? a : b)(1001, 1002)",
		"(function(a, b){ 'use strict'; return a < b ? a : b })(1001, 1002)",
		"(function(a, b = a < 1002 ? a : 1002){ return b })(1001)",
		"function f(a, b){ return a < b ? a : b } f(1001, 1002)",
		"var f = function g(a, b){ return a < b ? a : b }; f(1001, 1002)",
	},
	{
		"var o = {x: 1001, y: 1002}; o.x < o.y ? o.x : o.y",
		"var {x, y} = {x: 1001, y: 1002}; x < y ? x : y",
		"(function({x, y}){ return x < y ? x : y })({x: 1001, y: 1002})",
		"var o = {x: 1001}; var {x, y = 1002} = o; x < y ? x : y",
		"var o = {get x(){ return 1001 }, y: 1002}; o.x < o.y ? o.x : o.y",
		"var x, y; ({x, y} = {x: 1001, y: 1002}); x < y ? x : y",
		"let {x: p, y: q} = {x: 1001, y: 1002}; p < q ? p : q",
	},
	{
		"var r = 0; r = 1001; r",
		"var r = 0; l: { r = 1001; break l; r = 1002 } r",
		"var r = 0; do { r = 1001; break; r = 1002 } while (true); r",
		"var r = 0; (function(){ r = 1001; return; r = 1002 })(); r",
		"var r = 0; for (;;) { r = 1001; if (r === r || r !== r) break; r = 1002 } r",
		"var r = 0; try { r = 1001; throw 0; r = 1002 } catch (e) { } r",
		"var r = 0; o: for (;;) { for (;;) { r = 1001; break o } } r",
	},
}

func H_C02_functions_objects() {
	k := vBound("FN0") + vChoice("fn", vBound("FNS"))
	g := vC02Fn[k]
	if vChoice("strict", 2) == 1 {
		s := make([]string, len(g))
		for i := range g {
			s[i] = "'use strict'; " + g[i]
		}
		g = s
	}
	nsym := 2
	if k == 2 {
		nsym = 1
	}
	vC02GroupN("fn", g, nsym)
}

// exceptions: payload and kind of what is thrown must not depend on where the throw is compiled
var vC02Exc = [][]string{
	{ // caught payload
		"try { throw 1001 } catch (e) { e }",
		"(function(){ try { throw 1001 } catch (e) { return e } })()",
		"var r; try { (function(){ throw 1001 })() } catch (e) { r = e } r",
		"try { try { throw 1001 } finally { 5 } } catch (e) { e }",
		"var t = 1001; try { throw t } catch (e) { e }",
		"try { (() => { throw 1001 })() } catch (e) { e }",
		"try { eval('throw a') } catch (e) { e }; var a = 1001; try { eval('throw a') } catch (e) { e }",
	},
	{ // payload escaping the program
		"throw 1001",
		"(function(){ throw 1001 })()",
		"var t = 1001; throw t",
		"try { throw 1001 } finally { 5 }",
		"{ let t = 1001; (() => { throw t })() }",
		"if (true) throw 1001",
	},
	{ // a throw in a finally block overrides the pending completion
		"try { try { throw 1002 } finally { throw 1001 } } catch (e) { e }",
		"try { (function(){ try { return 1002 } finally { throw 1001 } })() } catch (e) { e }",
		"try { l: try { break l } finally { throw 1001 } } catch (e) { e }",
		"try { throw 1001 } catch (e) { e }",
	},
	{ // assignment to a const: TypeError wherever the binding lives
		"const k = 1001; k = 1002",
		"(function(){ const k = 1001; k = 1002 })()",
		"{ const k = 1001; (function(){ k = 1002 })() }",
		"const k = 1001; eval('k = 1002')",
	},
}

func H_C02_exceptions() {
	k := vBound("EXC0") + vChoice("exc", vBound("EXCS"))
	g := vC02Exc[k]
	if vChoice("strict", 2) == 1 {
		s := make([]string, len(g))
		for i := range g {
			s[i] = "'use strict'; " + g[i]
		}
		g = s
	}
	nsym := 1
	if k == 2 {
		nsym = 2
	}
	vC02GroupT("exc", g, nsym, k == 1 || k == 3)
}

// ---------------------------------------------------------------------
// H02.7: the definitional half for expression templates over Numbers: the completion value of the
// program - with literal operands, with global variables, and inside a function - is the value ECMA-262
// defines (reference on the bit patterns: ToBoolean, IEEE comparisons, ToInt32/ToUint32 for the bitwise
// operators, unary operators).

func refC02Truthy(bits uint64) bool {
	mag := bits &^ (1 << 63)
	return mag != 0 && mag <= 0x7ff0000000000000
}

type vC02Ref struct {
	kind int // 0 number (bits), 1 boolean, 2 string "number", 3 undefined
	bits uint64
	b    bool
}

func vC02RefEval(k int, a, b, c uint64) vC02Ref {
	fa, fb := math.Float64frombits(a), math.Float64frombits(b)
	num := func(x uint64) vC02Ref { return vC02Ref{kind: 0, bits: x} }
	boolean := func(x bool) vC02Ref { return vC02Ref{kind: 1, b: x} }
	i32 := func(x int32) vC02Ref { return num(math.Float64bits(float64(x))) }
	switch k {
	case 0: // a ? b : c
		if refC02Truthy(a) {
			return num(b)
		}
		return num(c)
	case 1: // a && b
		if refC02Truthy(a) {
			return num(b)
		}
		return num(a)
	case 2: // a || b
		if refC02Truthy(a) {
			return num(a)
		}
		return num(b)
	case 3: // a ?? b
		return num(a)
	case 4: // !a
		return boolean(!refC02Truthy(a))
	case 5: // -a
		return num(a ^ (1 << 63))
	case 6: // +a
		return num(a)
	case 7: // ~a
		return i32(^refToInt32(a))
	case 8: // typeof a
		return vC02Ref{kind: 2}
	case 9: // void a
		return vC02Ref{kind: 3}
	case 10: // (a, b)
		return num(b)
	case 11:
		return boolean(fa < fb)
	case 12:
		return boolean(fa <= fb)
	case 13:
		return boolean(fa == fb)
	case 14:
		return boolean(fa == fb)
	case 15:
		return boolean(fa != fb)
	case 16:
		return i32(refToInt32(a) & refToInt32(b))
	case 17:
		return i32(refToInt32(a) | refToInt32(b))
	case 18:
		return i32(refToInt32(a) ^ refToInt32(b))
	case 19:
		return i32(refToInt32(a) << (refToUint32(b) & 31))
	case 20:
		return i32(refToInt32(a) >> (refToUint32(b) & 31))
	default:
		return num(math.Float64bits(float64(refToUint32(a) >> (refToUint32(b) & 31))))
	}
}

// template, reference operation (case number in vC02RefEval), whether b is symbolic too
var vC02RefExprs = []struct {
	src    string
	op     int
	binary bool
}{
	{"a ? b : c", 0, true}, {"a && b", 1, true}, {"a || b", 2, true}, {"!a", 4, false}, {"-a", 5, false},
	{"typeof a", 8, false}, {"void a", 9, false},
	{"a ?? b", 3, true}, {"+a", 6, false}, {"~a", 7, false}, {"(a, b)", 10, true},
	{"a < b", 11, true}, {"a <= b", 12, true}, {"a == b", 13, true}, {"a === b", 14, true}, {"a != b", 15, true},
	{"a & b", 16, true}, {"a | b", 17, true}, {"a ^ b", 18, true}, {"a << b", 19, true}, {"a >> b", 20, true}, {"a >>> b", 21, true},
}

func vC02NumberBits(x interface{}) uint64 {
	switch n := x.(type) {
	case int64:
		return math.Float64bits(float64(n))
	case float64:
		return math.Float64bits(n)
	}
	panic("vC02NumberBits")
}

func H_C02_expr_vs_reference() {
	k := vBound("REF0") + vChoice("expr", vBound("REFS"))
	e := vC02RefExprs[k].src
	binary := vC02RefExprs[k].binary
	vals := vC02Vals{1001: vC02Number("A")}
	bBits := math.Float64bits(1002)
	if binary {
		vals[1002] = vC02Number("B")
		bBits = vC02NumberBits(vals[1002])
	}
	want := vC02RefEval(vC02RefExprs[k].op, vC02NumberBits(vals[1001]), bBits, math.Float64bits(1003))
	lit := vC02Subst(e, "1001", "1002", "1003")
	progs := []string{
		lit,
		"var a = 1001, b = 1002, c = 1003; " + e,
		"(function(a, b, c){ 'use strict'; return " + e + " })(1001, 1002, 1003)",
	}
	for _, src := range progs {
		o := vC02Run(src, vals)
		vAssert("ref:no-throw", !o.threw)
		if o.threw {
			continue
		}
		switch want.kind {
		case 0:
			_, isI := o.val.(valueInt)
			_, isF := o.val.(valueFloat)
			vAssert("ref:is-number", isI || isF)
			if isI || isF {
				wb := want.bits
				if wb&^(1<<63) > 0x7ff0000000000000 {
					wb = 0x7ff8000000000001
				}
				vAssert("ref:number==spec", vC02NumBits(o.val) == wb)
			}
		case 1:
			vAssert("ref:boolean==spec", o.val == valueBool(want.b))
		case 2:
			s, isS := o.val.(String)
			vAssert("ref:typeof==number", isS && s.SameAs(asciiString("number")))
		default:
			vAssert("ref:undefined", o.val == _undefined)
		}
	}
}
