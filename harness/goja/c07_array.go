package goja

// C07 — arrays behave as spec arrays regardless of storage strategy.
// Shared world: a dense arrayObject / a sparseArrayObject built directly (representation invariant assumed),
// with an abstract model (index -> element kind / flags / value) kept beside it.

const (
	vC07Hole  = 0
	vC07Plain = 1
	vC07Prop  = 2
)

type vC07Elem struct {
	kind int // concrete on every path
	conf bool
	wr   bool
	val  Value          // the stored Value (plain) or the *valueProperty
	prop *valueProperty // non-nil iff kind == vC07Prop
}

func vC07NewElem(mayHole bool) vC07Elem {
	k := vNondetInt("elem.kind")
	if mayHole {
		vAssume(k >= vC07Hole && k <= vC07Prop)
	} else {
		vAssume(k >= vC07Plain && k <= vC07Prop)
	}
	k = vConcretize(k)
	e := vC07Elem{kind: k}
	switch k {
	case vC07Plain:
		e.val = valueInt(int64(vNondetInt32("elem.val")))
	case vC07Prop:
		e.conf = vNondetBool("elem.configurable")
		e.wr = vNondetBool("elem.writable")
		e.prop = &valueProperty{
			value:        valueInt(int64(vNondetInt32("elem.val"))),
			configurable: e.conf,
			writable:     e.wr,
			enumerable:   vNondetBool("elem.enumerable"),
		}
		e.val = e.prop
	}
	return e
}

// ---------------------------------------------------------------------
// dense world

type vC07Dense struct {
	r     *Runtime
	a     *arrayObject
	n     int // len(values) at creation
	spare int // cap - len at creation
	elems []vC07Elem
	len0  uint32
}

func vC07NewArrayObject(r *Runtime, proto *Object) *arrayObject {
	return r.newArray(proto)
}

// vC07NewDense: arbitrary dense array within the bounds: N slots, up to S spare capacity (nil-filled: the
// invariant expand() relies on), length >= len(values), counters consistent with the contents.
func vC07NewDense(proto *Object) *vC07Dense {
	w := &vC07Dense{r: vRuntime()}
	n := vNondetInt("dense.len")
	vAssume(n >= 0 && n <= vBound("N"))
	n = vConcretize(n)
	spare := 0
	if vBound("S") > 0 {
		spare = vNondetInt("dense.spare")
		vAssume(spare >= 0 && spare <= vBound("S"))
		spare = vConcretize(spare)
	}
	w.n, w.spare = n, spare
	a := vC07NewArrayObject(w.r, proto)
	a.values = make([]Value, n, n+spare)
	w.elems = make([]vC07Elem, n)
	oc, pc := 0, 0
	for i := 0; i < n; i++ {
		e := vC07NewElem(true)
		w.elems[i] = e
		a.values[i] = e.val
		if e.kind != vC07Hole {
			oc++
		}
		if e.kind == vC07Prop {
			pc++
		}
	}
	a.objCount, a.propValueCount = oc, pc
	l := vNondetUint32("dense.length")
	vAssume(l >= uint32(n))
	a.length = l
	w.len0 = l
	a.lengthProp.writable = vNondetBool("dense.lengthWritable")
	w.a = a
	return w
}

// counts recomputed from the contents
func vC07DenseCounts(a *arrayObject) (oc, pc int) {
	for _, v := range a.values {
		if v != nil {
			oc++
			if _, ok := v.(*valueProperty); ok {
				pc++
			}
		}
	}
	return
}

// spare capacity behind len(values) must be nil (expand() re-slices into it and assumes holes)
func vC07SpareNil(a *arrayObject) bool {
	full := a.values[:cap(a.values)]
	ok := true
	for i := len(a.values); i < len(full); i++ {
		if full[i] != nil {
			ok = false
		}
	}
	return ok
}

// refC07SetLenStop: ECMA-262 10.4.2.4 ArraySetLength steps 15-17 over the abstract elements:
// returns the index+1 of the highest non-configurable element with index >= newLen, or newLen if none.
// kinds/conf are encoded as bit masks (bit i = element i), n <= 16.
func refC07SetLenStop(n int, propMask, confMask uint32, newLen uint32) uint32 {
	res := newLen
	for i := 0; i < n; i++ {
		if uint32(i) >= newLen && propMask&(1<<uint(i)) != 0 && confMask&(1<<uint(i)) == 0 {
			res = uint32(i) + 1
		}
	}
	return res
}

func (w *vC07Dense) masks() (propMask, confMask uint32) {
	for i, e := range w.elems {
		if e.kind == vC07Prop {
			propMask |= 1 << uint(i)
			c := uint32(0)
			if e.conf {
				c = 1 << uint(i)
			}
			confMask |= c
		}
	}
	return
}

// H07.1a dense ArraySetLength via arrayObject.setLength (the [[Set]] / defineProperty kernel)
func H_C07_dense_setLength() {
	w := vC07NewDense(nil)
	a := w.a
	newLen := vNondetUint32("newLen")
	throw := vNondetBool("throw")
	wasWritable := a.lengthProp.writable
	var ret bool
	out := vCatch(func() { ret = a.setLength(newLen, throw) })

	if !wasWritable {
		vAssert("setLength:nonwritable-fails", !ret)
		vAssert("setLength:nonwritable-throws-iff-throw", out.panicked == throw)
		vAssert("setLength:nonwritable-length-kept", a.length == w.len0)
		vAssert("setLength:nonwritable-values-kept", len(a.values) == w.n)
		return
	}
	propMask, confMask := w.masks()
	want := newLen
	if newLen < w.len0 {
		want = refC07SetLenStop(w.n, propMask, confMask, newLen)
	}
	wantOK := want == newLen
	vAssert("setLength:length==ArraySetLength", a.length == want)
	vAssert("setLength:result==ArraySetLength", ret == wantOK || out.panicked)
	vAssert("setLength:TypeError-iff-blocked-and-throw", out.panicked == (!wantOK && throw))
	if out.panicked {
		vAssert("setLength:kind", out.kind == "TypeError")
	}
	// surviving elements are untouched, deleted ones are gone
	wantN := w.n
	if want < uint32(w.n) {
		wantN = int(want)
	}
	vAssert("setLength:len(values)", len(a.values) == wantN)
	if len(a.values) == wantN {
		same := true
		for i := 0; i < wantN; i++ {
			if a.values[i] != w.elems[i].val {
				same = false
			}
		}
		vAssert("setLength:survivors-unchanged", same)
	}
	vAssert("setLength:spare-capacity-nil", vC07SpareNil(a))
	oc, pc := vC07DenseCounts(a)
	vAssert("setLength:propValueCount-consistent", a.propValueCount == pc)
	// known finding: truncation never decrements objCount (fails exactly when a non-hole element was removed)
	oc0, _ := w.counts()
	vAssertK("setLength:objCount-consistent", a.objCount == oc, oc != oc0, "F-C07-objcount-stale-after-truncate")
}

func (w *vC07Dense) counts() (oc, pc int) {
	for _, e := range w.elems {
		if e.kind != vC07Hole {
			oc++
		}
		if e.kind == vC07Prop {
			pc++
		}
	}
	return
}

// ---------------------------------------------------------------------
// sparse world

type vC07Sparse struct {
	r     *Runtime
	a     *sparseArrayObject
	m     int
	idx   []uint32
	elems []vC07Elem
	len0  uint32
}

// vC07NewSparse: arbitrary sparse array: M items with symbolic strictly increasing indices (any uint32 below
// 2^32-1), each plain or property; length > highest index; propValueCount consistent.
func vC07NewSparse(proto *Object) *vC07Sparse {
	w := &vC07Sparse{r: vRuntime()}
	m := vNondetInt("sparse.items")
	vAssume(m >= 0 && m <= vBound("M"))
	m = vConcretize(m)
	w.m = m
	o := &Object{runtime: w.r}
	a := &sparseArrayObject{}
	a.class = classArray
	a.val = o
	a.extensible = true
	o.self = a
	a.prototype = proto
	a.baseObject.init()
	a._put("length", &a.lengthProp)
	a.items = make([]sparseArrayItem, m, m+1)
	w.idx = make([]uint32, m)
	w.elems = make([]vC07Elem, m)
	pc := 0
	l := vNondetUint32("sparse.length")
	for i := 0; i < m; i++ {
		x := vNondetUint32("sparse.idx")
		vAssume(x != 0xFFFFFFFF)
		if i > 0 {
			vAssume(x > w.idx[i-1])
		}
		vAssume(l > x)
		e := vC07NewElem(false)
		w.idx[i] = x
		w.elems[i] = e
		a.items[i] = sparseArrayItem{idx: x, value: e.val}
		if e.kind == vC07Prop {
			pc++
		}
	}
	a.propValueCount = pc
	a.length = l
	w.len0 = l
	a.lengthProp.writable = vNondetBool("sparse.lengthWritable")
	w.a = a
	return w
}

func vC07SparseProps(a *sparseArrayObject) (pc int) {
	for _, it := range a.items {
		if _, ok := it.value.(*valueProperty); ok {
			pc++
		}
	}
	return
}

// sorted, unique, below length, no nil values
func vC07SparseWellFormed(a *sparseArrayObject) bool {
	ok := true
	for i, it := range a.items {
		if it.value == nil {
			ok = false
		}
		if it.idx >= a.length {
			ok = false
		}
		if i > 0 && a.items[i-1].idx >= it.idx {
			ok = false
		}
	}
	return ok
}

// H07.1b sparse ArraySetLength via sparseArrayObject.setLength
func H_C07_sparse_setLength() {
	w := vC07NewSparse(nil)
	a := w.a
	newLen := vNondetUint32("newLen")
	throw := vNondetBool("throw")
	wasWritable := a.lengthProp.writable
	var ret bool
	out := vCatch(func() { ret = a.setLength(newLen, throw) })

	if !wasWritable {
		vAssert("sparse.setLength:nonwritable-fails", !ret)
		vAssert("sparse.setLength:nonwritable-throws-iff-throw", out.panicked == throw)
		vAssert("sparse.setLength:nonwritable-length-kept", a.length == w.len0)
		vAssert("sparse.setLength:nonwritable-items-kept", len(a.items) == w.m)
		return
	}
	// ECMA-262 10.4.2.4 steps 15-17: delete from the top; the highest non-configurable element >= newLen stops it
	want := newLen
	atBoundary := false // the blocking element sits exactly at index newLen
	for i := 0; i < w.m; i++ {
		blocked := w.idx[i] >= newLen && w.elems[i].kind == vC07Prop && !w.elems[i].conf
		if blocked {
			want = w.idx[i] + 1
		}
	}
	propAtBoundary := false // a property element (configurable or not) sits exactly at index newLen
	for i := 0; i < w.m; i++ {
		b := w.idx[i] == newLen && w.elems[i].kind == vC07Prop
		if b {
			propAtBoundary = true
			atBoundary = !w.elems[i].conf
		}
	}
	if newLen >= w.len0 {
		want = newLen
		atBoundary = false
		propAtBoundary = false
	}
	known := atBoundary && want == newLen+1 // only the boundary element blocks
	// same defect (`item.idx <= l` ends the scan one element early): the boundary property is deleted without
	// being un-counted, unless a higher non-configurable element stopped the truncation above it
	knownCount := propAtBoundary && (want == newLen || want == newLen+1)
	wantOK := want == newLen
	vAssertK("sparse.setLength:length==ArraySetLength", a.length == want, known, "F-C07-sparse-setlength-boundary")
	vAssertK("sparse.setLength:result==ArraySetLength", ret == wantOK || out.panicked, known, "F-C07-sparse-setlength-boundary")
	vAssertK("sparse.setLength:TypeError-iff-blocked-and-throw", out.panicked == (!wantOK && throw), known, "F-C07-sparse-setlength-boundary")
	if out.panicked {
		vAssert("sparse.setLength:kind", out.kind == "TypeError")
	}
	cnt := 0
	for i := 0; i < w.m; i++ {
		if w.idx[i] < want {
			cnt++
		}
	}
	vAssertK("sparse.setLength:surviving-count", len(a.items) == cnt, known, "F-C07-sparse-setlength-boundary")
	same := true
	for i := 0; i < len(a.items) && i < w.m; i++ {
		if a.items[i].idx != w.idx[i] || a.items[i].value != w.elems[i].val {
			same = false
		}
	}
	vAssert("sparse.setLength:survivors-unchanged", same)
	vAssert("sparse.setLength:well-formed", vC07SparseWellFormed(a))
	vAssertK("sparse.setLength:propValueCount-consistent", a.propValueCount == vC07SparseProps(a), knownCount, "F-C07-sparse-setlength-boundary")
}
