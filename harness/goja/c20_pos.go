package goja

// C20 / H20.1 — position maps between code points, UTF-16 code units and UTF-8 bytes.
// Reference: ECMA-262 CodePointAt(string, position) iterated from 0 (the definition of "the code points of
// a String" used by RegExpBuiltinExec with the u flag) and the UTF-8 encoding lengths of RFC 3629.

// vC20Subject: an arbitrary unicodeString of n <= bound("N") UTF-16 units (any unit values, including lone
// and paired surrogates). Returns the string and its units (without the BOM marker).
func vC20Subject(name string) (unicodeString, []uint16) {
	n := vNondetInt(name + ".len")
	vAssume(n >= 0 && n <= vBound("N"))
	n = vConcretize(n)
	u := vNondetUint16s(name+".u", n)
	s := make(unicodeString, n+1)
	s[0] = 0xFEFF
	copy(s[1:], u)
	return s, u
}

func refC20IsHi(c uint16) bool { return c >= 0xD800 && c <= 0xDBFF }
func refC20IsLo(c uint16) bool { return c >= 0xDC00 && c <= 0xDFFF }

// refC20CpSize: number of code units of the code point at a position whose unit is c and whose next unit is
// `next` (hasNext=false at the end of the string) — CodePointAt step 5..9
func refC20CpSize(c, next uint16, hasNext bool) int {
	if c >= 0xD800 && c <= 0xDBFF && hasNext && next >= 0xDC00 && next <= 0xDFFF {
		return 2
	}
	return 1
}

// refC20Cp: the code point value — UTF16SurrogatePairToCodePoint or the unit itself
func refC20Cp(c, next uint16, hasNext bool) rune {
	if c >= 0xD800 && c <= 0xDBFF && hasNext && next >= 0xDC00 && next <= 0xDFFF {
		return (rune(c)-0xD800)*0x400 + (rune(next) - 0xDC00) + 0x10000
	}
	return rune(c)
}

func refC20Utf8Len(r rune) int {
	if r < 0x80 {
		return 1
	}
	if r < 0x800 {
		return 2
	}
	if r < 0x10000 {
		return 3
	}
	return 4
}

func vC20At(u []uint16, i int) (uint16, bool) {
	if i < len(u) {
		return u[i], true
	}
	return 0, false
}

// vC20CheckPosMap asserts that posMap/runes are exactly the code-point decomposition of u
func vC20CheckPosMap(tag string, u []uint16, posMap []int, runes []rune) {
	n := len(u)
	vAssert(tag+":len(posMap)==len(runes)+1", len(posMap) == len(runes)+1)
	if len(posMap) != len(runes)+1 {
		return
	}
	okFirst := posMap[0] == 0
	okLast := posMap[len(posMap)-1] == n
	okStep := true
	okRune := true
	for k := 0; k < len(runes); k++ {
		p := posMap[k]
		inRange := p >= 0 && p < n
		if !inRange {
			okStep = false
			break
		}
		c := u[p]
		next, hasNext := vC20At(u, p+1)
		if posMap[k+1]-p != refC20CpSize(c, next, hasNext) {
			okStep = false
		}
		if runes[k] != refC20Cp(c, next, hasNext) {
			okRune = false
		}
	}
	vAssert(tag+":posMap[0]==0", okFirst)
	vAssert(tag+":posMap[last]==length", okLast)
	vAssert(tag+":posMap[i+1]-posMap[i]==size(CodePointAt)", okStep)
	vAssert(tag+":runes[i]==CodePointAt", okRune)
}

// H20.1a buildPosMap over lenientUtf16Decoder, every start; posMapReverseLookup (cached path) agrees
func H_C20_posMap() {
	s, u := vC20Subject("s")
	n := len(u)
	start := vNondetInt("start")
	vAssume(start >= 0 && start <= n)
	posMap, runes, mappedStart, splitPair := buildPosMap(&lenientUtf16Decoder{utf16Reader: s.utf16Reader()}, s.Length(), start)
	vC20CheckPosMap("build", u, posMap, runes)
	// mappedStart = index of the code point containing unit `start`; splitPair iff start is inside a pair
	okMS := mappedStart >= 0 && mappedStart < len(posMap)
	vAssert("build:mappedStart-in-range", okMS)
	if okMS {
		lo := posMap[mappedStart]
		vAssert("build:posMap[mappedStart]<=start", lo <= start)
		vAssert("build:splitPair==(posMap[mappedStart]!=start)", splitPair == (lo != start))
		if mappedStart+1 < len(posMap) {
			vAssert("build:start<posMap[mappedStart+1]", start < posMap[mappedStart+1])
		} else {
			vAssert("build:start==length", start == n)
		}
		if splitPair {
			vReach("build:split-reached")
			vAssert("build:split-only-inside-astral", mappedStart < len(runes) && runes[mappedStart] >= 0x10000)
		}
	}
	// cached path
	m2, sp2 := posMapReverseLookup(posMap, start)
	vAssert("reverse:mappedStart-same-as-build", m2 == mappedStart)
	vAssert("reverse:splitPair-same-as-build", sp2 == splitPair)
}

// H20.1b utf16Runes: one rune per unit, value preserved (non-u mode sees code units)
func H_C20_utf16Runes() {
	s, u := vC20Subject("s")
	r := s.utf16Runes()
	vAssert("utf16Runes:len", len(r) == len(u))
	ok := len(r) == len(u)
	if ok {
		for i := range u {
			if r[i] != rune(u[i]) {
				ok = false
			}
		}
	}
	vAssert("utf16Runes:values", ok)
	// lenient decoder read to the end yields sizes summing to the length (no unit lost or duplicated)
	rd := &lenientUtf16Decoder{utf16Reader: s.utf16Reader()}
	total := 0
	for i := 0; i <= len(u); i++ {
		_, size, err := rd.ReadRune()
		if err != nil {
			break
		}
		total += size
	}
	vAssert("lenient:sizes-sum-to-length", total == len(u))
}

// H20.1c buildUTF8PosMap / positionMap.get: UTF-8 byte offsets map to UTF-16 offsets at every code point
// boundary; bails out (nil) exactly when the string is not well-formed UTF-16
func H_C20_utf8PosMap() {
	s, u := vC20Subject("s")
	n := len(u)
	pm, str := buildUTF8PosMap(s)
	// reference walk
	wellFormed := true
	p := 0
	var u8 [8]int
	var u16 [8]int
	cnt := 0
	bytes := 0
	for p < n {
		c := u[p]
		next, hasNext := vC20At(u, p+1)
		sz := refC20CpSize(c, next, hasNext)
		cp := refC20Cp(c, next, hasNext)
		if sz == 1 && (refC20IsHi(c) || refC20IsLo(c)) {
			wellFormed = false
		}
		bytes += refC20Utf8Len(cp)
		p += sz
		u8[cnt], u16[cnt] = bytes, p
		cnt++
	}
	if !wellFormed {
		vReach("utf8:ill-formed-reached")
		vAssert("utf8:nil-on-ill-formed", pm == nil)
		return
	}
	vAssert("utf8:non-nil-on-well-formed", pm != nil || n == 0)
	vAssert("utf8:one-item-per-code-point", len(pm) == cnt)
	vAssert("utf8:len(str)==utf8-length", len(str) == bytes)
	if len(pm) != cnt {
		return
	}
	vAssert("utf8:get(0)==0", pm.get(0) == 0)
	vAssert("utf8:get(-1)==-1 (unmatched group)", pm.get(-1) == -1)
	ok := true
	for k := 0; k < cnt; k++ {
		if pm.get(u8[k]) != u16[k] {
			ok = false
		}
	}
	vAssert("utf8:get(utf8-offset)==utf16-offset", ok)
}
