package goja

// H08.2: the iterator instructions of the VM (for-of / destructuring / spread protocol) one step each:
// iterNext, iterGetNextOrUndef, enumPop, enumPopClose, with an iterator whose next() returns a not-done
// result, a done result, or throws. Spec: a throwing next() (IteratorStep abrupt) must NOT be followed
// by return(); leaving the loop early (enumPopClose) calls return() exactly once; normal exhaustion
// calls it never.

var vIterReturnLog []*iteratorRecord

func vStubReturnIterLog(ir *iteratorRecord) {
	if ir.iterator == nil {
		return
	}
	vIterReturnLog = append(vIterReturnLog, ir)
	ir.iterator = nil
	ir.next = nil
}

func H_C08_iterInstr() {
	r := vRuntime()
	m := &vm{r: r}
	r.vm = m
	m.maxCallStackSize = 1 << 30
	m.stack = make(valueStack, 8)
	m.sp = 2
	m.stash = &stash{}
	m.prg = &Program{code: make([]instruction, 30)}
	m.pc = 5
	// the Go boundary of the run
	// the catcher was entered while the outer loop was already running: its snapshot holds one iterator
	m.tryStack = append(m.tryStack, tryFrame{catchPos: tryPanicMarker, finallyPos: -1, finallyRet: -1, stash: m.stash, sp: 0, iterLen: 1})
	vIterReturnLog = nil
	beh := vChoice("next.behaviour", 3) // 0 not done, 1 done, 2 throws
	thrown := valueInt(vNondetInt64("thrown"))
	val := valueInt(vNondetInt64("value"))
	calls := 0
	itObj := &Object{runtime: r}
	res := vNewIterResult(r, beh == 1, val)
	ir := &iteratorRecord{iterator: itObj, next: func(FunctionCall) Value {
		calls++
		if beh == 2 {
			panic(thrown)
		}
		return res
	}}
	outerIt := &iteratorRecord{iterator: &Object{runtime: r}}
	m.iterStack = append(m.iterStack, iterStackItem{iter: outerIt}, iterStackItem{iter: ir})
	which := vChoice("instr", 4)
	var ins instruction
	switch which {
	case 0:
		ins = iterNext(7)
	case 1:
		ins = iterGetNextOrUndef{}
	case 2:
		ins = enumPop
	default:
		ins = enumPopClose
	}
	var ex *Exception
	panicked := false
	func() {
		defer func() {
			if x := recover(); x != nil {
				if _, isAssume := x.(vAssumeFailedMarker); isAssume {
					panic(x)
				}
				panicked = true
				ex, _ = x.(*Exception)
			}
		}()
		ins.exec(m)
	}()
	returns := 0
	for _, x := range vIterReturnLog {
		if x == ir {
			returns++
		}
	}
	vAssert("outer-iterator-untouched", len(m.iterStack) >= 1 && m.iterStack[0].iter == outerIt && outerIt.iterator != nil)
	switch which {
	case 0, 1:
		vAssert("next-called-once", calls == 1)
		switch beh {
		case 0:
			vAssert("notdone:no-throw", !panicked)
			vAssert("notdone:iterator-stays-open", len(m.iterStack) == 2 && ir.iterator != nil && returns == 0)
			if which == 0 {
				vAssert("iterNext:value-latched", m.iterStack[1].val == Value(val) && m.pc == 6)
			} else {
				vAssert("getNext:value-pushed", m.sp == 3 && m.stack[2] == Value(val) && m.pc == 6)
			}
		case 1:
			vAssert("done:no-throw", !panicked)
			vAssert("done:no-return-call", returns == 0 && ir.iterator == nil)
			if which == 0 {
				vAssert("iterNext:jumps", m.pc == 12)
			} else {
				vAssert("getNext:undefined-pushed", m.sp == 3 && m.stack[2] == _undefined && m.pc == 6)
			}
		default:
			vAssert("throw:propagates-same-value", panicked && ex != nil && ex.val == Value(thrown))
			vAssert("throw:iterator-removed-before-unwinding", len(m.iterStack) == 1)
			vAssert("throw:no-return-call", returns == 0)
		}
	case 2:
		vAssert("enumPop:popped-without-return", !panicked && len(m.iterStack) == 1 && returns == 0 && calls == 0 && m.pc == 6)
	default:
		vAssert("enumPopClose:return-called-once", !panicked && len(m.iterStack) == 1 && returns == 1 && calls == 0 && m.pc == 6)
	}
}

// H08.3: the try / finally instruction protocol. From a frame in any live state (catch and/or finally
// still armed) control enters the finally block in one of the three ways the VM knows (falling in after
// the try or catch block completed: enterFinally; leaving the try block early through leaveTry; or an
// exception parked by handleThrow). From then on an exception thrown inside the finally block must be
// delivered to the NEXT enclosing frame, never to the catch or finally of the same statement; and when
// the finally block completes, leaveFinally re-raises the parked exception (the very same one) or
// continues at the recorded continuation.
func H_C08_finallyProtocol() {
	r := vRuntime()
	m := &vm{r: r}
	r.vm = m
	m.maxCallStackSize = 1 << 30
	m.stack = make(valueStack, 8)
	m.sp = 2
	m.stash = &stash{}
	m.prg = &Program{code: make([]instruction, 60)}
	// outer catcher (a script try/catch of an enclosing statement) and the frame under test
	m.tryStack = append(m.tryStack, tryFrame{catchPos: 40, finallyPos: -1, finallyRet: -1, stash: m.stash, sp: 0})
	hasCatch := vChoice("frame.hasCatch", 2) == 1
	catchSpent := vChoice("frame.catchSpent", 2) == 1 // the catch block already ran
	cp := int32(-1)
	if hasCatch && !catchSpent {
		cp = 20
	}
	m.tryStack = append(m.tryStack, tryFrame{catchPos: cp, finallyPos: 30, finallyRet: -1, stash: m.stash, sp: 1})
	entry := vChoice("entry", 3)
	pending := &Exception{val: valueInt(vNondetInt64("pending"))}
	switch entry {
	case 0: // fell in after the try/catch block: enterFinally is executed at finallyPos-1
		m.pc = 29
		enterFinally{}.exec(m)
		vAssert("enterFinally:pc", m.pc == 30)
	case 1: // break/continue/return out of the try block: leaveTry
		m.pc = 10
		leaveTry{}.exec(m)
		vAssert("leaveTry:enters-finally", m.pc == 30 && len(m.tryStack) == 2)
	default: // an exception with no catch clause left: parked by handleThrow
		vAssume(cp == -1)
		ret := m.handleThrow(pending)
		vAssert("handleThrow:enters-finally", ret == nil && m.pc == 30 && len(m.tryStack) == 2)
	}
	// inside the finally block
	what := vChoice("finally.outcome", 2)
	if what == 0 {
		// the finally block throws
		thrown := valueInt(vNondetInt64("thrown"))
		ret := m.handleThrow(thrown)
		vAssert("throw-in-finally:goes-to-the-enclosing-frame", ret == nil && m.pc == 40 && len(m.tryStack) == 1)
		vAssert("throw-in-finally:value", m.sp >= 1 && m.stack[m.sp-1] == Value(thrown))
		return
	}
	// the finally block completes
	var reraised interface{}
	func() {
		defer func() {
			if x := recover(); x != nil {
				if _, isAssume := x.(vAssumeFailedMarker); isAssume {
					panic(x)
				}
				reraised = x
			}
		}()
		m.pc = 35
		leaveFinally{}.exec(m)
	}()
	switch entry {
	case 0:
		vAssert("complete:continues-after", reraised == nil && m.pc == 36 && len(m.tryStack) == 1)
	case 1:
		vAssert("complete:continues-at-recorded-exit", reraised == nil && m.pc == 11 && len(m.tryStack) == 1)
	default:
		// re-raised to the enclosing catch: the same exception value
		vAssert("complete:pending-exception-reraised", reraised == nil && m.pc == 40 && len(m.tryStack) == 1 && m.stack[m.sp-1] == pending.val)
	}
}
