package goja

import "github.com/dop251/goja/unistring"

// ---------------------------------------------------------------------
// H10.1: promise settlement and reaction jobs. Real code: Promise.createResolvingFunctions (both
// closures), fulfill, reject, addReactions, triggerPromiseReactions, newPromiseReactionJob,
// newPromiseResolveThenableJob, enqueuePromiseJob and Runtime.leave (the drain). A short history on one
// promise: reactions attached before or after settlement, a first settling call (value / reason / self /
// an object whose `then` getter misbehaves, possibly re-entering the resolving functions), a second
// settling call, then the drain.
// Reference (ECMA-262 27.2.1.3): the first call of either resolving function wins, also against calls
// made re-entrantly while it runs; every reaction runs exactly once, in attachment order, with the
// settled value, whether attached before or after settlement; the rejection tracker sees "reject" when a
// promise without handlers is rejected and "handle" when a handler is attached later.

func vStubNewNativeFunc(r *Runtime, call func(FunctionCall) Value, name unistring.String, length int) *Object {
	v := &Object{runtime: r}
	f := &nativeFuncObject{baseFuncObject: baseFuncObject{baseObject: baseObject{class: classFunction, val: v, extensible: true}}, f: call}
	v.self = f
	f.baseObject.init()
	return v
}

// an object whose `then` property is an accessor with a side effect
type vThenable struct {
	baseObject
	onThen func() Value
}

func (t *vThenable) getStr(name unistring.String, receiver Value) Value {
	if name == "then" {
		return t.onThen()
	}
	return t.baseObject.getStr(name, receiver)
}

type vPromEvent struct {
	reaction int // index of the reaction pair
	fulfil   bool
	arg      Value
}

type vTrackEvent struct {
	op PromiseRejectionOperation
}

func H_C10_promise_settle() {
	r := vRuntime()
	m := &vm{r: r}
	r.vm = m
	m.maxCallStackSize = 1 << 30
	m.stack = make(valueStack, 8)
	m.stash = &stash{}
	var track []vTrackEvent
	r.promiseRejectionTracker = func(p *Promise, op PromiseRejectionOperation) { track = append(track, vTrackEvent{op}) }
	var log []vPromEvent
	p := r.newPromise(nil)
	resolve, reject := p.createResolvingFunctions()
	callObj := func(f *Object, v Value) {
		fn, _ := f.self.assertCallable()
		fn(FunctionCall{Arguments: []Value{v}})
	}
	mkReaction := func(k int) (*promiseReaction, *promiseReaction) {
		f := &promiseReaction{typ: promiseReactionFulfill, handler: &jobCallback{callback: func(c FunctionCall) Value {
			log = append(log, vPromEvent{k, true, c.Argument(0)})
			return _undefined
		}}}
		j := &promiseReaction{typ: promiseReactionReject, handler: &jobCallback{callback: func(c FunctionCall) Value {
			log = append(log, vPromEvent{k, false, c.Argument(0)})
			return _undefined
		}}}
		return f, j
	}
	attachEarly := vChoice("reactions.attached-before-settlement", 3) // how many of the 2 reaction pairs are attached before
	for k := 0; k < attachEarly; k++ {
		p.addReactions(mkReaction(k))
	}
	// first settling call
	v1 := valueInt(vNondetInt64("v1"))
	v2 := valueInt(vNondetInt64("v2"))
	v3 := valueInt(vNondetInt64("v3"))
	thrown := valueInt(vNondetInt64("thenThrows"))
	op1 := vChoice("op1", 4) // 0 resolve(v1), 1 reject(v1), 2 resolve(self), 3 resolve(object with a `then` getter)
	getter := 0
	var thenable *Object
	expectFulfil := false
	var expectVal Value
	switch op1 {
	case 0:
		callObj(resolve, v1)
		expectFulfil, expectVal = true, v1
	case 1:
		callObj(reject, v1)
		expectFulfil, expectVal = false, v1
	case 2:
		callObj(resolve, p.val)
		expectFulfil = false // TypeError: self-resolution
	default:
		getter = vChoice("then.getter", 4) // 0 undefined, 1 throws, 2 re-enters resolve(v2) then undefined, 3 re-enters reject(v2) then undefined
		thenable = &Object{runtime: r}
		t := &vThenable{baseObject: baseObject{class: classObject, val: thenable, extensible: true}}
		t.baseObject.init()
		thenable.self = t
		t.onThen = func() Value {
			switch getter {
			case 1:
				panic(thrown)
			case 2:
				callObj(resolve, v2)
			case 3:
				callObj(reject, v2)
			}
			return _undefined
		}
		callObj(resolve, thenable)
		if getter == 1 {
			expectFulfil, expectVal = false, thrown
		} else {
			// `then` is not callable: fulfilled with the object itself; re-entrant calls are ignored
			expectFulfil, expectVal = true, thenable
		}
	}
	// a second settling call is ignored
	switch vChoice("op2", 3) {
	case 1:
		callObj(resolve, v3)
	case 2:
		callObj(reject, v3)
	}
	trackAtSettle := len(track)
	for k := attachEarly; k < 2; k++ {
		p.addReactions(mkReaction(k))
	}
	// nothing runs synchronously
	vAssert("no-reaction-runs-before-the-drain", len(log) == 0)
	r.leave()
	vAssert("queue-empty-after-drain", len(r.jobQueue) == 0)
	// settled state
	if expectFulfil {
		vAssert("state:fulfilled", p.state == PromiseStateFulfilled && p.result == expectVal)
	} else if op1 == 2 {
		o, isObj := p.result.(*Object)
		vAssert("state:self-resolution-TypeError", p.state == PromiseStateRejected && isObj && vClassify(o) == "TypeError")
	} else {
		vAssert("state:rejected", p.state == PromiseStateRejected && p.result == expectVal)
	}
	// every reaction exactly once, in attachment order, right kind, right argument
	vAssert("reactions:each-exactly-once", len(log) == 2)
	if len(log) == 2 {
		vAssert("reactions:attachment-order", log[0].reaction == 0 && log[1].reaction == 1)
		vAssert("reactions:kind", log[0].fulfil == expectFulfil && log[1].fulfil == expectFulfil)
		if op1 != 2 {
			vAssert("reactions:argument", log[0].arg == expectVal && log[1].arg == expectVal)
		}
	}
	// HostPromiseRejectionTracker
	if expectFulfil {
		vAssert("tracker:silent-for-fulfilment", len(track) == 0)
	} else if attachEarly > 0 {
		vAssert("tracker:handled-before-rejection", len(track) == 0)
	} else {
		vAssert("tracker:reject-then-handle", trackAtSettle == 1 && len(track) == 2 && track[0].op == PromiseRejectionReject && track[1].op == PromiseRejectionHandle)
	}
}
