package ftoa

import (
	"math"
	"strconv"

	"github.com/dop251/goja/ftoa/internal/fast"
)

// C12 / H12.1 — FToStr LAYOUT. The digit generators (fast.Dtoa, ftoa) are replaced, in symbolic mode, by
// stubs returning ANY digit string / decimal point allowed by the generator's contract for the mode;
// the output bytes must equal the layout prescribed by ECMA-262 Number::toString (6.1.6.1.20),
// Number.prototype.toFixed (21.1.3.3), toExponential (21.1.3.2) and toPrecision (21.1.3.5), rewritten
// over (sign, digits, decPt): value = 0.d1d2...dk * 10^decPt.
//
// Natively (counterexample replay) the real generators run on a double constructed from the digits.

var (
	vC12Digits []byte
	vC12DecPt  int
	vC12FastOK bool
)

// stubs (symbolic mode only)
func vStubC12FastDtoa(v float64, mode fast.Mode, requested_digits int, buffer []byte) ([]byte, int, bool) {
	if !vC12FastOK {
		return buffer, 0, false
	}
	return append(buffer, vC12Digits...), vC12DecPt, true
}

func vStubC12Ftoa(d float64, mode int, biasUp bool, ndigits int, buf []byte) ([]byte, int) {
	return append(buf, vC12Digits...), vC12DecPt
}

// model of strconv.AppendInt(dst, i, 10) for |i| < 1000 (symbolic mode only; natively the real one runs)
func vStubC12AppendInt(dst []byte, i int64, base int) []byte {
	vAssume(base == 10 && i > -1000 && i < 1000)
	u := uint64(i)
	if i < 0 {
		dst = append(dst, '-')
		u = uint64(-i)
	}
	if u >= 100 {
		dst = append(dst, '0'+byte(u/100))
	}
	if u >= 10 {
		dst = append(dst, '0'+byte(u/10%10))
	}
	return append(dst, '0'+byte(u%10))
}

// ---------------------------------------------------------------------
// reference layouts (ordinary forking code, run BEFORE the kernel)

func vC12Zeros(out []byte, n int) []byte {
	for i := 0; i < n; i++ {
		out = append(out, '0')
	}
	return out
}

// m[0] [. m[1:]] e (+|-) |e|      (ECMA-262 toExponential steps 10-14, Number::toString step 10-11)
func vC12RefExponential(out []byte, m []byte, e int) []byte {
	out = append(out, m[0])
	if len(m) > 1 {
		out = append(out, '.')
		out = append(out, m[1:]...)
	}
	out = append(out, 'e')
	if e >= 0 {
		out = append(out, '+')
	} else {
		out = append(out, '-')
		e = -e
	}
	if e >= 100 {
		out = append(out, '0'+byte(e/100))
	}
	if e >= 10 {
		out = append(out, '0'+byte(e/10%10))
	}
	return append(out, '0'+byte(e%10))
}

func vC12RefLayout(mode FToStrMode, P int, neg bool, dg []byte, n int) []byte {
	k := len(dg)
	var out []byte
	if neg {
		out = append(out, '-')
	}
	switch mode {
	case ModeStandard: // Number::toString(x, 10), steps 6-11 with the spec's n = decPt, k = #digits
		switch {
		case k <= n && n <= 21:
			out = append(out, dg...)
			out = vC12Zeros(out, n-k)
		case 0 < n && n <= 21:
			out = append(out, dg[:n]...)
			out = append(out, '.')
			out = append(out, dg[n:]...)
		case -6 < n && n <= 0:
			out = append(out, '0', '.')
			out = vC12Zeros(out, -n)
			out = append(out, dg...)
		default:
			out = vC12RefExponential(out, dg, n-1)
		}
	case ModeStandardExponential: // toExponential(undefined): as many digits as necessary
		out = vC12RefExponential(out, dg, n-1)
	case ModeFixed: // toFixed(P): m = decimal digits of the integer x*10^P
		var m []byte
		if k == 1 && dg[0] == '0' {
			m = append(m, '0')
		} else {
			m = append(m, dg...)
			m = vC12Zeros(m, n-k+P)
		}
		if P != 0 {
			kk := len(m)
			if kk <= P {
				var z []byte
				z = vC12Zeros(z, P+1-kk)
				m = append(z, m...)
				kk = P + 1
			}
			out = append(out, m[:kk-P]...)
			out = append(out, '.')
			out = append(out, m[kk-P:]...)
		} else {
			out = append(out, m...)
		}
	case ModeExponential: // toExponential(P-1): P significant digits
		var m []byte
		m = append(m, dg...)
		m = vC12Zeros(m, P-k)
		out = vC12RefExponential(out, m, n-1)
	case ModePrecision: // toPrecision(P)
		var m []byte
		m = append(m, dg...)
		m = vC12Zeros(m, P-k)
		e := n - 1
		switch {
		case e < -6 || e >= P:
			out = vC12RefExponential(out, m, e)
		case e == P-1:
			out = append(out, m...)
		case e >= 0:
			out = append(out, m[:e+1]...)
			out = append(out, '.')
			out = append(out, m[e+1:]...)
		default:
			out = append(out, '0', '.')
			out = vC12Zeros(out, -(e + 1))
			out = append(out, m...)
		}
	}
	return out
}

// refC12FixedNotation: the result has no exponent part (so its length depends on decPt)
func refC12FixedNotation(mode FToStrMode, decPt, P int) bool {
	switch mode {
	case ModeStandard:
		return decPt >= -5 && decPt <= 21
	case ModeFixed:
		return true
	case ModePrecision:
		return decPt >= -5 && decPt <= P
	}
	return false
}

// vC12NativeValue: a double whose correctly rounded / shortest digits are dg with the given decimal point
func vC12NativeValue(dg []byte, decPt int, zeroDigit bool, P int) float64 {
	if zeroDigit { // a positive value that toFixed(P) rounds to zero
		return math.Pow(10, float64(-(P + 3)))
	}
	f, err := strconv.ParseFloat("0."+string(dg)+"e"+strconv.Itoa(decPt), 64)
	if err != nil {
		panic(err)
	}
	return f
}

func vC12Layout(mode FToStrMode) {
	cls := vNondetInt("class") // 0 NaN, 1 +Inf, 2 -Inf, 3 +0, 4 -0, 5 positive finite, 6 negative finite
	vAssume(cls >= 0 && cls <= 6)
	cls = vConcretize(cls)
	P := vNondetInt("precision")
	switch mode {
	case ModeStandard, ModeStandardExponential:
		vAssume(P == 0)
	case ModeFixed:
		vAssume(P >= 0 && P <= vBound("P"))
	default:
		vAssume(P >= 1 && P <= vBound("P"))
	}
	P = vConcretize(P)
	prefix := vNondetBytes("prefix", 1) // FToStr appends to the caller's buffer
	var buffer []byte
	if vBound("SMALLCAP") != 0 && vNondetBool("smallcap") {
		buffer = make([]byte, 1, 1)
	} else {
		buffer = make([]byte, 1, 128)
	}
	buffer[0] = prefix[0]

	var d float64
	var want []byte
	want = append(want, prefix[0])
	switch cls {
	case 0:
		d = math.NaN()
		want = append(want, "NaN"...)
	case 1:
		d = math.Inf(1)
		want = append(want, "Infinity"...)
	case 2:
		d = math.Inf(-1)
		want = append(want, "-Infinity"...)
	case 3, 4:
		if cls == 4 {
			d = math.Copysign(0, -1)
		}
		// +0 and -0: digits "0", no sign
		want = append(want, vC12RefLayout(mode, P, false, []byte{'0'}, 1)...)
	default:
		neg := cls == 6
		nd := vNondetInt("ndigits")
		vAssume(nd >= 1 && nd <= vBound("K"))
		nd = vConcretize(nd)
		dg := vNondetBytes("dg", nd)
		for i := 0; i < nd; i++ {
			vAssume(dg[i] >= '0' && dg[i] <= '9')
		}
		decPt := vNondetInt("decPt")
		vAssume(decPt >= -vBound("DP") && decPt <= vBound("DP"))
		emode := mode // the mode after FToStr's "toFixed of >= 1e21 is ToString" rule
		if mode == ModeFixed && decPt >= 22 {
			emode = ModeStandard
		}
		zeroDigit := false
		// generator contracts
		switch emode {
		case ModeStandard, ModeStandardExponential: // shortest: no leading / trailing zero
			vAssume(dg[0] != '0' && dg[nd-1] != '0')
		case ModeFixed: // at most P fraction digits; "0" (decPt 1) if the value rounds to zero
			zeroDigit = nd == 1 && decPt == 1 && dg[0] == '0'
			vAssume(zeroDigit || (dg[0] != '0' && nd-decPt <= P))
		default: // at most P significant digits
			vAssume(dg[0] != '0' && nd <= P)
		}
		if refC12FixedNotation(emode, decPt, P) {
			decPt = vConcretize(decPt)
		}
		d = vNondetFloat64("d")
		if neg {
			vAssume(d < 0 && d > math.Inf(-1))
			vAssume((d <= -1e21) == (decPt >= 22))
		} else {
			vAssume(d > 0 && d < math.Inf(1))
			vAssume((d >= 1e21) == (decPt >= 22))
		}
		if !vSymbolic() {
			d = vC12NativeValue(dg, decPt, zeroDigit, P)
			if neg {
				d = -d
			}
		}
		vC12Digits, vC12DecPt = dg, decPt
		vC12FastOK = true
		if vBound("FASTFAIL") != 0 {
			vC12FastOK = vNondetBool("fast.ok")
		}
		want = append(want, vC12RefLayout(emode, P, neg, dg, decPt)...)
	}

	got := FToStr(d, mode, P, buffer)

	vAssert("layout:length", len(got) == len(want))
	ok := len(got) == len(want)
	for i := 0; i < len(got) && i < len(want); i++ {
		if got[i] != want[i] {
			ok = false
		}
	}
	vAssert("layout:bytes==ECMA-262", ok)
}

func H_C12_layout_standard()    { vC12Layout(ModeStandard) }
func H_C12_layout_stdexp()      { vC12Layout(ModeStandardExponential) }
func H_C12_layout_fixed()       { vC12Layout(ModeFixed) }
func H_C12_layout_exponential() { vC12Layout(ModeExponential) }
func H_C12_layout_precision()   { vC12Layout(ModePrecision) }
