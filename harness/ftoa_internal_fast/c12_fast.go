package fast

// C12 / H12.4 — the rounding decision of the Grisu3 "counted" fast path (toExponential / toPrecision).
//
// Contract of roundWeedCounted (from its documentation and the Grisu paper): the exact remainder r lies
// strictly inside (rest-unit, rest+unit); 10^kappa == ten_kappa; the digits in the buffer are the
// truncated expansion. The function may
//   * return true leaving the digits as they are only if r < ten_kappa/2 for EVERY admissible r,
//   * return true with the decimal number in the buffer incremented by one only if r > ten_kappa/2 for
//     EVERY admissible r ("99" -> "10" with kappa+1 on carry-out),
//   * otherwise it must return false (the caller then uses the exact bignum algorithm).
// Bytes of the buffer in front of the digits (FToStr passes the '-' sign there) are not its to change.

// refC12DownSafe: 2*(rest+unit) <= ten_kappa, computed without overflow
func refC12DownSafe(rest, tenKappa, unit uint64) bool {
	sum := rest + unit
	if sum < rest { // carry: rest+unit >= 2^64 > ten_kappa/2
		return false
	}
	return sum <= tenKappa/2
}

// refC12UpSafe: 2*(rest-unit) >= ten_kappa, computed without overflow
func refC12UpSafe(rest, tenKappa, unit uint64) bool {
	if rest < unit {
		return false
	}
	return rest-unit >= tenKappa/2+tenKappa&1
}

func H_C12_roundWeedCounted() {
	p := vNondetInt("prefixLen")
	vAssume(p >= 0 && p <= 1)
	p = vConcretize(p)
	k := vNondetInt("digits")
	vAssume(k >= 1 && k <= vBound("K"))
	k = vConcretize(k)
	buf := vNondetBytes("buf", p+k)
	allNines := true
	for i := 0; i < k; i++ {
		c := buf[p+i]
		vAssume(c >= '0' && c <= '9')
		if c != '9' {
			allNines = false
		}
	}
	vAssume(buf[p] != '0')
	orig := make([]byte, p+k)
	copy(orig, buf)

	rest := vNondetUint64("rest")
	tenKappa := vNondetUint64("ten_kappa")
	unit := vNondetUint64("unit")
	vAssume(rest < tenKappa) // documented precondition
	vAssume(unit >= 1)       // the error of the scaled value is at least one unit
	kappa0 := vNondetInt("kappa")
	vAssume(kappa0 >= -400 && kappa0 <= 400)
	kappa := kappa0

	ret := roundWeedCounted(buf, rest, tenKappa, unit, &kappa)

	downSafe := refC12DownSafe(rest, tenKappa, unit)
	upSafe := refC12UpSafe(rest, tenKappa, unit)

	// expected digits after an increment
	inc := make([]byte, p+k)
	copy(inc, orig)
	carry := byte(1)
	for i := k - 1; i >= 0; i-- {
		d := orig[p+i] - '0' + carry
		nc := byte(0)
		if d == 10 {
			d = 0
			nc = 1
		}
		carry = nc
		inc[p+i] = '0' + d
	}
	incKappa := kappa0
	if carry == 1 { // all nines: "99" -> "10", kappa+1
		inc[p] = '1'
		incKappa = kappa0 + 1
	}

	unchanged := kappa == kappa0
	incremented := kappa == incKappa
	for i := 0; i < p+k; i++ {
		if buf[i] != orig[i] {
			unchanged = false
		}
		if buf[i] != inc[i] {
			incremented = false
		}
	}
	// soundness of a "true" answer. Known defect class: the carry loop and the "first digit overflowed"
	// test use buffer[0] instead of the first DIGIT, so with a prefix in front of all-nines digits the
	// carry runs into the prefix byte (and a prefix byte ':' == '0'+10 is mistaken for an overflowed digit).
	sound := !ret || (unchanged && downSafe) || (incremented && upSafe)
	vAssertK("roundWeedCounted:true=>correctly-rounded", sound, p > 0 && (allNines || orig[0] == '0'+10), "F-C12-counted-carry-into-sign")
	// the rounding direction is decided whenever the error interval permits (2*unit < ten_kappa)
	decidable := unit < tenKappa-unit && (downSafe || upSafe)
	vAssert("roundWeedCounted:decides-when-decidable", !decidable || ret)
	if !ret {
		vReach("roundWeedCounted:gives-up")
	}
}
