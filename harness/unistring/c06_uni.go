package unistring

// C06 / H06.1 (package unistring): the encoders that turn Go strings / runes / UTF-16 into the
// hybrid key representation.  Reference model: Unicode 15 Table 3-7 (well-formed UTF-8 byte
// sequences) and section 3.9 D91 (UTF-16 encoding form); nothing is taken from unicode/utf8|utf16.

// vC06Decode: the first scalar value of a byte sequence of which `avail` (0..4) bytes exist.
// ok=false: the prefix is not a well-formed UTF-8 sequence.
func vC06Decode(b0, b1, b2, b3 byte, avail int) (r int32, size int, ok bool) {
	// single-exit, assignment-only style: the engine if-converts it into one small term
	x1, x2, x3 := int32(b1&0x3F), int32(b2&0x3F), int32(b3&0x3F)
	// admissible range of the second byte (Table 3-7)
	lo, hi := byte(0x80), byte(0xBF)
	if b0 == 0xE0 {
		lo = 0xA0
	}
	if b0 == 0xED {
		hi = 0x9F
	}
	if b0 == 0xF0 {
		lo = 0x90
	}
	if b0 == 0xF4 {
		hi = 0x8F
	}
	ok2 := b1 >= lo
	if b1 > hi {
		ok2 = false
	}
	ok3 := ok2
	if b2&0xC0 != 0x80 {
		ok3 = false
	}
	ok4 := ok3
	if b3&0xC0 != 0x80 {
		ok4 = false
	}
	if avail < 2 {
		ok2 = false
	}
	if avail < 3 {
		ok3 = false
	}
	if avail < 4 {
		ok4 = false
	}
	// lead byte classes: 00..7F | C2..DF | E0..EF | F0..F4 ; everything else is ill-formed
	r, size, ok = int32(b0), 1, b0 < 0x80
	if b0 >= 0xC2 {
		r, size, ok = int32(b0&0x1F)<<6|x1, 2, ok2
	}
	if b0 >= 0xE0 {
		r, size, ok = int32(b0&0x0F)<<12|x1<<6|x2, 3, ok3
	}
	if b0 >= 0xF0 {
		r, size, ok = int32(b0&0x07)<<18|x1<<12|x2<<6|x3, 4, ok4
	}
	if b0 > 0xF4 {
		ok = false
	}
	if avail < 1 {
		ok = false
	}
	if !ok {
		r, size = 0, 0
	}
	return
}

// refC06Hi / refC06Lo: UTF-16 encoding of a supplementary scalar value (D91)
func refC06Hi(r int32) uint16 { return uint16(0xD800 + ((r - 0x10000) >> 10)) }
func refC06Lo(r int32) uint16 { return uint16(0xDC00 + ((r - 0x10000) & 0x3FF)) }

func vC06At(s string, i int) byte {
	if i < len(s) {
		return s[i]
	}
	return 0
}

// vC06ValidString: an arbitrary well-formed UTF-8 string of at most B bytes together with its
// reference UTF-16 code units and whether it is ASCII-only.
func vC06ValidString(name string) (s string, units []uint16, ascii bool) {
	n := vNondetInt(name + ".len")
	vAssume(n >= 0 && n <= vBound("B"))
	n = vConcretize(n)
	s = vNondetString(name, n)
	ascii = true
	for pos := 0; pos < n; {
		r, size, ok := vC06Decode(vC06At(s, pos), vC06At(s, pos+1), vC06At(s, pos+2), vC06At(s, pos+3), n-pos)
		vAssume(ok)
		size = vConcretize(size)
		if size == 4 {
			units = append(units, refC06Hi(r), refC06Lo(r))
		} else {
			units = append(units, uint16(r))
		}
		if size > 1 {
			ascii = false
		}
		pos += size
	}
	return
}

func vC06UnitsAre(buf []uint16, units []uint16) bool {
	if len(buf) != len(units)+1 {
		return false
	}
	ok := buf[0] == BOM
	for i, u := range units {
		if buf[i+1] != u {
			ok = false
		}
	}
	return ok
}

// H06.1a: Scan returns nil exactly for ASCII-only input, otherwise BOM + refUTF16(s)
func H_C06_uniScan() {
	s, units, ascii := vC06ValidString("s")
	buf := Scan(s)
	if ascii {
		vAssert("scan:ascii-nil", buf == nil)
	} else {
		vAssert("scan:units==refUTF16", vC06UnitsAre(buf, units))
	}
}

// H06.1b: NewFromString: an ASCII string is itself, never readable as UTF-16; otherwise AsUtf16 gives BOM+refUTF16
func H_C06_uniNewFromString() {
	s, units, ascii := vC06ValidString("s")
	k := NewFromString(s)
	u := k.AsUtf16()
	if ascii {
		vAssert("new:ascii-identity", string(k) == s)
		vAssert("new:ascii-not-utf16", u == nil)
	} else {
		vAssert("new:units==refUTF16", vC06UnitsAre(u, units))
		vAssert("new:bytes==2*(units+1)", len(k) == 2*(len(units)+1))
	}
}

// H06.1c: AsUtf16(FromUtf16(u)) == u for every BOM-prefixed buffer (lone surrogates included)
func H_C06_uniRoundTrip() {
	n := vNondetInt("n")
	vAssume(n >= 1 && n <= vBound("U"))
	n = vConcretize(n)
	units := vNondetUint16s("u", n)
	buf := make([]uint16, n+1)
	buf[0] = BOM
	copy(buf[1:], units)
	k := FromUtf16(buf)
	vAssert("rt:len", len(k) == 2*(n+1))
	back := k.AsUtf16()
	vAssert("rt:units", vC06UnitsAre(back, units))
}

// H06.1d: an ASCII key (all bytes < 0x80) of any length up to 2*U+2 is never read as UTF-16
func H_C06_uniAsciiNeverUtf16() {
	n := vNondetInt("n")
	vAssume(n >= 0 && n <= 2*vBound("U")+2)
	n = vConcretize(n)
	s := vNondetString("s", n)
	for i := 0; i < n; i++ {
		vAssume(s[i] < 0x80)
	}
	vAssert("ascii:not-utf16", String(s).AsUtf16() == nil)
	vAssert("ascii:String-identity", String(s).String() == s)
}

// H06.1e: NewFromRunes over code points 0..0x10FFFF (surrogate code points allowed: they are how
// goja passes lone surrogates): ASCII-only -> the bytes; otherwise BOM + UTF-16 with surrogates kept
func H_C06_uniNewFromRunes() {
	n := vNondetInt("n")
	vAssume(n >= 0 && n <= vBound("R"))
	n = vConcretize(n)
	rs := make([]rune, n)
	var units []uint16
	ascii := true
	for i := 0; i < n; i++ {
		r := vNondetInt32("r")
		vAssume(r >= 0 && r <= 0x10FFFF)
		rs[i] = r
		if vNondetBool("supp") {
			vAssume(r > 0xFFFF)
			units = append(units, refC06Hi(r), refC06Lo(r))
			ascii = false
		} else {
			vAssume(r <= 0xFFFF)
			units = append(units, uint16(r))
			if vNondetBool("nonascii") {
				vAssume(r >= 0x80)
				ascii = false
			} else {
				vAssume(r < 0x80)
			}
		}
	}
	k := NewFromRunes(rs)
	u := k.AsUtf16()
	if ascii {
		vAssert("runes:ascii-len", len(k) == n)
		ok := u == nil
		for i := 0; i < n && i < len(k); i++ {
			if k[i] != byte(rs[i]) {
				ok = false
			}
		}
		vAssert("runes:ascii-bytes", ok)
	} else {
		vAssert("runes:units==refUTF16", vC06UnitsAre(u, units))
	}
}

// symbolic-mode replacement of unicode/utf8.DecodeRuneInString by its documented contract
// (well-formed prefix -> (scalar, width); otherwise (U+FFFD, 1); empty -> (U+FFFD, 0)).
// The table-driven stdlib implementation costs seconds per solver query.
func vC06StubDecodeRuneInString(s string) (rune, int) {
	if len(s) == 0 {
		return 0xFFFD, 0
	}
	r, size, ok := vC06Decode(vC06At(s, 0), vC06At(s, 1), vC06At(s, 2), vC06At(s, 3), min(len(s), 4))
	if !ok {
		r = 0xFFFD
		size = 1
	}
	return r, size
}
